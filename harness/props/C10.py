"""C10 - configuration applied faithfully / erroneous configuration rejected whole:
implementation driver (real load_config + Server._processCfg + poll thread start-up), encoder, direct oracle, generators

A case: generated module classes (descriptors), generated config files (Node/Mod/Param/Group source text written to a
scratch directory) and probe values.  The driver builds the classes with type(), registers them in a fake python module,
lets the real Server load the files and process the configuration (mkthread patched so that the poll thread body runs
synchronously and stops after the first doPoll), and records what happened."""
import io
import json
import math
import os
import random
import re
import shutil
import sys
import tempfile
import types

from harness import gal
from harness import dtgen as G

ID = 'C10'
COQ_DIRS = ['C01']
MODEL_TARGETS = ['theories/C10/Run.vo']
PROOF_TARGETS = ['theories/C10/Properties.vo']
PROPERTIES_V = 'theories/C10/Properties.v'
IMPORTS = 'Require Import FV.Base.F64 FV.Base.PyVal FV.C01.Model FV.Gen.C10 FV.C10.Model FV.C10.Run.'
CASE_TYPE = 'case'
CHECK = 'check_case'
SHARD_SIZE = 120
RULE = ('1..2 generated module classes (2..6 accessibles out of value/target/p1..p3/opt1/cmd with datatypes float, int, '
        'scaled, bool, enum, string, array of int/float, struct; class-level default/value/needscfg/readonly/export/'
        'visibility/group/missing description; read/write driver methods; optional custom mandatory module property) x '
        '1..3 config files with 1..3 Mod() sections each (overlapping names -> merging) x per accessible one of: not '
        'configured, bare value, Param(value, props), Param(props) with props out of min/max/unit/visibility/export/'
        'readonly/group/description/needscfg/default, Group(); values valid, at the limits, outside the limits, of the '
        'wrong type; error injections (unknown name, unknown parameter property, ill-typed property, inverted limits, '
        'missing required value, invalid module name, unknown group member), several at once; non-trivial = at least one '
        'accessible or module property configured; distinct = distinct (classes, files)')
ASSUMPTIONS = [
    'datatypes of generated parameters are restricted to float, int, scaled, bool, enum, string, array of int/float and '
    'struct of int/float members; configured datatype properties are min, max, unit (other datatype properties such as '
    'fmtstr, minlen, maxchars are never configured)',
    'the class-level description of every accessible (datatype, default, value, export name, ...) is read from the real '
    'class object after class creation and given to the model as input: class creation/inheritance itself is C09',
    'datatype.default of the class-level datatype is supplied as data',
    'Limit parameters, `constant`, `datatype`, `update_unchanged`, `influences` in the configuration, io/attached modules '
    'and Pinata modules are not generated',
    'the poll thread body is run synchronously (frappy.modulebase.mkthread patched) up to the start callback; the '
    'scheduling of the real thread is C13/C15',
    'error messages are only classified by their fixed prefix/shape (kind, item), never compared',
]

GENMOD = 'frappy_c10gen'
PARAM_PROPS = ['description', 'datatype', 'readonly', 'group', 'visibility', 'constant', 'default', 'value', 'export',
               'needscfg', 'update_unchanged', 'influences']
MODULE_PROPS = ['export', 'group', 'description', 'meaning', 'visibility', 'implementation', 'interface_classes',
                'features', 'pollinterval', 'slowinterval', 'omit_unchanged_within', 'original_id']
FMAX = sys.float_info.max


# ------------------------------------------------------------------ python literals for config files
def pylit(t):
    k = t[0]
    if k == 'none':
        return 'None'
    if k == 'bool':
        return 'True' if t[1] else 'False'
    if k == 'int':
        return str(int(t[1]))
    if k == 'float':
        x = G.dec_float(t[1])
        if x != x:
            return "float('nan')"
        if x in (math.inf, -math.inf):
            return "float('%sinf')" % ('-' if x < 0 else '')
        return repr(x)
    if k == 'str':
        return repr(G.from_cps(t[1]))
    if k == 'bytes':
        return repr(bytes(t[1]))
    if k == 'list':
        return '[' + ', '.join(pylit(x) for x in t[1]) + ']'
    if k == 'tuple':
        return '(' + ''.join(pylit(x) + ', ' for x in t[1]) + ')'
    if k == 'dict':
        return '{' + ', '.join(f'{G.from_cps(kk)!r}: {pylit(x)}' for kk, x in t[1]) + '}'
    if k == 'opaque':
        return 'object()'
    raise ValueError(t)


def file_text(f):
    lines = [f"Node({f['eid']!r}, 'generated node', 'tcp://10767')"]
    for m in f['mods']:
        args = [repr(m['name']), repr(f"{GENMOD}.C{m['cls']}"), pylit(m['descr'])]
        for key, kw in m['kws']:
            if kw[0] == 'bare':
                args.append(f'{key}={pylit(kw[1])}')
            elif kw[0] == 'param':
                inner = ([pylit(kw[1])] if kw[1] is not None else []) + [f'{k}={pylit(v)}' for k, v in kw[2]]
                args.append(f"{key}=Param({', '.join(inner)})")
            else:
                args.append(f"{key}=Group({', '.join(repr(x) for x in kw[1])})")
        lines.append(f"Mod({', '.join(args)})")
    return '\n'.join(lines) + '\n'


# ------------------------------------------------------------------ building the classes
def leaf_of(d):
    return d['elem'] if d['t'] == 'array' else d


def build_dt(d, unit):
    from frappy import datatypes as dt
    t = d['t']
    kw = {'unit': unit} if unit else {}
    if t == 'float':
        return dt.FloatRange(G.dec_float(d['min']), G.dec_float(d['max']), **kw)
    if t == 'scaled':
        return dt.ScaledInteger(G.dec_float(d['scale']), G.dec_float(d['min']), G.dec_float(d['max']), **kw)
    if t == 'array':
        return dt.ArrayOf(build_dt(d['elem'], unit), d['min'], d['max'])
    return G.build(d)


class _Log:
    handlers = []

    def __init__(self):
        self.parent = self

    def getChild(self, *a, **k):
        return self

    def addHandler(self, *a):
        pass

    def __getattr__(self, name):
        return lambda *a, **k: None


_EVENTS = []


def build_class(cd, idx):
    from frappy.modulebase import Module
    from frappy.params import Parameter, Command
    from frappy.properties import Property
    from frappy.datatypes import IntRange
    ns = {'__module__': GENMOD, 'enablePoll': bool(cd['enablepoll'])}
    for p in cd['params']:
        n = p['name']
        kw = {}
        for k in ('readonly', 'needscfg', 'export', 'visibility', 'group'):
            if p.get(k) is not None:
                kw[k] = p[k]
        if p.get('optional'):
            kw['optional'] = True
        if p['kind'] == 'cmd':
            def func(self, _n=n):
                _EVENTS.append(['cmd', self.name, _n])
            func.__name__ = n
            func.__doc__ = None
            kw.pop('readonly', None)
            kw.pop('needscfg', None)
            if p.get('descr') is not None:
                kw['description'] = p['descr']
            ns[n] = Command(None, result=None, **kw)(func)
            continue
        if p.get('default') is not None:
            kw['default'] = G.untag(p['default'])
        if p.get('value') is not None:
            kw['value'] = G.untag(p['value'])
        dtobj = build_dt(p['dt'], p.get('unit', '')) if p.get('dt') else None
        ns[n] = Parameter(p.get('descr'), dtobj, **kw)
        if p.get('optional'):
            continue
        if p.get('has_write'):
            def wf(self, value, _n=n):
                _EVENTS.append(['write', self.name, _n, G.tag(value)])
                return value
            ns['write_' + n] = wf
        if p.get('has_read'):
            def rf(self, _n=n):
                _EVENTS.append(['read', self.name, _n])
                return getattr(self, _n)
            ns['read_' + n] = rf
    if cd.get('custom') == 'mand':
        ns['cprop'] = Property('custom mandatory property', IntRange(0, 10))
    elif cd.get('custom') == 'opt':
        ns['cprop'] = Property('custom property', IntRange(0, 10), default=3)

    def doPoll(self):
        _EVENTS.append(['doPoll', self.name])
        self.polledModules.clear()          # what stopPollThread does: ends the poll loop

    def initialReads(self):
        _EVENTS.append(['initialReads', self.name])
    ns['doPoll'] = doPoll
    ns['initialReads'] = initialReads
    return type(f'C{idx}', (Module,), ns)


def describe_class(cls, cd):
    """the class-level accessibles as the model takes them, read from the real class"""
    from frappy.params import Parameter, PREDEFINED_ACCESSIBLES
    res = []
    byname = {p['name']: p for p in cd['params']}
    for n, a in cls.accessibles.items():
        p = byname[n]
        iscmd = not isinstance(a, Parameter)
        pv = a.propertyValues
        r = {'name': n, 'iscmd': iscmd, 'optional': bool(a.optional),
             'predef': PREDEFINED_ACCESSIBLES.get(n) is not None and isinstance(a, PREDEFINED_ACCESSIBLES[n]),
             'descr': pv.get('description'), 'export': a.export, 'visibility': int(a.visibility), 'group': a.group,
             'gd': None, 'unit': '', 'dtdefault': ['none'], 'readonly': False, 'needscfg': False, 'default': None,
             'value': None, 'has_write': False, 'wfunc': False, 'polled': False}
        if not iscmd:
            r['readonly'] = bool(a.readonly)
            r['needscfg'] = bool(a.needscfg)
            if 'default' in pv:
                r['default'] = G.tag(pv['default'])
            if 'value' in pv:
                r['value'] = G.tag(pv['value'])
            if a.hasDatatype():
                cp = a.copy()
                r['gd'] = G.gal_dtype(p['dt'], cp.datatype)
                lf = cp.datatype.members if p['dt']['t'] == 'array' else cp.datatype
                r['unit'] = getattr(lf, 'unit', '') if leaf_of(p['dt'])['t'] in ('float', 'scaled') else ''
                r['dtdefault'] = G.tag(cp.datatype.default)
            if not a.optional:
                r['has_write'] = hasattr(cls, 'write_' + n) or ('write_' + n) in cls.wrappedAttributes
                r['wfunc'] = hasattr(cls, 'write_' + n)
                rf = cls.wrappedAttributes.get('read_' + n)
                r['polled'] = bool(rf is not None and getattr(rf, 'poll', False))
        res.append(r)
    return res


# ------------------------------------------------------------------ running the real node
ERR_PATTERNS = [
    ('unknown', re.compile(r'^(.*) does not exist \(use one of ')),
    ('noprop', re.compile(r"^'(\w+)' has no property '(\w+)'$")),
    ('needscfg', re.compile(r"^'(\w+)' has no default value and was not given in config!$")),
    ('needsdt', re.compile(r'^(\w+) needs a datatype$')),
    ('badvalue', re.compile(r'^(\w+)\.(\w+): ')),
    ('mandatory', re.compile(r'^(?:ConfigError: )?(\w+) needs a value of type ')),
    ('modprop', re.compile(r'^(\w+): value .* does not match .*!$', re.S)),
    ('check', re.compile(r'^(\w+): ')),
]


def classify_error(line):
    for kind, rx in ERR_PATTERNS:
        m = rx.match(line)
        if m:
            if kind == 'unknown':
                return [kind, m.group(1).split(', ')]
            return [kind] + list(m.groups())
    return ['other', line[:80]]


def parse_node_errors(errors):
    """SecNode.errors -> {modname: ['rejected', [err..]] | ['crashed']} + unattributed lines"""
    res = {}
    other = []
    cur = None
    for e in errors:
        m = re.match(r'^error creating module (\w+):$', e)
        if m:
            cur = m.group(1)
            res[cur] = ['rejected', []]
            continue
        m = re.match(r'^error creating (\w+)$', e)
        if m:
            res[m.group(1)] = ['crashed']
            cur = None
            continue
        if e.startswith('  ') and cur is not None:
            res[cur][1].append(classify_error(e[2:]))
            continue
        cur = None
        other.append(e[:120])
    return res, other


def snapshot(mod, probes, cfgkeys):
    from frappy.params import Parameter
    from frappy.datatypes import ArrayOf, FloatRange, IntRange, ScaledInteger
    from frappy.errors import ConfigError, RangeError, WrongTypeError
    ps = []
    for n, a in mod.accessibles.items():
        iscmd = not isinstance(a, Parameter)
        r = {'name': n, 'iscmd': iscmd, 'descr': a.propertyValues.get('description'), 'visibility': int(a.visibility),
             'group': a.group, 'export': a.export if a.export is False else str(a.export), 'value': ['none'],
             'readonly': False, 'limits': None, 'unit': '', 'uninit': False, 'probes': []}
        if not iscmd:
            r['value'] = G.tag(a.value)
            r['readonly'] = bool(a.readonly)
            r['uninit'] = isinstance(a.readerror, ConfigError)
            if a.hasDatatype():
                dt = a.datatype
                lf = dt.members if isinstance(dt, ArrayOf) else dt
                if isinstance(lf, (FloatRange, IntRange, ScaledInteger)):
                    r['limits'] = [G.tag(lf.min), G.tag(lf.max)]
                if isinstance(lf, (FloatRange, ScaledInteger)):
                    r['unit'] = lf.unit
                for pr in probes.get(n, []):
                    try:
                        out = ['ok', G.tag(dt.validate(G.untag(pr)))]
                    except RangeError:
                        out = ['err', 'RangeError']
                    except WrongTypeError:
                        out = ['err', 'WrongTypeError']
                    except Exception as e:
                        out = ['err', type(e).__name__]
                    r['probes'].append([pr, out])
        ps.append(r)
    return {'params': ps,
            'mvals': [[k, G.tag(mod.propertyValues.get(k))] for k in cfgkeys if k in mod.propertyValues],
            'write': [[k, G.tag(v)] for k, v in mod.writeDict.items()],
            'names': [[str(k), v] for k, v in mod.accessiblename2attr.items()]}


def run_case(case):
    import signal
    from pathlib import Path
    from frappy.lib import generalConfig
    import frappy.modulebase as mb
    import frappy.secnode as sn
    from frappy.server import Server
    obs = {'classes': [], 'load': 'ok', 'mods': [], 'registered': [], 'started': None, 'other_errors': [],
           'describe': {}, 'sections': None, 'exc': None}
    classes = []
    for i, cd in enumerate(case['classes']):
        c = build_class(cd, i)
        classes.append(c)
        obs['classes'].append({'params': describe_class(c, cd), 'custom': cd.get('custom'),
                               'enablepoll': bool(cd['enablepoll'])})
    genmod = types.ModuleType(GENMOD)
    for i, c in enumerate(classes):
        setattr(genmod, f'C{i}', c)
    base = os.path.join(os.environ.get('TMPDIR', '/tmp'), 'verif-c10')
    os.makedirs(base, exist_ok=True)
    d = tempfile.mkdtemp(prefix='cfg', dir=base)
    old_mod = sys.modules.get(GENMOD)
    old_cfg = generalConfig._config
    old_mk, old_gv = mb.mkthread, sn.get_version
    old_sig = (signal.getsignal(signal.SIGINT), signal.getsignal(signal.SIGTERM))
    old_err = sys.stderr
    del _EVENTS[:]
    snaps = {}
    traces = {}
    try:
        sys.modules[GENMOD] = genmod
        paths = []
        for i, f in enumerate(case['files']):
            p = os.path.join(d, f'f{i}_cfg.py')
            with open(p, 'w', encoding='utf-8') as fh:
                fh.write(file_text(f))
            paths.append(p)
        generalConfig.testinit(confdir=[Path(d)], piddir=Path(d), logdir=Path(d))
        sn.get_version = lambda: 'verif'
        try:
            srv = Server('f0', _Log(), cfgfiles=paths)
        except Exception as e:
            obs['load'] = type(e).__name__
            return obs
        obs['sections'] = list(srv.module_cfg)
        probes = case.get('probes', {})

        def sync_thread(func, *args, **kwds):
            mod = func.__self__
            keys = [k for k in srv.module_cfg.get(mod.name, {}) if k in mod.propertyDict]
            snaps[mod.name] = snapshot(mod, probes.get(mod.name, {}), keys)
            start = len(_EVENTS)
            mods, cb = args

            def started():
                _EVENTS.append(['started', mod.name])
                cb()
            try:
                func(mods, started)
            except Exception as e:
                _EVENTS.append(['thread-exception', mod.name, type(e).__name__])
            traces[mod.name] = [e for e in _EVENTS[start:] if e[1] == mod.name]
            return types.SimpleNamespace(join=lambda *a: None, is_alive=lambda: False)
        mb.mkthread = sync_thread
        sys.stderr = io.StringIO()
        try:
            srv._processCfg()
            obs['started'] = True
        except SystemExit:
            obs['started'] = False
        except Exception as e:
            obs['started'] = False
            obs['exc'] = type(e).__name__
        finally:
            sys.stderr = old_err
        node = srv.secnode
        per_mod, other = parse_node_errors(node.errors)
        obs['other_errors'] = other
        obs['registered'] = list(node.modules)
        obs['error_modules'] = sorted(per_mod)
        for name in srv.module_cfg:
            if name in node.modules:
                mod = node.modules[name]
                if name not in snaps:           # no poll thread
                    keys = [k for k in srv.module_cfg.get(name, {}) if k in mod.propertyDict]
                    snaps[name] = snapshot(mod, probes.get(name, {}), keys)
                    traces[name] = []
                tr = []
                for e in traces[name]:
                    if e[0] == 'started':
                        break
                    tr.append(e)
                obs['mods'].append([name, dict(snaps[name], kind='created', trace=tr,
                                               started_seen=any(e[0] == 'started' for e in traces[name]),
                                               in_errors=name in per_mod)])
            elif name in per_mod:
                obs['mods'].append([name, {'kind': per_mod[name][0],
                                           'errs': per_mod[name][1] if per_mod[name][0] == 'rejected' else []}])
            else:
                obs['mods'].append([name, {'kind': 'missing'}])
        try:
            desc = node.get_descriptive_data('')['modules']
            obs['describe'] = json.loads(json.dumps(desc, default=str))
        except Exception as e:
            obs['describe'] = {'__exc__': type(e).__name__}
        return obs
    finally:
        sys.stderr = old_err
        mb.mkthread, sn.get_version = old_mk, old_gv
        generalConfig._config = old_cfg
        try:
            signal.signal(signal.SIGINT, old_sig[0])
            signal.signal(signal.SIGTERM, old_sig[1])
        except Exception:
            pass
        if old_mod is None:
            sys.modules.pop(GENMOD, None)
        else:
            sys.modules[GENMOD] = old_mod
        shutil.rmtree(d, ignore_errors=True)


# ------------------------------------------------------------------ encoder
def gs(s):
    return G.gal_str(G.cps(s))


def gopt(x, enc):
    return 'None' if x is None else f'(Some {enc(x)})'


def enc_expo(e):
    if e is False:
        return 'XFalse'
    if e is True:
        return 'XTrue'
    return f'(XName {gs(e)})'


def enc_param(r):
    return ('{| p_name := %s; p_iscmd := %s; p_optional := %s; p_predef := %s; p_dt := %s; p_unit := %s; '
            'p_dtdefault := %s; p_descr := %s; p_readonly := %s; p_needscfg := %s; p_export := %s; p_visibility := %s; '
            'p_group := %s; p_default := %s; p_value := %s; p_has_write := %s; p_wfunc := %s; p_polled := %s; '
            'p_uninit := false |}' % (
                gs(r['name']), gal.boolean(r['iscmd']), gal.boolean(r['optional']), gal.boolean(r['predef']),
                gopt(r['gd'], lambda x: x), gs(r['unit']), G.gal_val(r['dtdefault']), gopt(r['descr'], gs),
                gal.boolean(r['readonly']), gal.boolean(r['needscfg']), enc_expo(r['export']), gal.z(r['visibility']),
                gs(r['group']), gopt(r['default'], G.gal_val), gopt(r['value'], G.gal_val),
                gal.boolean(r['has_write']), gal.boolean(r['wfunc']), gal.boolean(r['polled'])))


def enc_class(c):
    props = '[]'
    if c['custom'] == 'mand':
        props = '[{| mp_name := %s; mp_type := MInt 0 10; mp_mandatory := true |}]' % gs('cprop')
    elif c['custom'] == 'opt':
        props = '[{| mp_name := %s; mp_type := MInt 0 10; mp_mandatory := false |}]' % gs('cprop')
    return '{| c_params := %s; c_props := %s; c_enablepoll := %s |}' % (
        gal.lst(c['params'], enc_param), props, gal.boolean(c['enablepoll']))


def enc_entry(kvs):
    return gal.lst(kvs, lambda kv: f'({gs(kv[0])}, {G.gal_val(kv[1])})')


def enc_kw(kw):
    if kw[0] == 'bare':
        return f'(KwBare {G.gal_val(kw[1])})'
    if kw[0] == 'param':
        return f'(KwParam {gopt(kw[1], G.gal_val)} {enc_entry(kw[2])})'
    return f'(KwGroup {gal.lst(kw[1], gs)})'


def enc_file(f):
    mods = gal.lst(f['mods'], lambda m: '{| mc_name := %s; mc_cls := %s; mc_descr := %s; mc_kws := %s |}' % (
        gs(m['name']), gal.nat(m['cls']), G.gal_val(m['descr']),
        gal.lst(m['kws'], lambda kv: f'({gs(kv[0])}, {enc_kw(kv[1])})')))
    return '{| f_eid := %s; f_mods := %s |}' % (gs(f['eid']), mods)


def enc_err(e):
    k = e[0]
    if k == 'unknown':
        return f'(ErrUnknown {gal.lst(e[1], gs)})'
    if k == 'noprop':
        return f'(ErrNoProp {gs(e[1])} {gs(e[2])})'
    if k == 'badvalue':
        return f'(ErrBadValue {gs(e[1])} {gs(e[2])})'
    name = {'needscfg': 'ErrNeedsCfg', 'needsdt': 'ErrNeedsDt', 'mandatory': 'ErrMandatory', 'modprop': 'ErrModProp',
            'check': 'ErrCheck'}.get(k)
    if name is None:
        return f'(ErrCheck {gs("?unclassified?")})'
    return f'({name} {gs(e[1])})'


EXC = {'RangeError': 'ERange', 'WrongTypeError': 'EWrongType', 'TypeError': 'EType', 'ValueError': 'EValue',
       'OverflowError': 'EOverflow', 'KeyError': 'EKey', 'AttributeError': 'EAttr', 'ZeroDivisionError': 'EZeroDiv'}


def enc_res(r):
    if r[0] == 'ok':
        return f'(Ok {G.gal_val(r[1])})'
    return f'(Err {EXC.get(r[1], "EOther")})'


def enc_pobs(r):
    lim = 'None' if r['limits'] is None else f'(Some ({G.gal_val(r["limits"][0])}, {G.gal_val(r["limits"][1])}))'
    return ('{| po_name := %s; po_iscmd := %s; po_value := %s; po_readonly := %s; po_visibility := %s; po_group := %s; '
            'po_descr := %s; po_export := %s; po_limits := %s; po_unit := %s; po_uninit := %s; po_probes := %s |}' % (
                gs(r['name']), gal.boolean(r['iscmd']), G.gal_val(r['value']), gal.boolean(r['readonly']),
                gal.z(r['visibility']), gs(r['group']), gs(r['descr'] if r['descr'] is not None else '?none?'),
                'None' if r['export'] is False else f'(Some {gs(r["export"])})', lim, gs(r['unit']),
                gal.boolean(r['uninit']),
                gal.lst(r['probes'], lambda pr: f'({G.gal_val(pr[0])}, {enc_res(pr[1])})')))


def enc_ev(e):
    if e[0] == 'write':
        return f'(EvWrite {gs(e[2])} {G.gal_val(e[3])})'
    if e[0] == 'initialReads':
        return 'EvInit'
    if e[0] == 'read':
        return f'(EvRead {gs(e[2])})'
    return f'(EvRead {gs("?" + e[0])})'


def enc_mobs(m):
    if m['kind'] == 'created':
        return '(OCreated %s %s %s %s %s)' % (
            gal.lst(m['params'], enc_pobs), enc_entry(m['mvals']), enc_entry(m['write']),
            gal.lst(m['names'], lambda p: f'({gs(p[0])}, {gs(p[1])})'), gal.lst(m['trace'], enc_ev))
    if m['kind'] == 'rejected':
        return f'(ORejected {gal.lst(m["errs"], enc_err)})'
    if m['kind'] == 'crashed':
        return 'OCrashed'
    return f'(ORejected [ErrCheck {gs("?missing?")}])'


def encode(case, obs):
    if obs['load'] != 'ok':
        o = 'OLoadFailed'
    else:
        o = '(OLoaded %s %s %s)' % (gal.lst(obs['mods'], lambda nm: f'({gs(nm[0])}, {enc_mobs(nm[1])})'),
                                     gal.lst(obs['registered'], gs),
                                     gal.boolean(bool(obs['started']) and not obs['exc'] and not obs['other_errors']))
    return '{| c_classes := %s; c_files := %s; c_obs := %s |}' % (
        gal.lst(obs['classes'], enc_class), gal.lst(case['files'], enc_file), o)


def model_result_term(case, obs):
    return f'model_result ({encode(case, obs)})'


# ------------------------------------------------------------------ generators
F = G.enc_float
UNL = 1 << 64


def _fl(a, b):
    return {'t': 'float', 'min': F(float(a)), 'max': F(float(b))}


DT_POOL = [
    _fl(0, 10), _fl(-5, 5), _fl(-FMAX, FMAX), _fl(1, 100),
    {'t': 'int', 'min': 0, 'max': 10}, {'t': 'int', 'min': -100, 'max': 100},
    {'t': 'scaled', 'scale': F(0.1), 'min': F(0.0), 'max': F(10.0)},
    {'t': 'scaled', 'scale': F(0.5), 'min': F(-10.0), 'max': F(10.0)},
    {'t': 'bool'},
    {'t': 'enum', 'members': [['off', 0], ['on', 1], ['auto', 5]]},
    {'t': 'string', 'min': 0, 'max': 10, 'utf8': False},
    {'t': 'string', 'min': 0, 'max': UNL, 'utf8': True},
    {'t': 'array', 'elem': {'t': 'int', 'min': 0, 'max': 10}, 'min': 0, 'max': 3},
    {'t': 'array', 'elem': _fl(0, 10), 'min': 0, 'max': 3},
    {'t': 'struct', 'members': [['a', {'t': 'int', 'min': 0, 'max': 10}], ['b', _fl(0, 10)]], 'optional': [],
     'client': False},
]
MAIN_DTS = [_fl(0, 10), _fl(-FMAX, FMAX), {'t': 'scaled', 'scale': F(0.1), 'min': F(0.0), 'max': F(10.0)},
            {'t': 'int', 'min': 0, 'max': 10}, {'t': 'array', 'elem': _fl(0, 10), 'min': 0, 'max': 3}]
UNITS = ['', '', 'K', '$', '$/s', 'mm', 'm$']


def numeric_leaf(d):
    lf = leaf_of(d)
    return lf if lf['t'] in ('float', 'int', 'scaled') else None


def leaf_bounds(lf):
    if lf['t'] == 'int':
        return lf['min'], lf['max']
    return G.dec_float(lf['min']), G.dec_float(lf['max'])


def gen_valid(rng, d):
    """a clearly valid configuration value (python object) for d"""
    t = d['t']
    if t == 'float':
        a, b = leaf_bounds(d)
        if a == -FMAX:
            return rng.choice([0, 1.5, -3, 1e10, 7])
        return rng.choice([a, b, (a + b) / 2, int(a) + 1, a + 0.25])
    if t == 'int':
        return rng.choice([d['min'], d['max'], (d['min'] + d['max']) // 2, float(d['min'] + 1)])
    if t == 'scaled':
        s = G.dec_float(d['scale'])
        a, b = leaf_bounds(d)
        k = rng.randint(round(a / s), round(b / s))
        return rng.choice([k * s, a, b])
    if t == 'bool':
        return rng.choice([True, False, 0, 1])
    if t == 'enum':
        n, v = rng.choice(d['members'])
        return rng.choice([n, v])
    if t == 'string':
        n = rng.randint(d['min'], min(d['max'], 6))
        return ''.join(rng.choice('abcXY 09' + ('é' if d['utf8'] else '')) for _ in range(n))
    if t == 'array':
        n = rng.randint(d['min'], d['max'])
        l = [gen_valid(rng, d['elem']) for _ in range(n)]
        return rng.choice([l, tuple(l)])
    return {n: gen_valid(rng, x) for n, x in d['members']}


def gen_outside(rng, d):
    """right kind, outside the limits (None if the type has no limits)"""
    lf = numeric_leaf(d)
    t = d['t']
    if t == 'string' and d['max'] < 100:
        return 'x' * (d['max'] + 2)
    if t == 'enum':
        return rng.choice([77, 'nomember'])
    if lf is None:
        return None
    a, b = leaf_bounds(lf)
    if a == -FMAX:
        return None
    v = rng.choice([b + 5, a - 5, b + 1, a - 1])
    if lf['t'] == 'int':
        v = int(v)
    return [v] if t == 'array' else v


def gen_wrong(rng, d):
    t = d['t']
    if t in ('float', 'int', 'scaled'):
        return rng.choice(['abc', None, [1], {'a': 1}, '5'])
    if t == 'bool':
        return rng.choice(['yes', 2, None, [True]])
    if t == 'enum':
        return rng.choice([None, [1], 1.5])
    if t == 'string':
        return rng.choice([5, None, ['a'], 1.5])
    if t == 'array':
        return rng.choice([5, None, ['x'], 1.5])
    return rng.choice([5, None, 'ab', {'a': 1}, {'a': 1, 'b': 2, 'c': 3}, {'a': 'x', 'b': 1}])


def gen_class(rng):
    names = []
    if rng.random() < 0.7:
        names.append('value')
    names += rng.sample(['target', 'p1', 'p2', 'p3'], rng.randint(1, 3))
    params = []
    for n in names:
        d = rng.choice(MAIN_DTS) if n == 'value' else rng.choice(DT_POOL)
        lf = leaf_of(d)
        p = {'name': n, 'kind': 'param', 'dt': d, 'unit': '', 'descr': f'the {n}', 'readonly': rng.random() < 0.5}
        if lf['t'] in ('float', 'scaled'):
            p['unit'] = rng.choice(['K', 'mm', '', 'V']) if n == 'value' else rng.choice(UNITS)
        r = rng.random()
        if r < 0.08:
            p['descr'] = None
        if rng.random() < 0.12:
            p['needscfg'] = True
        r = rng.random()
        if r < 0.08:
            p['export'] = False
        elif r < 0.2:
            p['export'] = rng.choice(['_x' + n, 'alias_' + n])
        if rng.random() < 0.2:
            p['visibility'] = rng.choice([2, 3])
        if rng.random() < 0.2:
            p['group'] = 'g1'
        if rng.random() < 0.5:
            p['default'] = G.tag(gen_valid(rng, d))
        if rng.random() < 0.15:
            p['value'] = G.tag(gen_valid(rng, d))
        p['has_write'] = rng.random() < 0.5
        p['has_read'] = rng.random() < 0.5
        if rng.random() < 0.04:
            p['dt'] = None                      # a parameter without datatype
            p['unit'] = ''
            p.pop('default', None)
            p.pop('value', None)
        params.append(p)
    if rng.random() < 0.4:
        params.append({'name': rng.choice(['cmd', 'stop']), 'kind': 'cmd', 'descr': 'a command'})
    if rng.random() < 0.2:
        params.append({'name': 'opt1', 'kind': 'param', 'dt': _fl(0, 10), 'unit': '', 'descr': 'optional one',
                       'optional': True, 'readonly': True})
    r = rng.random()
    return {'params': params, 'custom': 'mand' if r < 0.15 else 'opt' if r < 0.3 else None,
            'enablepoll': rng.random() < 0.85}


def gen_props(rng, p, n):
    """n valid parameter property overrides"""
    d = p.get('dt')
    lf = numeric_leaf(d) if d else None
    cands = ['visibility', 'export', 'readonly', 'group', 'description', 'needscfg']
    if d:
        cands.append('default')
    if lf is not None:
        cands += ['min', 'max', 'min', 'max']
        if lf['t'] in ('float', 'scaled'):
            cands += ['unit', 'unit']
    out = []
    for k in rng.sample(cands, min(n, len(cands))):
        if k in [x[0] for x in out]:
            continue
        if k == 'visibility':
            v = rng.choice([1, 2, 3, 'expert', 'advanced', 'user'])
        elif k == 'export':
            v = rng.choice([False, True, '_alias', 'alias2', 0, 1])
        elif k == 'readonly':
            v = rng.choice([True, False, 0, 1])
        elif k == 'group':
            v = rng.choice(['grp', ''])
        elif k == 'description':
            v = 'configured description'
        elif k == 'needscfg':
            v = rng.choice([True, False])
        elif k == 'default':
            v = gen_valid(rng, d)
        elif k == 'unit':
            v = rng.choice(['mK', 'A', '$/min', ''])
        else:
            a, b = leaf_bounds(lf)
            if a == -FMAX:
                a, b = 0.0, 10.0
            v = rng.choice([a + 1, a + 2, a - 1]) if k == 'min' else rng.choice([b - 1, b - 2, b + 10])
            if lf['t'] == 'int':
                v = int(v)
            elif rng.random() < 0.5:
                v = float(v)
        out.append([k, G.tag(v)])
    return out


def gen_bad_prop(rng, p):
    """one erroneous parameter property"""
    d = p.get('dt')
    lf = numeric_leaf(d) if d else None
    r = rng.random()
    if r < 0.3:
        return [[rng.choice(['foo', 'maxx', 'limit']), G.tag(1)]]
    if r < 0.6:
        k, v = rng.choice([('visibility', 7), ('visibility', 'nobody'), ('readonly', 'x'), ('export', [1]),
                           ('group', 5), ('description', 5), ('needscfg', 'maybe')])
        return [[k, G.tag(v)]]
    if lf is not None:
        a, b = leaf_bounds(lf)
        if a == -FMAX:
            a, b = 0.0, 10.0
        if r < 0.85:
            lo, hi = (int(b) + 3, int(a) - 3) if lf['t'] == 'int' else (b + 3, a - 3)
            if rng.random() < 0.5:
                return [['min', G.tag(lo)], ['max', G.tag(hi)]]
            return [['max', G.tag(hi if hi < a else a - 1)]] if rng.random() < 0.5 else [['min', G.tag(lo)]]
        return [[rng.choice(['min', 'max', 'unit'] if lf['t'] != 'int' else ['min', 'max']), G.tag(rng.choice(['x', None, [1]]))]]
    return [[rng.choice(['min', 'max', 'unit']), G.tag(1)]]


def gen_module(rng, name, ci, cd):
    kws = []
    for p in cd['params']:
        n = p['name']
        r = rng.random()
        if p['kind'] == 'cmd':
            if r < 0.75:
                continue
            k, v = rng.choice([('description', 'cfg cmd'), ('group', 'grp'), ('visibility', 2), ('export', False),
                               ('export', '_go'), ('foo', 1), ('visibility', 7), ('visibility', [1]), ('group', 5)])
            kws.append([n, ['param', None, [[k, G.tag(v)]]]])
            continue
        if p.get('optional'):
            if r < 0.1:
                kws.append([n, ['bare', G.tag(1.0)]])
            continue
        d = p.get('dt')
        need = p.get('needscfg') or p.get('descr') is None
        if r < (0.2 if need else 0.45):
            continue
        if d is None:
            kws.append([n, rng.choice([['bare', G.tag(5)], ['param', None, [['min', G.tag(1)]]],
                                       ['param', None, [['description', G.tag('x')]]]])])
            continue
        r = rng.random()
        vr = rng.random()
        if vr < 0.7:
            val = gen_valid(rng, d)
        elif vr < 0.85:
            val = gen_outside(rng, d)
            if val is None:
                val = gen_valid(rng, d)
        else:
            val = gen_wrong(rng, d)
        if r < 0.35:
            kws.append([n, ['bare', G.tag(val)]])
            continue
        props = gen_props(rng, p, rng.randint(0, 3))
        if p.get('descr') is None and rng.random() < 0.7 and 'description' not in [k for k, _ in props]:
            props.append(['description', G.tag('given in cfg')])
        if rng.random() < 0.15:
            bad = gen_bad_prop(rng, p)
            props = [kv for kv in props if kv[0] not in [b[0] for b in bad]]
            pos = rng.randint(0, len(props))
            props[pos:pos] = bad
        kws.append([n, ['param', G.tag(val) if rng.random() < 0.6 else None, props]])
    # module properties
    for k, choices in (('visibility', [2, 'expert', 3, 7, 'x']), ('group', ['mgrp', 'mgrp', 5]),
                       ('export', [False, True, 'no']), ('pollinterval', [1.0, 2, 0.05, 'x', 120]),
                       ('slowinterval', [10, 500.0]), ('cprop', [5, 0, 50, 'x', 2.0])):
        p = 0.45 if (k == 'cprop' and cd.get('custom') == 'mand') else 0.12
        if k == 'cprop' and not cd.get('custom'):
            p = 0.03
        if rng.random() < p:
            v = rng.choice(choices)
            if rng.random() < 0.15:
                kws.append([k, ['param', None, [['default', G.tag(v)]]]])      # a Param without value
            else:
                kws.append([k, rng.choice([['bare', G.tag(v)], ['param', G.tag(v), []]])])
    if rng.random() < 0.08:
        kws.append([rng.choice(['zz', 'foo_bar', 'p9']), ['bare', G.tag(1)]])
    if rng.random() < 0.04:
        kws.append(['yy', ['param', None, [['min', G.tag(0)]]]])
    rng.shuffle(kws)
    pkeys = [k for k, kw in kws if kw[0] != 'group']
    if pkeys and rng.random() < 0.12:
        members = rng.sample(pkeys, min(len(pkeys), rng.randint(1, 2)))
        if rng.random() < 0.1:
            members.append('nokey')
        kws.insert(rng.randint(0, len(kws)), ['cfggroup', ['group', members]])
    descr = rng.choice(['a module', 'a module', 'a module', 'another\nmodule', 5, 'café'])
    return {'name': name, 'cls': ci, 'descr': G.tag(descr), 'kws': kws}


def gen_probes(rng, case):
    probes = {}
    for f in case['files']:
        for m in f['mods']:
            cd = case['classes'][m['cls']]
            cfg = dict((k, kw) for k, kw in m['kws'])
            pm = probes.setdefault(m['name'], {})
            for p in cd['params']:
                if p['kind'] != 'param' or p.get('optional') or not p.get('dt'):
                    continue
                d = p['dt']
                lf = numeric_leaf(d)
                vals = []
                if lf is not None:
                    a, b = leaf_bounds(lf)
                    if a == -FMAX:
                        a, b = 0.0, 10.0
                    pts = {a, b, a - 1, b + 1, (a + b) / 2, a + 1, b - 1, a + 2, b - 2, b + 10, a - 3}
                    kw = cfg.get(p['name'])
                    if kw and kw[0] == 'param':
                        for k, v in kw[2]:
                            if k in ('min', 'max') and v[0] in ('int', 'float'):
                                x = G.untag(v)
                                if x == x and abs(x) < 1e300:
                                    pts |= {x, x - 1, x + 1, x + 0.5}
                    for x in rng.sample(sorted(pts), 4):
                        if lf['t'] == 'int':
                            x = int(x) if rng.random() < 0.8 else float(int(x))
                        vals.append([x] if d['t'] == 'array' else x)
                else:
                    vals.append(gen_valid(rng, d))
                    o = gen_outside(rng, d)
                    if o is not None:
                        vals.append(o)
                vals.append(gen_wrong(rng, d))
                pm.setdefault(p['name'], [G.tag(v) for v in vals])
    return probes


def gen_case(rng):
    classes = [gen_class(rng) for _ in range(rng.choice([1, 1, 2]))]
    nfiles = rng.choice([1, 1, 1, 2, 2, 3])
    files = []
    pool = ['m1', 'm2', 'm3', 'Mod_4']
    for i in range(nfiles):
        mods = []
        for name in rng.sample(pool, rng.randint(1, 3 if nfiles == 1 else 2)):
            ci = rng.randrange(len(classes))
            mods.append(gen_module(rng, name, ci, classes[ci]))
        if rng.random() < 0.05:
            ci = rng.randrange(len(classes))
            mods.append(gen_module(rng, mods[0]['name'], ci, classes[ci]))      # duplicate section in one file
        if rng.random() < 0.03:
            mods[rng.randrange(len(mods))]['name'] = rng.choice(['1abc', 'a-b', 'x' * 64, 'mé', '_m'])
        files.append({'eid': f'eq{i + 1}', 'mods': mods})
    case = {'classes': classes, 'files': files}
    case['probes'] = gen_probes(rng, case)
    return case


def gen_cases(seed, tier):
    rng = random.Random(seed * 7919 + 10)
    n = {'quick': 2600, 'thorough': 30000, 'search': 12000}.get(tier, 2600)
    return [gen_case(rng) for _ in range(n)]
