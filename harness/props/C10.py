"""C10 - configuration applied faithfully / erroneous configuration rejected whole:
implementation driver (real load_config + Server._processCfg + poll thread start-up), encoder, direct oracle, generators

A case: generated module classes (descriptors), generated config files (Node/Mod/Param/Group source text written to a
scratch directory) and probe values.  The driver builds the classes with type(), registers them in a fake python module,
lets the real Server load the files and process the configuration (mkthread patched so that the poll thread body runs
synchronously and stops after the first doPoll), and records what happened."""
import io
import json
import math
import os
import random
import re
import shutil
import sys
import tempfile
import types

from harness import gal
from harness import dtgen as G

ID = 'C10'
COQ_DIRS = ['C01']
MODEL_TARGETS = ['theories/C10/Run.vo']
PROOF_TARGETS = ['theories/C10/Properties.vo']
PROPERTIES_V = 'theories/C10/Properties.v'
IMPORTS = 'Require Import FV.Base.F64 FV.Base.PyVal FV.C01.Model FV.Gen.C10 FV.C10.Model FV.C10.Run.'
CASE_TYPE = 'case'
CHECK = 'check_case'
SHARD_SIZE = 70
RULE = ('1..2 generated module classes (2..6 accessibles out of value/target/p1..p3/opt1/cmd with datatypes float, int, '
        'scaled, bool, enum, string, blob, array of int/float/string, struct; class-level default/value/needscfg/readonly/export/'
        'visibility/group/missing description; a quarter of the classes apply their main unit only in startModule (deferred '
        'main unit pattern; the description after start-up must show the substituted units); read/write driver methods, a write method may take over the pending start '
        'values of other parameters (pops them from self.writeDict and calls their write methods, like '
        'frappy.rwhandler.CommonWriteHandler); optional custom mandatory module property) x '
        '1..3 config files with 1..3 Mod() sections each (overlapping names -> merging) x per accessible one of: not '
        'configured, bare value, Param(value, props), Param(props) with props out of min/max/unit/visibility/export/'
        'readonly/group/description/needscfg/default/constant, Group(); every sixth case (and 40 % of the string/blob/array '
        'parameters elsewhere): Param(value, <override>, ...) where the overridden datatype property decides whether the '
        'value is legal - string minchars/maxchars/isUTF8, blob minbytes/maxbytes, array minlen/maxlen (+ keys forwarded '
        'to the element type), float/int/scaled min/max; length of the value and overridden length drawn around each other '
        'and around the class-level bounds, the ORDER of the keywords of a Param is the order of the list in the case '
        '(config.Param appends `value` last; the observed key order of every Param dict is compared with the model; a '
        'configured default stands before or after the overrides that decide about it); '
        'values valid, at the limits, outside the limits, of the '
        'wrong type; error injections (unknown name, unknown parameter property, ill-typed property, inverted limits, '
        'missing required value, invalid module name, unknown group member), several at once; non-trivial = at least one '
        'accessible or module property configured; distinct = distinct (classes, files)')
ASSUMPTIONS = [
    'datatypes of generated parameters are restricted to float, int, scaled, bool, enum, string, array of int/float and '
    'struct of int/float members, blob, array of string; configured datatype properties are min, max, unit, minchars, '
    'maxchars, isUTF8, minbytes, maxbytes, minlen, maxlen (fmtstr, absolute_resolution, relative_resolution, scale are '
    'never configured); arrays are nested one level',
    'the class-level description of every accessible (datatype, default, value, export name, ...) is read from the real '
    'class object after class creation and given to the model as input: class creation/inheritance itself is C09',
    'datatype.default of the class-level datatype is supplied as data',
    'two accessibles configured with the same export name (rejected by the code as configuration error, modelled) are '
    'not judged by the direct oracle',
    'Limit parameters, `datatype`, `update_unchanged`, `influences` in the configuration, io/attached modules '
    'and Pinata modules are not generated; a configured `constant` is generated and modelled (Parameter.finish: converted, '
    'exported, readonly), class-level constants only for datatypes other than blob / scaled',
    'the poll thread body is run synchronously (frappy.modulebase.mkthread patched) up to the start callback; the '
    'scheduling of the real thread is C13/C15',
    'error messages are only classified by their fixed prefix/shape (kind, item), never compared',
    'driver write methods are generated: they log the call (= the value is handed to the method) and then run their '
    'take-over script `for q in takes: if q in self.writeDict: self.write_q(self.writeDict.pop(q))`; the script is given '
    'to the model as data (p_takes); other ways a driver could touch writeDict are not generated',
]

GENMOD = 'frappy_c10gen'
PARAM_PROPS = ['description', 'datatype', 'readonly', 'group', 'visibility', 'constant', 'default', 'value', 'export',
               'needscfg', 'update_unchanged', 'influences']
MODULE_PROPS = ['export', 'group', 'description', 'meaning', 'visibility', 'implementation', 'interface_classes',
                'features', 'pollinterval', 'slowinterval', 'omit_unchanged_within', 'original_id']
FMAX = sys.float_info.max


# ------------------------------------------------------------------ python literals for config files
def pylit(t):
    k = t[0]
    if k == 'none':
        return 'None'
    if k == 'bool':
        return 'True' if t[1] else 'False'
    if k == 'int':
        return str(int(t[1]))
    if k == 'float':
        x = G.dec_float(t[1])
        if x != x:
            return "float('nan')"
        if x in (math.inf, -math.inf):
            return "float('%sinf')" % ('-' if x < 0 else '')
        return repr(x)
    if k == 'str':
        return repr(G.from_cps(t[1]))
    if k == 'bytes':
        return repr(bytes(t[1]))
    if k == 'list':
        return '[' + ', '.join(pylit(x) for x in t[1]) + ']'
    if k == 'tuple':
        return '(' + ''.join(pylit(x) + ', ' for x in t[1]) + ')'
    if k == 'dict':
        return '{' + ', '.join(f'{G.from_cps(kk)!r}: {pylit(x)}' for kk, x in t[1]) + '}'
    if k == 'opaque':
        return 'object()'
    raise ValueError(t)


def file_text(f):
    lines = [f"Node({f['eid']!r}, 'generated node', 'tcp://10767')"]
    for m in f['mods']:
        args = [repr(m['name']), repr(f"{GENMOD}.C{m['cls']}"), pylit(m['descr'])]
        for key, kw in m['kws']:
            if kw[0] == 'bare':
                args.append(f'{key}={pylit(kw[1])}')
            elif kw[0] == 'param':
                inner = ([pylit(kw[1])] if kw[1] is not None else []) + [f'{k}={pylit(v)}' for k, v in kw[2]]
                args.append(f"{key}=Param({', '.join(inner)})")
            else:
                args.append(f"{key}=Group({', '.join(repr(x) for x in kw[1])})")
        lines.append(f"Mod({', '.join(args)})")
    return '\n'.join(lines) + '\n'


# ------------------------------------------------------------------ building the classes
def leaf_of(d):
    return d['elem'] if d['t'] == 'array' else d


def build_dt(d, unit):
    from frappy import datatypes as dt
    t = d['t']
    kw = {'unit': unit} if unit else {}
    if t == 'float':
        return dt.FloatRange(G.dec_float(d['min']), G.dec_float(d['max']), **kw)
    if t == 'scaled':
        return dt.ScaledInteger(G.dec_float(d['scale']), G.dec_float(d['min']), G.dec_float(d['max']), **kw)
    if t == 'array':
        return dt.ArrayOf(build_dt(d['elem'], unit), d['min'], d['max'])
    return G.build(d)


class _Log:
    handlers = []

    def __init__(self):
        self.parent = self

    def getChild(self, *a, **k):
        return self

    def addHandler(self, *a):
        pass

    def __getattr__(self, name):
        return lambda *a, **k: None


_EVENTS = []
_TAKEN = []      # [module, writer, taken-over parameter]: nested writes made by take-over scripts (not part of the trace)


def build_class(cd, idx):
    from frappy.modulebase import Module
    from frappy.params import Parameter, Command
    from frappy.properties import Property
    from frappy.datatypes import IntRange
    ns = {'__module__': GENMOD, 'enablePoll': bool(cd['enablepoll'])}
    for p in cd['params']:
        n = p['name']
        kw = {}
        for k in ('readonly', 'needscfg', 'export', 'visibility', 'group'):
            if p.get(k) is not None:
                kw[k] = p[k]
        if p.get('optional'):
            kw['optional'] = True
        if p['kind'] == 'cmd':
            def func(self, _n=n):
                _EVENTS.append(['cmd', self.name, _n])
            func.__name__ = n
            func.__doc__ = None
            kw.pop('readonly', None)
            kw.pop('needscfg', None)
            if p.get('descr') is not None:
                kw['description'] = p['descr']
            ns[n] = Command(None, result=None, **kw)(func)
            continue
        if p.get('default') is not None:
            kw['default'] = G.untag(p['default'])
        if p.get('value') is not None:
            kw['value'] = G.untag(p['value'])
        if p.get('constant') is not None and p.get('dt'):
            kw['constant'] = G.untag(p['constant'])
        dtobj = build_dt(p['dt'], p.get('unit', '')) if p.get('dt') else None
        ns[n] = Parameter(p.get('descr'), dtobj, **kw)
        if p.get('optional'):
            continue
        if p.get('has_write'):
            def wf(self, value, _n=n, _takes=tuple(p.get('takes') or ())):
                _EVENTS.append(['write', self.name, _n, G.tag(value)])
                # take over pending start values of other parameters (what CommonWriteHandler / drivers needing a
                # certain order do): the entry is removed from writeDict, so nobody else must write it again
                for q in _takes:
                    if q in self.writeDict:
                        _TAKEN.append([self.name, _n, q])
                        getattr(self, 'write_' + q)(self.writeDict.pop(q))
                return value
            ns['write_' + n] = wf
        if p.get('has_read'):
            def rf(self, _n=n):
                _EVENTS.append(['read', self.name, _n])
                return getattr(self, _n)
            ns['read_' + n] = rf
    if cd.get('custom') == 'mand':
        ns['cprop'] = Property('custom mandatory property', IntRange(0, 10))
    elif cd.get('custom') == 'opt':
        ns['cprop'] = Property('custom property', IntRange(0, 10), default=3)

    def doPoll(self):
        _EVENTS.append(['doPoll', self.name])
        self.polledModules.clear()          # what stopPollThread does: ends the poll loop

    def initialReads(self):
        _EVENTS.append(['initialReads', self.name])
    ns['doPoll'] = doPoll
    ns['initialReads'] = initialReads
    if cd.get('deferred_unit'):
        # the "deferred main unit" pattern (frappy_mlz.entangle, test_modules.test_deferred_main_unit): the main unit is
        # only known when the hardware is contacted - applyMainUnit is postponed to startModule.  Server._processCfg
        # describes the node BEFORE startModule; a describe reply after start-up must still show the substituted units
        def applyMainUnit(self, mainunit):
            self._c10_mainunit = mainunit

        def startModule(self, start_events):
            mu = getattr(self, '_c10_mainunit', None)
            if mu:
                Module.applyMainUnit(self, mu)
            Module.startModule(self, start_events)
        ns['applyMainUnit'] = applyMainUnit
        ns['startModule'] = startModule
    return type(f'C{idx}', (Module,), ns)


def describe_class(cls, cd):
    """the class-level accessibles as the model takes them, read from the real class"""
    from frappy.params import Parameter, PREDEFINED_ACCESSIBLES
    res = []
    byname = {p['name']: p for p in cd['params']}
    for n, a in cls.accessibles.items():
        p = byname[n]
        iscmd = not isinstance(a, Parameter)
        pv = a.propertyValues
        r = {'name': n, 'iscmd': iscmd, 'optional': bool(a.optional),
             'predef': PREDEFINED_ACCESSIBLES.get(n) is not None and isinstance(a, PREDEFINED_ACCESSIBLES[n]),
             'descr': pv.get('description'), 'export': a.export, 'visibility': int(a.visibility), 'group': a.group,
             'gd': None, 'unit': '', 'dtdefault': ['none'], 'readonly': False, 'needscfg': False, 'default': None,
             'value': None, 'has_write': False, 'wfunc': False, 'polled': False, 'takes': [], 'constant': None}
        if not iscmd:
            r['readonly'] = bool(a.readonly)
            r['needscfg'] = bool(a.needscfg)
            if 'default' in pv:
                r['default'] = G.tag(pv['default'])
            if 'value' in pv:
                r['value'] = G.tag(pv['value'])
            if pv.get('constant') is not None:
                r['constant'] = G.tag(pv['constant'])       # the exported form Parameter.finish stored at class creation
            if a.hasDatatype():
                cp = a.copy()
                r['gd'] = G.gal_dtype(p['dt'], cp.datatype)
                lf = cp.datatype.members if p['dt']['t'] == 'array' else cp.datatype
                r['unit'] = getattr(lf, 'unit', '') if leaf_of(p['dt'])['t'] in ('float', 'scaled') else ''
                r['dtdefault'] = G.tag(cp.datatype.default)
            if not a.optional:
                r['has_write'] = hasattr(cls, 'write_' + n) or ('write_' + n) in cls.wrappedAttributes
                r['wfunc'] = hasattr(cls, 'write_' + n)
                if r['wfunc'] and p.get('has_write'):
                    r['takes'] = [str(q) for q in (p.get('takes') or [])]
                rf = cls.wrappedAttributes.get('read_' + n)
                r['polled'] = bool(rf is not None and getattr(rf, 'poll', False))
        res.append(r)
    return res


# ------------------------------------------------------------------ running the real node
ERR_PATTERNS = [
    ('unknown', re.compile(r'^(.*) does not exist \(use one of ')),
    ('noprop', re.compile(r"^'(\w+)' has no property '(\w+)'$")),
    ('needscfg', re.compile(r"^'(\w+)' has no default value and was not given in config!$")),
    ('needsdt', re.compile(r'^(\w+) needs a datatype$')),
    ('badvalue', re.compile(r'^(\w+)\.(\w+): ')),
    ('mandatory', re.compile(r'^(?:ConfigError: )?(\w+) needs a value of type ')),
    ('modprop', re.compile(r'^(\w+): value .* does not match .*!$', re.S)),
    ('dupexport', re.compile(r'^(\w+): export name .* is already used by ')),
    ('check', re.compile(r'^(\w+): ')),
]


def classify_error(line):
    for kind, rx in ERR_PATTERNS:
        m = rx.match(line)
        if m:
            if kind == 'unknown':
                return [kind, m.group(1).split(', ')]
            return [kind] + list(m.groups())
    return ['other', line[:80]]


def parse_node_errors(errors):
    """SecNode.errors -> {modname: ['rejected', [err..]] | ['crashed']} + unattributed lines"""
    res = {}
    other = []
    cur = None
    for e in errors:
        m = re.match(r'^error creating module (\w+):$', e)
        if m:
            cur = m.group(1)
            res[cur] = ['rejected', []]
            continue
        m = re.match(r'^error creating (\w+)$', e)
        if m:
            res[m.group(1)] = ['crashed']
            cur = None
            continue
        if e.startswith('  ') and cur is not None:
            res[cur][1].append(classify_error(e[2:]))
            continue
        cur = None
        other.append(e[:120])
    return res, other


def dt_shape(dt):
    """the properties of a datatype that decide which values datatype(value) accepts (Run.v dt_shape)"""
    from frappy.datatypes import ArrayOf, BLOBType, StringType
    if isinstance(dt, ArrayOf):
        return [int(dt.minlen), int(dt.maxlen)] + dt_shape(dt.members)
    if isinstance(dt, StringType):
        return [int(dt.minchars), int(dt.maxchars), 1 if dt.isUTF8 else 0]
    if isinstance(dt, BLOBType):
        return [int(dt.minbytes), int(dt.maxbytes)]
    return []


def snapshot(mod, probes, cfgkeys):
    from frappy.params import Parameter
    from frappy.datatypes import ArrayOf, FloatRange, IntRange, ScaledInteger
    from frappy.errors import ConfigError, RangeError, WrongTypeError
    ps = []
    for n, a in mod.accessibles.items():
        iscmd = not isinstance(a, Parameter)
        r = {'name': n, 'iscmd': iscmd, 'descr': a.propertyValues.get('description'), 'visibility': int(a.visibility),
             'group': a.group, 'export': a.export if a.export is False else str(a.export), 'value': ['none'],
             'readonly': False, 'limits': None, 'unit': '', 'uninit': False, 'probes': [], 'shape': [],
             'readerror': None, 'constant': ['none']}
        if not iscmd:
            r['value'] = G.tag(a.value)
            r['constant'] = G.tag(a.constant)
            r['readonly'] = bool(a.readonly)
            r['uninit'] = isinstance(a.readerror, ConfigError)
            r['readerror'] = None if a.readerror is None else type(a.readerror).__name__
            if a.hasDatatype():
                dt = a.datatype
                r['shape'] = dt_shape(dt)
                lf = dt.members if isinstance(dt, ArrayOf) else dt
                if isinstance(lf, (FloatRange, IntRange, ScaledInteger)):
                    r['limits'] = [G.tag(lf.min), G.tag(lf.max)]
                if isinstance(lf, (FloatRange, ScaledInteger)):
                    r['unit'] = lf.unit
                for pr in probes.get(n, []):
                    try:
                        out = ['ok', G.tag(dt.validate(G.untag(pr)))]
                    except RangeError:
                        out = ['err', 'RangeError']
                    except WrongTypeError:
                        out = ['err', 'WrongTypeError']
                    except Exception as e:
                        out = ['err', type(e).__name__]
                    r['probes'].append([pr, out])
        ps.append(r)
    return {'params': ps,
            'mvals': [[k, G.tag(mod.propertyValues.get(k))] for k in cfgkeys if k in mod.propertyValues],
            'write': [[k, G.tag(v)] for k, v in mod.writeDict.items()],
            'names': [[str(k), v] for k, v in mod.accessiblename2attr.items()]}


def run_case(case):
    import signal
    from pathlib import Path
    from frappy.lib import generalConfig
    import frappy.modulebase as mb
    import frappy.secnode as sn
    from frappy.server import Server
    obs = {'classes': [], 'load': 'ok', 'mods': [], 'registered': [], 'started': None, 'other_errors': [],
           'describe': {}, 'sections': None, 'exc': None, 'orders': []}
    classes = []
    for i, cd in enumerate(case['classes']):
        c = build_class(cd, i)
        classes.append(c)
        obs['classes'].append({'params': describe_class(c, cd), 'custom': cd.get('custom'),
                               'enablepoll': bool(cd['enablepoll'])})
    genmod = types.ModuleType(GENMOD)
    for i, c in enumerate(classes):
        setattr(genmod, f'C{i}', c)
    base = os.path.join(os.environ.get('TMPDIR', '/tmp'), 'verif-c10')
    os.makedirs(base, exist_ok=True)
    d = tempfile.mkdtemp(prefix='cfg', dir=base)
    old_mod = sys.modules.get(GENMOD)
    old_cfg = generalConfig._config
    old_mk, old_gv = mb.mkthread, sn.get_version
    old_sig = (signal.getsignal(signal.SIGINT), signal.getsignal(signal.SIGTERM))
    old_err = sys.stderr
    del _EVENTS[:]
    del _TAKEN[:]
    snaps = {}
    traces = {}
    try:
        sys.modules[GENMOD] = genmod
        paths = []
        for i, f in enumerate(case['files']):
            p = os.path.join(d, f'f{i}_cfg.py')
            with open(p, 'w', encoding='utf-8') as fh:
                fh.write(file_text(f))
            paths.append(p)
        generalConfig.testinit(confdir=[Path(d)], piddir=Path(d), logdir=Path(d))
        sn.get_version = lambda: 'verif'
        try:
            srv = Server('f0', _Log(), cfgfiles=paths)
        except Exception as e:
            obs['load'] = type(e).__name__
            return obs
        obs['sections'] = list(srv.module_cfg)
        # the key order of every Param dict as Module._add_accessible will walk it
        obs['orders'] = [[str(mn), [[str(k), [str(x) for x in v]] for k, v in sec.items() if isinstance(v, dict)]]
                         for mn, sec in srv.module_cfg.items()]
        probes = case.get('probes', {})

        def sync_thread(func, *args, **kwds):
            mod = func.__self__
            keys = [k for k in srv.module_cfg.get(mod.name, {}) if k in mod.propertyDict]
            snaps[mod.name] = snapshot(mod, probes.get(mod.name, {}), keys)
            start = len(_EVENTS)
            mods, cb = args

            def started():
                _EVENTS.append(['started', mod.name])
                cb()
            try:
                func(mods, started)
            except Exception as e:
                _EVENTS.append(['thread-exception', mod.name, type(e).__name__])
            traces[mod.name] = [e for e in _EVENTS[start:] if e[1] == mod.name]
            return types.SimpleNamespace(join=lambda *a: None, is_alive=lambda: False)
        mb.mkthread = sync_thread
        sys.stderr = io.StringIO()
        try:
            srv._processCfg()
            obs['started'] = True
        except SystemExit:
            obs['started'] = False
        except Exception as e:
            obs['started'] = False
            obs['exc'] = type(e).__name__
        finally:
            sys.stderr = old_err
        node = srv.secnode
        per_mod, other = parse_node_errors(node.errors)
        obs['other_errors'] = other
        obs['registered'] = list(node.modules)
        obs['error_modules'] = sorted(per_mod)
        for name in srv.module_cfg:
            if name in node.modules:
                mod = node.modules[name]
                if name not in snaps:           # no poll thread
                    keys = [k for k in srv.module_cfg.get(name, {}) if k in mod.propertyDict]
                    snaps[name] = snapshot(mod, probes.get(name, {}), keys)
                    traces[name] = []
                tr = []
                for e in traces[name]:
                    if e[0] == 'started':
                        break
                    tr.append(e)
                obs['mods'].append([name, dict(snaps[name], kind='created', trace=tr,
                                               started_seen=any(e[0] == 'started' for e in traces[name]),
                                               taken=[t[1:] for t in _TAKEN if t[0] == name],
                                               in_errors=name in per_mod)])
            elif name in per_mod:
                obs['mods'].append([name, {'kind': per_mod[name][0],
                                           'errs': per_mod[name][1] if per_mod[name][0] == 'rejected' else []}])
            else:
                obs['mods'].append([name, {'kind': 'missing'}])
        try:
            desc = node.get_descriptive_data('')['modules']
            obs['describe'] = json.loads(json.dumps(desc, default=str))
        except Exception as e:
            obs['describe'] = {'__exc__': type(e).__name__}
        return obs
    finally:
        sys.stderr = old_err
        mb.mkthread, sn.get_version = old_mk, old_gv
        generalConfig._config = old_cfg
        try:
            signal.signal(signal.SIGINT, old_sig[0])
            signal.signal(signal.SIGTERM, old_sig[1])
        except Exception:
            pass
        if old_mod is None:
            sys.modules.pop(GENMOD, None)
        else:
            sys.modules[GENMOD] = old_mod
        shutil.rmtree(d, ignore_errors=True)


# ------------------------------------------------------------------ encoder
def gs(s):
    return G.gal_str(G.cps(s))


def gopt(x, enc):
    return 'None' if x is None else f'(Some {enc(x)})'


def enc_expo(e):
    if e is False:
        return 'XFalse'
    if e is True:
        return 'XTrue'
    return f'(XName {gs(e)})'


def enc_param(r):
    return ('{| p_name := %s; p_iscmd := %s; p_optional := %s; p_predef := %s; p_dt := %s; p_unit := %s; '
            'p_dtdefault := %s; p_descr := %s; p_readonly := %s; p_needscfg := %s; p_export := %s; p_visibility := %s; '
            'p_group := %s; p_default := %s; p_value := %s; p_has_write := %s; p_wfunc := %s; p_polled := %s; '
            'p_uninit := false; p_takes := %s; p_constant := %s |}' % (
                gs(r['name']), gal.boolean(r['iscmd']), gal.boolean(r['optional']), gal.boolean(r['predef']),
                gopt(r['gd'], lambda x: x), gs(r['unit']), G.gal_val(r['dtdefault']), gopt(r['descr'], gs),
                gal.boolean(r['readonly']), gal.boolean(r['needscfg']), enc_expo(r['export']), gal.z(r['visibility']),
                gs(r['group']), gopt(r['default'], G.gal_val), gopt(r['value'], G.gal_val),
                gal.boolean(r['has_write']), gal.boolean(r['wfunc']), gal.boolean(r['polled']),
                gal.lst(r.get('takes') or [], gs), gopt(r.get('constant'), G.gal_val)))


def enc_class(c):
    props = '[]'
    if c['custom'] == 'mand':
        props = '[{| mp_name := %s; mp_type := MInt 0 10; mp_mandatory := true |}]' % gs('cprop')
    elif c['custom'] == 'opt':
        props = '[{| mp_name := %s; mp_type := MInt 0 10; mp_mandatory := false |}]' % gs('cprop')
    return '{| c_params := %s; c_props := %s; c_enablepoll := %s |}' % (
        gal.lst(c['params'], enc_param), props, gal.boolean(c['enablepoll']))


def enc_entry(kvs):
    return gal.lst(kvs, lambda kv: f'({gs(kv[0])}, {G.gal_val(kv[1])})')


def enc_kw(kw):
    if kw[0] == 'bare':
        return f'(KwBare {G.gal_val(kw[1])})'
    if kw[0] == 'param':
        return f'(KwParam {gopt(kw[1], G.gal_val)} {enc_entry(kw[2])})'
    return f'(KwGroup {gal.lst(kw[1], gs)})'


def enc_file(f):
    mods = gal.lst(f['mods'], lambda m: '{| mc_name := %s; mc_cls := %s; mc_descr := %s; mc_kws := %s |}' % (
        gs(m['name']), gal.nat(m['cls']), G.gal_val(m['descr']),
        gal.lst(m['kws'], lambda kv: f'({gs(kv[0])}, {enc_kw(kv[1])})')))
    return '{| f_eid := %s; f_mods := %s |}' % (gs(f['eid']), mods)


def enc_err(e):
    k = e[0]
    if k == 'unknown':
        return f'(ErrUnknown {gal.lst(e[1], gs)})'
    if k == 'noprop':
        return f'(ErrNoProp {gs(e[1])} {gs(e[2])})'
    if k == 'badvalue':
        return f'(ErrBadValue {gs(e[1])} {gs(e[2])})'
    name = {'needscfg': 'ErrNeedsCfg', 'needsdt': 'ErrNeedsDt', 'mandatory': 'ErrMandatory', 'modprop': 'ErrModProp',
            'check': 'ErrCheck', 'dupexport': 'ErrDupExport'}.get(k)
    if name is None:
        return f'(ErrCheck {gs("?unclassified?")})'
    return f'({name} {gs(e[1])})'


EXC = {'RangeError': 'ERange', 'WrongTypeError': 'EWrongType', 'TypeError': 'EType', 'ValueError': 'EValue',
       'OverflowError': 'EOverflow', 'KeyError': 'EKey', 'AttributeError': 'EAttr', 'ZeroDivisionError': 'EZeroDiv'}


def enc_res(r):
    if r[0] == 'ok':
        return f'(Ok {G.gal_val(r[1])})'
    return f'(Err {EXC.get(r[1], "EOther")})'


def enc_pobs(r):
    lim = 'None' if r['limits'] is None else f'(Some ({G.gal_val(r["limits"][0])}, {G.gal_val(r["limits"][1])}))'
    return ('{| po_name := %s; po_iscmd := %s; po_value := %s; po_readonly := %s; po_visibility := %s; po_group := %s; '
            'po_descr := %s; po_export := %s; po_limits := %s; po_unit := %s; po_uninit := %s; po_probes := %s; '
            'po_shape := %s; po_constant := %s |}' % (
                gs(r['name']), gal.boolean(r['iscmd']), G.gal_val(r['value']), gal.boolean(r['readonly']),
                gal.z(r['visibility']), gs(r['group']), gs(r['descr'] if r['descr'] is not None else '?none?'),
                'None' if r['export'] is False else f'(Some {gs(r["export"])})', lim, gs(r['unit']),
                gal.boolean(r['uninit']),
                gal.lst(r['probes'], lambda pr: f'({G.gal_val(pr[0])}, {enc_res(pr[1])})'),
                gal.lst(r.get('shape') or [], gal.z), G.gal_val(r.get('constant') or ['none'])))


def enc_ev(e):
    if e[0] == 'write':
        return f'(EvWrite {gs(e[2])} {G.gal_val(e[3])})'
    if e[0] == 'initialReads':
        return 'EvInit'
    if e[0] == 'read':
        return f'(EvRead {gs(e[2])})'
    return f'(EvRead {gs("?" + e[0])})'


def enc_mobs(m):
    if m['kind'] == 'created':
        return '(OCreated %s %s %s %s %s)' % (
            gal.lst(m['params'], enc_pobs), enc_entry(m['mvals']), enc_entry(m['write']),
            gal.lst(m['names'], lambda p: f'({gs(p[0])}, {gs(p[1])})'), gal.lst(m['trace'], enc_ev))
    if m['kind'] == 'rejected':
        return f'(ORejected {gal.lst(m["errs"], enc_err)})'
    if m['kind'] == 'crashed':
        return 'OCrashed'
    return f'(ORejected [ErrCheck {gs("?missing?")}])'


def encode(case, obs):
    if obs['load'] != 'ok':
        o = 'OLoadFailed'
    else:
        o = '(OLoaded %s %s %s %s)' % (
            gal.lst(obs['mods'], lambda nm: f'({gs(nm[0])}, {enc_mobs(nm[1])})'),
            gal.lst(obs['registered'], gs),
            gal.boolean(bool(obs['started']) and not obs['exc'] and not obs['other_errors']),
            gal.lst(obs.get('orders') or [], lambda mo: '(%s, %s)' % (
                gs(mo[0]), gal.lst(mo[1], lambda ko: f'({gs(ko[0])}, {gal.lst(ko[1], gs)})'))))
    return '{| c_classes := %s; c_files := %s; c_obs := %s |}' % (
        gal.lst(obs['classes'], enc_class), gal.lst(case['files'], enc_file), o)


def model_result_term(case, obs):
    return f'model_result ({encode(case, obs)})'


# ------------------------------------------------------------------ generators
F = G.enc_float
UNL = 1 << 64


def _fl(a, b):
    return {'t': 'float', 'min': F(float(a)), 'max': F(float(b))}


DT_POOL = [
    _fl(0, 10), _fl(-5, 5), _fl(-FMAX, FMAX), _fl(1, 100),
    {'t': 'int', 'min': 0, 'max': 10}, {'t': 'int', 'min': -100, 'max': 100},
    {'t': 'scaled', 'scale': F(0.1), 'min': F(0.0), 'max': F(10.0)},
    {'t': 'scaled', 'scale': F(0.5), 'min': F(-10.0), 'max': F(10.0)},
    {'t': 'bool'},
    {'t': 'enum', 'members': [['off', 0], ['on', 1], ['auto', 5]]},
    {'t': 'string', 'min': 0, 'max': 10, 'utf8': False},
    {'t': 'string', 'min': 0, 'max': UNL, 'utf8': True},
    {'t': 'array', 'elem': {'t': 'int', 'min': 0, 'max': 10}, 'min': 0, 'max': 3},
    {'t': 'array', 'elem': _fl(0, 10), 'min': 0, 'max': 3},
    {'t': 'struct', 'members': [['a', {'t': 'int', 'min': 0, 'max': 10}], ['b', _fl(0, 10)]], 'optional': [],
     'client': False},
]
LEN_POOL = [
    {'t': 'string', 'min': 0, 'max': 10, 'utf8': False},
    {'t': 'string', 'min': 1, 'max': 5, 'utf8': False},
    {'t': 'string', 'min': 0, 'max': UNL, 'utf8': False},
    {'t': 'string', 'min': 0, 'max': UNL, 'utf8': True},
    {'t': 'blob', 'min': 0, 'max': 6},
    {'t': 'blob', 'min': 2, 'max': 4},
    {'t': 'array', 'elem': {'t': 'int', 'min': 0, 'max': 10}, 'min': 0, 'max': 3},
    {'t': 'array', 'elem': _fl(0, 10), 'min': 1, 'max': 4},
    {'t': 'array', 'elem': _fl(-FMAX, FMAX), 'min': 0, 'max': 10},
    {'t': 'array', 'elem': {'t': 'string', 'min': 0, 'max': 4, 'utf8': False}, 'min': 1, 'max': 3},
]
DT_POOL += [LEN_POOL[1], LEN_POOL[4], LEN_POOL[9]]
MAIN_DTS = [_fl(0, 10), _fl(-FMAX, FMAX), {'t': 'scaled', 'scale': F(0.1), 'min': F(0.0), 'max': F(10.0)},
            {'t': 'int', 'min': 0, 'max': 10}, {'t': 'array', 'elem': _fl(0, 10), 'min': 0, 'max': 3}]
UNITS = ['', '', 'K', '$', '$/s', 'mm', 'm$']


def numeric_leaf(d):
    lf = leaf_of(d)
    return lf if lf['t'] in ('float', 'int', 'scaled') else None


def leaf_bounds(lf):
    if lf['t'] == 'int':
        return lf['min'], lf['max']
    return G.dec_float(lf['min']), G.dec_float(lf['max'])


def gen_valid(rng, d):
    """a clearly valid configuration value (python object) for d"""
    t = d['t']
    if t == 'float':
        a, b = leaf_bounds(d)
        if a == -FMAX:
            return rng.choice([0, 1.5, -3, 1e10, 7])
        return rng.choice([a, b, (a + b) / 2, int(a) + 1, a + 0.25])
    if t == 'int':
        return rng.choice([d['min'], d['max'], (d['min'] + d['max']) // 2, float(d['min'] + 1)])
    if t == 'scaled':
        s = G.dec_float(d['scale'])
        a, b = leaf_bounds(d)
        k = rng.randint(round(a / s), round(b / s))
        return rng.choice([k * s, a, b])
    if t == 'bool':
        return rng.choice([True, False, 0, 1])
    if t == 'enum':
        n, v = rng.choice(d['members'])
        return rng.choice([n, v])
    if t == 'string':
        n = rng.randint(d['min'], min(d['max'], 6))
        return ''.join(rng.choice('abcXY 09' + ('é' if d['utf8'] else '')) for _ in range(n))
    if t == 'blob':
        return bytes(rng.choice(b'ab\x00\xff09') for _ in range(rng.randint(d['min'], min(d['max'], 6))))
    if t == 'array':
        n = rng.randint(d['min'], min(d['max'], 5))
        l = [gen_valid(rng, d['elem']) for _ in range(n)]
        return rng.choice([l, tuple(l)])
    return {n: gen_valid(rng, x) for n, x in d['members']}


def gen_outside(rng, d):
    """right kind, outside the limits (None if the type has no limits)"""
    lf = numeric_leaf(d)
    t = d['t']
    if t == 'string' and d['max'] < 100:
        return 'x' * (d['max'] + 2)
    if t == 'blob' and d['max'] < 100:
        return b'x' * (d['max'] + 2)
    if t == 'enum':
        return rng.choice([77, 'nomember'])
    if lf is None:
        return None
    a, b = leaf_bounds(lf)
    if a == -FMAX:
        return None
    v = rng.choice([b + 5, a - 5, b + 1, a - 1])
    if lf['t'] == 'int':
        v = int(v)
    return [v] if t == 'array' else v


def gen_wrong(rng, d):
    t = d['t']
    if t in ('float', 'int', 'scaled'):
        return rng.choice(['abc', None, [1], {'a': 1}, '5'])
    if t == 'bool':
        return rng.choice(['yes', 2, None, [True]])
    if t == 'enum':
        return rng.choice([None, [1], 1.5])
    if t == 'string':
        return rng.choice([5, None, ['a'], 1.5])
    if t == 'blob':
        return rng.choice([5, None, 'ab', [1]])
    if t == 'array':
        return rng.choice([5, None, [None], 1.5])
    return rng.choice([5, None, 'ab', {'a': 1}, {'a': 1, 'b': 2, 'c': 3}, {'a': 'x', 'b': 1}])


def gen_class(rng):
    names = []
    if rng.random() < 0.7:
        names.append('value')
    names += rng.sample(['target', 'p1', 'p2', 'p3'], rng.randint(1, 3))
    params = []
    for n in names:
        d = rng.choice(MAIN_DTS) if n == 'value' else rng.choice(DT_POOL)
        lf = leaf_of(d)
        p = {'name': n, 'kind': 'param', 'dt': d, 'unit': '', 'descr': f'the {n}', 'readonly': rng.random() < 0.5}
        if lf['t'] in ('float', 'scaled'):
            p['unit'] = rng.choice(['K', 'mm', '', 'V']) if n == 'value' else rng.choice(UNITS)
        r = rng.random()
        if r < 0.05:
            p['descr'] = None
        if rng.random() < 0.08:
            p['needscfg'] = True
        r = rng.random()
        if r < 0.08:
            p['export'] = False
        elif r < 0.2:
            p['export'] = rng.choice(['_x' + n, 'alias_' + n])
        if rng.random() < 0.2:
            p['visibility'] = rng.choice([2, 3])
        if rng.random() < 0.2:
            p['group'] = 'g1'
        if rng.random() < 0.5:
            p['default'] = G.tag(gen_valid(rng, d))
        if rng.random() < 0.15:
            p['value'] = G.tag(gen_valid(rng, d))
        if rng.random() < 0.05 and leaf_of(d)['t'] not in ('blob', 'scaled'):
            p['constant'] = G.tag(gen_valid(rng, d))      # a class-level constant (exported and readonly at class creation)
        p['has_write'] = rng.random() < 0.5
        p['has_read'] = rng.random() < 0.5
        if rng.random() < 0.025:
            p['dt'] = None                      # a parameter without datatype
            p['unit'] = ''
            p.pop('default', None)
            p.pop('value', None)
            p.pop('constant', None)
        params.append(p)
    # take-over scripts: a write method pops pending start values of other parameters from writeDict and writes them
    takeover = len(params) >= 2 and rng.random() < 0.3
    if takeover:
        for p in rng.sample(params, 2):
            if p.get('dt') and rng.random() < 0.8:
                p['has_write'] = True
    for p in params:
        if p.get('has_write') and rng.random() < (0.7 if takeover else 0.1):
            pool = [q['name'] for q in params if q is not p] * 3 + [p['name'], 'p9']
            p['takes'] = [rng.choice(pool) for _ in range(rng.randint(1, 3))]
    if rng.random() < 0.4:
        params.append({'name': rng.choice(['cmd', 'stop']), 'kind': 'cmd', 'descr': 'a command'})
    if rng.random() < 0.2:
        params.append({'name': 'opt1', 'kind': 'param', 'dt': _fl(0, 10), 'unit': '', 'descr': 'optional one',
                       'optional': True, 'readonly': True})
    r = rng.random()
    return {'params': params, 'custom': 'mand' if r < 0.15 else 'opt' if r < 0.3 else None,
            'enablepoll': rng.random() < 0.85, 'takeover': takeover, 'deferred_unit': rng.random() < 0.25}


def gen_props(rng, p, n):
    """n parameter property overrides (valid, except that a configured default may have the wrong type)"""
    d = p.get('dt')
    lf = numeric_leaf(d) if d else None
    cands = ['visibility', 'export', 'readonly', 'group', 'description', 'needscfg']
    if d:
        cands.append('default')
        if rng.random() < 0.5:
            cands.append('constant')
    if lf is not None:
        cands += ['min', 'max', 'min', 'max']
        if lf['t'] in ('float', 'scaled'):
            cands += ['unit', 'unit']
    out = []
    for k in rng.sample(cands, min(n, len(cands))):
        if k in [x[0] for x in out]:
            continue
        if k == 'visibility':
            v = rng.choice([1, 2, 3, 'expert', 'advanced', 'user'])
        elif k == 'export':
            v = rng.choice([False, True, '_alias_' + p['name'], 'alias2' + p['name'], 0, 1, '_shared', '_shared'])
        elif k == 'readonly':
            v = rng.choice([True, False, 0, 1])
        elif k == 'group':
            v = rng.choice(['grp', ''])
        elif k == 'description':
            v = 'configured description'
        elif k == 'needscfg':
            v = rng.choice([True, False])
        elif k == 'default':
            # mostly valid; now and then of the wrong type (must be rejected like a wrong value) or outside the limits
            r = rng.random()
            v = gen_valid(rng, d) if r < 0.8 else gen_wrong(rng, d) if r < 0.93 else gen_outside(rng, d)
            if v is None and r >= 0.93:
                v = gen_valid(rng, d)
        elif k == 'constant':
            # a configured constant: a value of the datatype (exported and shown in the description, parameter readonly),
            # of the wrong type / no value of the datatype (must be rejected), outside the numeric limits, None
            r = rng.random()
            v = gen_valid(rng, d) if r < 0.7 else gen_wrong(rng, d) if r < 0.88 else gen_outside(rng, d)
            if v is None and r >= 0.88:
                v = gen_valid(rng, d)
        elif k == 'unit':
            v = rng.choice(['mK', 'A', '$/min', ''])
        else:
            a, b = leaf_bounds(lf)
            if a == -FMAX:
                a, b = 0.0, 10.0
            v = rng.choice([a + 1, a + 2, a - 1]) if k == 'min' else rng.choice([b - 1, b - 2, b + 10])
            if lf['t'] == 'int':
                v = int(v)
            elif rng.random() < 0.5:
                v = float(v)
        out.append([k, G.tag(v)])
    return out


def gen_bad_prop(rng, p):
    """one erroneous parameter property"""
    d = p.get('dt')
    lf = numeric_leaf(d) if d else None
    r = rng.random()
    if r < 0.3:
        return [[rng.choice(['foo', 'maxx', 'limit']), G.tag(1)]]
    if r < 0.6:
        k, v = rng.choice([('visibility', 7), ('visibility', 'nobody'), ('readonly', 'x'), ('export', [1]),
                           ('group', 5), ('description', 5), ('needscfg', 'maybe')])
        return [[k, G.tag(v)]]
    if lf is not None:
        a, b = leaf_bounds(lf)
        if a == -FMAX:
            a, b = 0.0, 10.0
        if r < 0.85:
            lo, hi = (int(b) + 3, int(a) - 3) if lf['t'] == 'int' else (b + 3, a - 3)
            if rng.random() < 0.5:
                return [['min', G.tag(lo)], ['max', G.tag(hi)]]
            return [['max', G.tag(hi if hi < a else a - 1)]] if rng.random() < 0.5 else [['min', G.tag(lo)]]
        return [[rng.choice(['min', 'max', 'unit'] if lf['t'] != 'int' else ['min', 'max']), G.tag(rng.choice(['x', None, [1]]))]]
    return [[rng.choice(['min', 'max', 'unit']), G.tag(1)]]


# ------------------------------------------------------------------ Param(value, <datatype property override>)
LEN_KEYS = {'string': ('minchars', 'maxchars'), 'blob': ('minbytes', 'maxbytes'), 'array': ('minlen', 'maxlen')}
LEN_BOUND = {'string': UNL, 'blob': 1 << 24, 'array': 1 << 24}
CONV_KEYS = {'minchars', 'maxchars', 'isUTF8', 'minbytes', 'maxbytes', 'minlen', 'maxlen'}
ALL_DT_KEYS = CONV_KEYS | {'min', 'max', 'unit'}


def _len_status(v, bound):
    """a configured length: 'ok' | 'wrong' (not a non-negative whole number) | 'unsure' (beyond the implementation bound
    or a bool)"""
    if isinstance(v, bool):
        return 'unsure'
    if not _isnum(v) or v != int(v) or v < 0:
        return 'wrong'
    return 'ok' if v <= bound else 'unsure'


def spec_set(d, k, v):
    """specification side: the datatype descriptor d with its datatype property k overridden by v ->
    (descriptor, 'ok' | 'wrong' | 'unsure' | 'other'); an array hands every key that is not minlen/maxlen to its
    element type; 'other' = not a length / character-set property of this datatype"""
    t = d['t']
    if t == 'array' and k not in LEN_KEYS['array']:
        e2, st = spec_set(d['elem'], k, v)
        return dict(d, elem=e2), st
    if t in LEN_KEYS and k in LEN_KEYS[t]:
        st = _len_status(v, LEN_BOUND[t])
        if st != 'ok':
            return d, st
        return dict(d, **{'min' if k == LEN_KEYS[t][0] else 'max': int(v)}), 'ok'
    if t == 'string' and k == 'isUTF8':
        if isinstance(v, bool) or (type(v) is int and v in (0, 1)):
            return dict(d, utf8=bool(v)), 'ok'
        return d, ('unsure' if isinstance(v, float) and v in (0.0, 1.0) else 'wrong')
    return d, 'other'


def len_inverted(d):
    if d['t'] == 'array':
        return d['min'] > d['max'] or len_inverted(d['elem'])
    return d['t'] in LEN_KEYS and d['min'] > d['max']


def spec_shape(d):
    if d['t'] == 'array':
        return [d['min'], d['max']] + spec_shape(d['elem'])
    if d['t'] == 'string':
        return [d['min'], d['max'], 1 if d['utf8'] else 0]
    if d['t'] == 'blob':
        return [d['min'], d['max']]
    return []


def _mk_len_value(rng, d, n, nonascii=False):
    """a value of the right kind with n characters / bytes / elements"""
    t = d['t']
    if t == 'string':
        x = ''.join(rng.choice('abcXY09') for _ in range(n))
        return ('\xb5' + x[1:]) if nonascii and n else x
    if t == 'blob':
        return bytes(rng.choice(b'ab\x00\xff09') for _ in range(n))
    return [gen_valid(rng, d['elem']) for _ in range(n)]


def gen_len_override(rng, d):
    """(value, [[key, value]..]) for a string / blob / array datatype: lengths of the value and of the overridden
    property are drawn around each other and around the class-level bounds, so that all four combinations of
    legal/illegal for the class-level datatype x legal/illegal for the configured datatype occur"""
    t = d['t']
    a, b = d['min'], d['max']
    kmin, kmax = LEN_KEYS[t]
    bcap = b if b < 100 else rng.choice([3, 6])
    n = rng.choice([a, bcap, bcap + 1, bcap + 2, max(a - 1, 0), (a + bcap) // 2, min(a + 1, bcap)])
    over = []
    r = rng.random()
    if t == 'string' and r < 0.3:
        # the character set decides
        over.append(['isUTF8', rng.choice([True, True, False, 1, 0])])
        n = max(1, min(n, bcap))
        val = _mk_len_value(rng, d, n, nonascii=rng.random() < 0.85)
        if rng.random() < 0.25:
            over.append([kmax, rng.choice([n, n + 1, max(n - 1, 0)])])
        rng.shuffle(over)
        return val, over
    keys = [kmax] if r < 0.65 else [kmin] if r < 0.85 else [kmin, kmax]
    rng.shuffle(keys)
    for k in keys:
        if k == kmax:
            m = rng.choice([max(n - 1, 0), n, n, n + 1, bcap + 3])
        else:
            m = rng.choice([max(n - 1, 0), n, n + 1, 0, 0])
        over.append([k, m if rng.random() < 0.9 else float(m)])
    if t == 'array' and rng.random() < 0.2:
        # a key forwarded to the element type
        lf = d['elem']
        if lf['t'] in ('float', 'int', 'scaled'):
            lo, hi = leaf_bounds(lf)
            hi = 10 if hi == FMAX else hi
            over.insert(rng.randint(0, len(over)), ['max', int(hi) + rng.choice([-1, 5])])
        elif lf['t'] == 'string':
            over.insert(rng.randint(0, len(over)), ['maxchars', rng.choice([0, 1, 6])])
    return _mk_len_value(rng, d, n), over


def gen_limit_override(rng, d):
    """numeric types (for completeness): value and overridden min/max drawn around each other; the conversion of the
    value does not depend on the limits"""
    lf = numeric_leaf(d)
    a, b = leaf_bounds(lf)
    if a == -FMAX:
        a, b = 0.0, 10.0
    v = rng.choice([b + 5, b - 1, a - 5, a + 1, b, a])
    k = rng.choice(['max', 'min'])
    m = v + rng.choice([-1, 0, 1, 3])
    if lf['t'] == 'int':
        v, m = int(v), int(m)
    elif lf['t'] == 'scaled':
        v, m = float(round(v)), float(round(m))
    return ([v] if d['t'] == 'array' else v), [[k, m]]


BAD_OVERRIDES = {'string': [['maxchars', 'x'], ['minchars', -1], ['maxchars', 2.5], ['isUTF8', 'yes'], ['isUTF8', 2],
                            ['maxchars', None], ['minlen', 1]],
                 'blob': [['maxbytes', 'x'], ['minbytes', -1], ['maxbytes', [3]], ['maxchars', 3]],
                 'array': [['maxlen', 'x'], ['minlen', -2], ['maxlen', 1.5], ['maxlen', None]]}


def gen_override_entry(rng, p):
    """Param(value, <overrides>, <other properties>) where an overridden datatype property decides (string, blob, array)
    or, for the numeric types, merely accompanies the value.  The ORDER of the keywords is part of the case: it is the
    order of the list; config.Param appends `value` after them."""
    d = p.get('dt')
    if not d:
        return None
    if d['t'] in LEN_KEYS:
        val, over = gen_len_override(rng, d)
    elif numeric_leaf(d) is not None:
        val, over = gen_limit_override(rng, d)
    else:
        return None
    if d['t'] in BAD_OVERRIDES and rng.random() < 0.06:
        bad = rng.choice(BAD_OVERRIDES[d['t']])
        over = [kv for kv in over if kv[0] != bad[0]]
        over.insert(rng.randint(0, len(over)), list(bad))
    props = [[k, G.tag(v)] for k, v in over]
    have = {k for k, _ in props}
    for kv in gen_props(rng, p, rng.randint(0, 2)):
        if kv[0] not in have and kv[0] != 'default' and kv[0] not in ALL_DT_KEYS:
            props.insert(rng.randint(0, len(props)), kv)
            have.add(kv[0])
    if p.get('descr') is None and 'description' not in have and rng.random() < 0.8:
        props.insert(rng.randint(0, len(props)), ['description', G.tag('given in cfg')])
    # a configured default, before or after the overrides (since 8b6cdcd it is checked with the configured datatype
    # wherever it stands): lengths drawn like those of the value, so that the override often decides about it
    if rng.random() < 0.3:
        r = rng.random()
        if d['t'] in LEN_KEYS and r < 0.6:
            dv = gen_len_override(rng, d)[0]
        else:
            dv = gen_valid(rng, d) if r < 0.9 else (gen_outside(rng, d) or gen_valid(rng, d))
        props.insert(rng.randint(0, len(props)), ['default', G.tag(dv)])
    return ['param', G.tag(val), props]


def gen_override_case(rng):
    """a case made for the overrides: most parameters have a string / blob / array datatype and most of them are
    configured with Param(value, <override>)"""
    cd = gen_class(rng)
    for p in cd['params']:
        if p['kind'] != 'param' or p.get('optional') or not p.get('dt') or p['name'] == 'value':
            continue
        if rng.random() < 0.75:
            d = rng.choice(LEN_POOL)
            p['dt'] = d
            p['unit'] = rng.choice(UNITS) if leaf_of(d)['t'] in ('float', 'scaled') else ''
            p.pop('value', None)
            p.pop('default', None)
            p.pop('constant', None)
            if rng.random() < 0.5:
                p['default'] = G.tag(gen_valid(rng, d))
            if rng.random() < 0.6:
                p['has_write'] = True
    mods = [gen_module(rng, name, 0, cd, bias=0.85) for name in rng.sample(['m1', 'm2', 'm3'], rng.randint(1, 2))]
    case = {'classes': [cd], 'files': [{'eid': 'eq1', 'mods': mods}]}
    case['probes'] = gen_probes(rng, case)
    return case


def gen_module(rng, name, ci, cd, bias=None):
    kws = []
    for p in cd['params']:
        n = p['name']
        r = rng.random()
        if p['kind'] == 'cmd':
            if r < 0.75:
                continue
            k, v = rng.choice([('description', 'cfg cmd'), ('group', 'grp'), ('visibility', 2), ('export', False),
                               ('export', '_go'), ('description', 'x'), ('visibility', 'expert'), ('group', ''),
                               ('foo', 1), ('visibility', 7), ('visibility', [1]), ('group', 5)])
            kws.append([n, ['param', None, [[k, G.tag(v)]]]])
            continue
        if p.get('optional'):
            if r < 0.1:
                kws.append([n, ['bare', G.tag(1.0)]])
            continue
        d = p.get('dt')
        need = p.get('needscfg') or p.get('descr') is None
        if r < (0.2 if need or cd.get('takeover') else 0.45):
            continue
        if d is None:
            kws.append([n, rng.choice([['bare', G.tag(5)], ['param', None, [['min', G.tag(1)]]],
                                       ['param', None, [['description', G.tag('x')]]]])])
            continue
        if rng.random() < (bias if bias is not None else 0.4 if d['t'] in LEN_KEYS else 0.06):
            ent = gen_override_entry(rng, p)
            if ent is not None:
                kws.append([n, ent])
                continue
        r = rng.random()
        vr = rng.random()
        if vr < 0.84:
            val = gen_valid(rng, d)
        elif vr < 0.93:
            val = gen_outside(rng, d)
            if val is None:
                val = gen_valid(rng, d)
        else:
            val = gen_wrong(rng, d)
        if r < 0.35:
            kws.append([n, ['bare', G.tag(val)]])
            continue
        props = gen_props(rng, p, rng.randint(0, 3))
        if p.get('descr') is None and rng.random() < 0.7 and 'description' not in [k for k, _ in props]:
            props.append(['description', G.tag('given in cfg')])
        if rng.random() < 0.07:
            bad = gen_bad_prop(rng, p)
            props = [kv for kv in props if kv[0] not in [b[0] for b in bad]]
            pos = rng.randint(0, len(props))
            props[pos:pos] = bad
        kws.append([n, ['param', G.tag(val) if rng.random() < 0.6 else None, props]])
    # module properties
    for k, good, bad in (('visibility', [2, 'expert', 3, 'advanced', 1], [7, 'x']), ('group', ['mgrp', 'g'], [5]),
                         ('export', [False, True, False, 0], ['no']),
                         ('pollinterval', [1.0, 2, 120, 0.1, 3.5], [0.05, 'x']),
                         ('slowinterval', [10, 20.0], [500.0]), ('cprop', [5, 0, 10, 7, 2.0], [50, 'x', 2.5])):
        p = 0.88 if (k == 'cprop' and cd.get('custom') == 'mand') else 0.12
        if k == 'cprop' and not cd.get('custom'):
            p = 0.02
        if rng.random() < p:
            v = rng.choice(bad if rng.random() < 0.12 else good)
            if rng.random() < 0.04:
                kws.append([k, ['param', None, [['default', G.tag(v)]]]])      # a Param without value
            else:
                kws.append([k, rng.choice([['bare', G.tag(v)], ['param', G.tag(v), []]])])
    if rng.random() < 0.04:
        kws.append([rng.choice(['zz', 'foo_bar', 'p9']), ['bare', G.tag(1)]])
    if rng.random() < 0.02:
        kws.append(['yy', ['param', None, [['min', G.tag(0)]]]])
    rng.shuffle(kws)
    pkeys = [k for k, kw in kws if kw[0] != 'group']
    if pkeys and rng.random() < 0.12:
        members = rng.sample(pkeys, min(len(pkeys), rng.randint(1, 2)))
        if rng.random() < 0.1:
            members.append('nokey')
        kws.insert(rng.randint(0, len(kws)), ['cfggroup', ['group', members]])
    descr = rng.choice(['a module'] * 24 + ['another\nmodule'] * 8 + [5, 'café'])
    return {'name': name, 'cls': ci, 'descr': G.tag(descr), 'kws': kws}


def gen_probes(rng, case):
    probes = {}
    for f in case['files']:
        for m in f['mods']:
            cd = case['classes'][m['cls']]
            cfg = dict((k, kw) for k, kw in m['kws'])
            pm = probes.setdefault(m['name'], {})
            for p in cd['params']:
                if p['kind'] != 'param' or p.get('optional') or not p.get('dt'):
                    continue
                d = p['dt']
                lf = numeric_leaf(d)
                vals = []
                if lf is not None:
                    a, b = leaf_bounds(lf)
                    if a == -FMAX:
                        a, b = 0.0, 10.0
                    pts = {a, b, a - 1, b + 1, (a + b) / 2, a + 1, b - 1, a + 2, b - 2, b + 10, a - 3}
                    kw = cfg.get(p['name'])
                    if kw and kw[0] == 'param':
                        for k, v in kw[2]:
                            if k in ('min', 'max') and v[0] in ('int', 'float'):
                                x = G.untag(v)
                                if x == x and abs(x) < 1e300:
                                    pts |= {x, x - 1, x + 1, x + 0.5}
                    for x in rng.sample(sorted(pts), 4):
                        if lf['t'] == 'int':
                            x = int(x) if rng.random() < 0.8 else float(int(x))
                        vals.append([x] if d['t'] == 'array' else x)
                else:
                    vals.append(gen_valid(rng, d))
                    o = gen_outside(rng, d)
                    if o is not None:
                        vals.append(o)
                if d['t'] in LEN_KEYS:
                    # lengths around the class-level and the configured length properties; a non-ASCII string
                    lens = {d['min'], max(d['min'] - 1, 0), min(d['max'], 12), min(d['max'] + 1, 12)}
                    kw = cfg.get(p['name'])
                    if kw and kw[0] == 'param':
                        for k, v in kw[2]:
                            if k in LEN_KEYS[d['t']] and v[0] in ('int', 'float'):
                                x = G.untag(v)
                                if x == x and 0 <= x < 12:
                                    lens |= {int(x), max(int(x) - 1, 0), int(x) + 1}
                    for ln in rng.sample(sorted(lens), min(3, len(lens))):
                        vals.append(_mk_len_value(rng, d, ln))
                    if d['t'] == 'string':
                        vals.append(_mk_len_value(rng, d, max(1, min(d['min'] + 1, d['max'])), nonascii=True))
                vals.append(gen_wrong(rng, d))
                pm.setdefault(p['name'], [G.tag(v) for v in vals])
    return probes


def gen_case(rng):
    classes = [gen_class(rng) for _ in range(rng.choice([1, 1, 2]))]
    nfiles = rng.choice([1, 1, 1, 2, 2, 3])
    files = []
    pool = ['m1', 'm2', 'm3', 'Mod_4']
    for i in range(nfiles):
        mods = []
        for name in rng.sample(pool, rng.randint(1, 3 if nfiles == 1 else 2)):
            ci = rng.randrange(len(classes))
            mods.append(gen_module(rng, name, ci, classes[ci]))
        if rng.random() < 0.05:
            ci = rng.randrange(len(classes))
            mods.append(gen_module(rng, mods[0]['name'], ci, classes[ci]))      # duplicate section in one file
        if rng.random() < 0.015:
            mods[rng.randrange(len(mods))]['name'] = rng.choice(['1abc', 'a-b', 'x' * 64, 'mé', '_m'])
        files.append({'eid': f'eq{i + 1}', 'mods': mods})
    case = {'classes': classes, 'files': files}
    case['probes'] = gen_probes(rng, case)
    return case


def gen_cases(seed, tier):
    rng = random.Random(seed * 7919 + 10)
    n = {'quick': 1600, 'thorough': 15000, 'search': 12000}.get(tier, 2600)
    # every sixth case is made for Param(value, <datatype property override>)
    return [gen_override_case(rng) if i % 6 == 5 else gen_case(rng) for i in range(n)]


# ------------------------------------------------------------------ specification side (written from the property text)
MODNAME_RE = re.compile(r'^[a-zA-Z]\w{0,62}$', re.ASCII)
VIS = {'user': 1, 'advanced': 2, 'expert': 3, 1: 1, 2: 2, 3: 3}
PREDEF_PARAMS = {'value', 'status', 'target', 'pollinterval', 'ramp', 'use_ramp', 'setpoint', 'time_to_target',
                 'controlled_by', 'control_active', 'unit', 'loglevel', 'mode', 'ctrlpars'}
PREDEF_CMDS = {'stop', 'reset', 'go', 'abort', 'shutdown', 'communicate'}
CMD_PROPS = ['description', 'group', 'visibility', 'export', 'datatype', 'argument', 'result', 'influences']


def _isnum(v):
    return isinstance(v, (int, float)) and not isinstance(v, bool) and v == v and abs(v) != math.inf


def spec_conv(d, v):
    """('ok', converted python value) | ('range',) | ('wrong',): the value set of the datatype, from the SECoP meaning of
    the types (limits of numeric types are NOT applied here: conversion only)"""
    t = d['t']
    if t == 'float':
        return ('ok', float(v)) if _isnum(v) else ('wrong',)
    if t == 'int':
        if _isnum(v) and v == int(v):
            return 'ok', int(v)
        return ('wrong',)
    if t == 'scaled':
        if not _isnum(v):
            return ('wrong',)
        s = G.dec_float(d['scale'])
        return 'ok', round(v / s) * s
    if t == 'bool':
        if isinstance(v, bool) or (type(v) is int and v in (0, 1)):
            return 'ok', bool(v)
        return ('wrong',)
    if t == 'enum':
        if isinstance(v, bool):
            return ('wrong',)
        for n, x in d['members']:
            if v == n or (type(v) is int and v == x):
                return 'ok', ('enum', n, x)
        return ('range',) if isinstance(v, (int, str)) else ('wrong',)
    if t == 'string':
        if not isinstance(v, str):
            return ('wrong',)
        if not d['min'] <= len(v) <= d['max'] or (not d['utf8'] and not v.isascii()) or '\0' in v:
            return ('range',)
        return 'ok', v
    if t == 'blob':
        if not isinstance(v, bytes):
            return ('wrong',)
        return ('ok', v) if d['min'] <= len(v) <= d['max'] else ('range',)
    if t == 'array':
        if not isinstance(v, (list, tuple)):
            return ('wrong',)
        if not d['min'] <= len(v) <= d['max']:
            return ('range',)
        out = []
        for x in v:
            r = spec_conv(d['elem'], x)
            if r[0] != 'ok':
                return r
            out.append(r[1])
        return 'ok', tuple(out)
    if not isinstance(v, dict) or set(v) != {n for n, _ in d['members']}:
        return ('wrong',)
    out = {}
    for n, x in d['members']:
        r = spec_conv(x, v[n])
        if r[0] != 'ok':
            return r
        out[n] = r[1]
    return 'ok', out


def spec_export(d, c):
    """transport (JSON) form of a spec-side converted value c of datatype d"""
    t = d['t']
    if t == 'float':
        return float(c)
    if t == 'int':
        return int(c)
    if t == 'scaled':
        return int(round(c / G.dec_float(d['scale'])))
    if t == 'bool':
        return bool(c)
    if t == 'enum':
        return c[2]
    if t == 'string':
        return c
    if t == 'blob':
        import base64
        return base64.b64encode(c).decode('ascii')
    if t == 'array':
        return [spec_export(d['elem'], x) for x in c]
    return {n: spec_export(x, c[n]) for n, x in d['members']}


def same_json(a, b):
    if isinstance(b, list):
        return isinstance(a, list) and len(a) == len(b) and all(same_json(x, y) for x, y in zip(a, b))
    if isinstance(b, dict):
        return isinstance(a, dict) and set(a) == set(b) and all(same_json(a[k], b[k]) for k in b)
    if isinstance(b, float):        # JSON round trip keeps float / int apart
        return isinstance(a, float) and a == b
    return type(a) is type(b) and a == b


def same_value(observed_tagged, expected):
    """tagged cache value == spec-side converted value (type and value)"""
    v = G.untag(observed_tagged)

    def eq(a, b):
        if isinstance(b, tuple) and len(b) == 3 and b[0] == 'enum':
            return isinstance(a, G.EnumVal) and a.name == b[1] and a.value == b[2]
        if isinstance(b, tuple):
            return isinstance(a, tuple) and len(a) == len(b) and all(eq(x, y) for x, y in zip(a, b))
        if isinstance(b, dict):
            return isinstance(a, dict) and set(a) == set(b) and all(eq(a[k], b[k]) for k in b)
        return type(a) is type(b) and a == b
    return eq(v, expected)


def effective_sections(case):
    """spec side: first file wins, later files only add new names tagged with their equipment id;
    returns None when the files cannot be loaded (invalid module name, group member that is not configured)"""
    merged = {}
    for i, f in enumerate(case['files']):
        own = {}
        for m in f['mods']:
            if not MODNAME_RE.match(m['name']):
                return None
            keys = [k for k, kw in m['kws'] if kw[0] != 'group']
            for k, kw in m['kws']:
                if kw[0] == 'group' and any(x not in keys for x in kw[1]):
                    return None
            own[m['name']] = m
        for n, m in own.items():
            if n not in merged:
                merged[n] = (m, f['eid'] if i > 0 else None)
    return merged


def section_entries(m):
    """{key: {prop: python value}} after the DSL (bare value -> value, Group -> group property)"""
    ent = {}
    for k, kw in m['kws']:
        if kw[0] == 'bare':
            ent[k] = {'value': G.untag(kw[1])}
        elif kw[0] == 'param':
            e = {kk: G.untag(v) for kk, v in kw[2]}
            if kw[1] is not None:
                e['value'] = G.untag(kw[1])
            ent[k] = e
    for k, kw in m['kws']:
        if kw[0] == 'group':
            for x in kw[1]:
                ent[x]['group'] = k
    return ent


def dt_props(d):
    lf = leaf_of(d)
    own = {'float': ['min', 'max', 'unit', 'fmtstr', 'absolute_resolution', 'relative_resolution'],
           'int': ['min', 'max'], 'scaled': ['min', 'max', 'unit', 'fmtstr', 'absolute_resolution',
                                             'relative_resolution', 'scale'],
           'string': ['minchars', 'maxchars', 'isUTF8'], 'blob': ['minbytes', 'maxbytes']}
    res = list(own.get(lf['t'], []))
    if d['t'] == 'array':
        res += ['minlen', 'maxlen']
    return res


def prop_value_ok(k, v):
    """True / False / None (no claim) for the generic accessible properties"""
    if k == 'visibility':
        return (not isinstance(v, bool)) and isinstance(v, (int, str)) and v in VIS
    if k == 'readonly':
        return isinstance(v, bool) or (type(v) is int and v in (0, 1))
    if k == 'needscfg':
        return v is None or isinstance(v, bool)
    if k == 'export':
        return isinstance(v, (bool, str)) or (type(v) is int and v in (0, 1))
    if k in ('group', 'description', 'unit'):
        if not isinstance(v, str):
            return False
        return True if v.isascii() or k == 'unit' else None
    return None


def analyse_module(case, m, origin):
    """spec-side analysis of one effective module section -> dict(bad=[reasons], unsure=bool, params={name: expectation})"""
    cd = case['classes'][m['cls']]
    ent = section_entries(m)
    bad, unsure = [], False
    modprops = MODULE_PROPS + (['cprop'] if cd.get('custom') else [])
    acc = {p['name']: p for p in cd['params'] if not p.get('optional')}
    descr = G.untag(m['descr'])
    if not isinstance(descr, str):
        bad.append('wrong-type:description')
    elif not descr.isascii():
        unsure = True
    mexp = {}
    for k, e in ent.items():
        if k in acc:
            continue
        if k not in modprops:
            bad.append(f'unknown-name:{k}')
            continue
        if 'value' not in e:
            unsure = True           # Param() without value for a module property: nothing to apply
            continue
        v = e['value']
        if k in ('visibility', 'export', 'group'):
            ok = prop_value_ok(k, v) if k != 'export' else (isinstance(v, bool) or (type(v) is int and v in (0, 1)))
            if ok is False:
                bad.append(f'wrong-type:{k}')
            elif ok is None:
                unsure = True
            else:
                mexp[k] = VIS[v] if k == 'visibility' else bool(v) if k == 'export' else v
        elif k in ('pollinterval', 'slowinterval'):
            if not _isnum(v):
                bad.append(f'wrong-type:{k}')
            elif not 0.1 <= v <= 120:
                unsure = True
            else:
                mexp[k] = float(v)
        elif k == 'cprop':
            if not (_isnum(v) and v == int(v)):
                bad.append('wrong-type:cprop')
            elif not 0 <= v <= 10:
                unsure = True
            else:
                mexp[k] = int(v)
        else:
            unsure = True
    if cd.get('custom') == 'mand' and 'cprop' not in ent:
        bad.append('missing-mandatory:cprop')
    if origin is not None:
        mexp['original_id'] = origin
    params = {}
    for n, p in acc.items():
        e = ent.get(n, {})
        x = {'cfg': e, 'p': p}
        params[n] = x
        if p['kind'] == 'cmd':
            for k, v in e.items():
                if k not in CMD_PROPS:
                    bad.append(f'unknown-param-property:{n}.{k}')
                elif prop_value_ok(k, v) is False:
                    bad.append(f'wrong-type:{n}.{k}')
                elif prop_value_ok(k, v) is None:
                    unsure = True
            if p.get('descr') is None and 'description' not in e:
                bad.append(f'missing-mandatory:{n}.description')
            continue
        d = p.get('dt')
        if d is None:
            bad.append(f'missing-mandatory:{n}.datatype')
            continue
        lf = numeric_leaf(d)
        if p.get('constant') is not None and e:
            unsure = True       # a class-level constant together with a cfg entry (readonly forced, the constant must fit
            #                     the configured datatype): class definition, not decided by the property
        # the CONFIGURED datatype: the class-level datatype with all length / character-set overrides of this entry
        # applied (independent of the order in which they are written); min/max/unit are treated below
        dcfg = d
        for k, v in e.items():
            if k in CONV_KEYS and k in dt_props(d):
                dcfg, st = spec_set(dcfg, k, v)
                if st == 'wrong':
                    bad.append(f'wrong-type:{n}.{k}')
                elif st != 'ok':
                    unsure = True
        x['dcfg'] = dcfg
        x['conv_over'] = [k for k in e if k in CONV_KEYS and k in dt_props(d)]
        if len_inverted(dcfg):
            bad.append(f'inverted-limits:{n}')
        for k, v in e.items():
            if k == 'constant' and v is None:
                unsure = True       # "no constant": the property text does not say (the code refuses the entry)
            elif k in ('value', 'default', 'constant'):
                # the configured value / default / constant must be a value of the CONFIGURED datatype
                r = spec_conv(dcfg, v)
                if r[0] == 'wrong':
                    bad.append(f'wrong-type:{n}.{k}')
                elif r[0] == 'range':
                    bad.append(f'not-a-value-of-datatype:{n}.{k}')
                else:
                    x['conv_' + k] = r[1]
            elif k in PARAM_PROPS:
                ok = prop_value_ok(k, v)
                if ok is False:
                    bad.append(f'wrong-type:{n}.{k}')
                elif ok is None:
                    unsure = True
            elif k in dt_props(d):
                if k in CONV_KEYS:
                    pass            # treated above
                elif k in ('min', 'max'):
                    if not _isnum(v) or (lf['t'] == 'int' and v != int(v)):
                        bad.append(f'wrong-type:{n}.{k}')
                elif k == 'unit':
                    if not isinstance(v, str):
                        bad.append(f'wrong-type:{n}.{k}')
                else:
                    unsure = True
            else:
                bad.append(f'unknown-param-property:{n}.{k}')
        if p.get('descr') is None and 'description' not in e:
            bad.append(f'missing-mandatory:{n}.description')
        needs = e['needscfg'] if isinstance(e.get('needscfg'), bool) else bool(p.get('needscfg'))
        if needs and 'value' not in e and p.get('value') is None:
            bad.append(f'missing-required-value:{n}')
        if lf is not None:
            a, b = leaf_bounds(lf)
            if _isnum(e.get('min')):
                a = e['min']
            if _isnum(e.get('max')):
                b = e['max']
            x['limits'] = (a, b)
            if a > b:
                bad.append(f'inverted-limits:{n}')
    # two accessibles with the same export name: the property does not say (the code now rejects the module)
    exps = [expected_export(x['p'], x['cfg'], True) for x in params.values()
            if not any(b.startswith('wrong-type:%s.export' % x['p']['name']) for b in bad)]
    exps = [x for x in exps if isinstance(x, str)]
    if len(set(exps)) != len(exps):
        unsure = True
    return {'bad': bad, 'unsure': unsure, 'params': params, 'mexp': mexp, 'cd': cd, 'entries': ent}


def datainfo_shape(di):
    """the length / character-set properties a described datainfo shows (absent = the SECoP default)"""
    t = di.get('type')
    if t == 'array':
        return [di.get('minlen', 0), di.get('maxlen')] + datainfo_shape(di.get('members', {}))
    if t == 'string':
        return [di.get('minchars', 0), di.get('maxchars', UNL), 1 if di.get('isUTF8', False) else 0]
    if t == 'blob':
        return [di.get('minbytes', 0), di.get('maxbytes')]
    return []


def spec_valid(d, v):
    """is v a value of the datatype d?  True / False / None (no claim: numeric limits are judged elsewhere)"""
    t = d['t']
    if t in ('string', 'blob'):
        return spec_conv(d, v)[0] == 'ok'
    if t == 'array' and isinstance(v, (list, tuple)):
        if not d['min'] <= len(v) <= d['max']:
            return False
        if d['elem']['t'] in ('string', 'blob'):
            return all(spec_conv(d['elem'], x)[0] == 'ok' for x in v)
    return None


def expected_export(p, e, mod_export):
    """the name under which the accessible must be reachable, None = hidden"""
    n = p['name']
    auto = n if n in (PREDEF_CMDS if p['kind'] == 'cmd' else PREDEF_PARAMS) else '_' + n
    if mod_export is False:
        return None
    x = e['export'] if 'export' in e else p.get('export')
    if x is None or x is True or (type(x) is int and x == 1):
        return auto
    if x is False or (type(x) is int and x == 0):
        return None
    return x


def _fail(cls, what, **detail):
    return {'class': cls, 'what': what, 'detail': detail}


def oracle(case, obs):
    fails = []
    eff = effective_sections(case)
    if obs.get('exc'):
        fails.append(_fail('unexpected-exception', f"Server._processCfg raised {obs['exc']} instead of reporting errors"))
    if eff is None:
        if obs['load'] == 'ok':
            fails.append(_fail('bad-file-loaded', 'a config file with an invalid module name / unknown group member was loaded'))
        return fails
    if obs['load'] != 'ok':
        fails.append(_fail('valid-files-not-loaded', f"loading the config files raised {obs['load']}"))
        return fails
    mods = dict(obs['mods'])
    if list(eff) != [n for n, _ in obs['mods']]:
        fails.append(_fail('merge', f"module sections {[n for n, _ in obs['mods']]} but the merge rule gives {list(eff)}"))
        return fails
    any_bad = False         # an erroneous module that was (rightly) rejected
    all_clean = True
    for name, (m, origin) in eff.items():
        A = analyse_module(case, m, origin)
        o = mods[name]
        if A['bad']:
            all_clean = False
            if o['kind'] != 'created' and name not in obs['registered']:
                any_bad = True
            if o['kind'] == 'created' or name in obs['registered']:
                kinds = sorted({b.split(':')[0] for b in A['bad']})
                fails.append(_fail('erroneous-accepted', f"module {name} registered although its configuration has "
                                   f"{', '.join(A['bad'][:4])}", module=name, reasons=A['bad'], kinds=kinds,

                                   array_params=[n for n, x in A['params'].items()
                                                 if x['p'].get('dt') and x['p']['dt']['t'] == 'array']))
            elif name not in obs.get('error_modules', []):
                fails.append(_fail('failing-module-not-reported', f'module {name} was rejected but is not named in the errors'))
            continue
        if A['unsure']:
            all_clean = False
            if o['kind'] != 'created' and name not in obs.get('error_modules', []):
                fails.append(_fail('failing-module-not-reported', f'module {name} was rejected but is not named in the errors'))
            if o['kind'] != 'created':
                continue
        elif o['kind'] != 'created':
            fails.append(_fail('valid-rejected', f"module {name}: valid configuration rejected ({o.get('errs')})", module=name))
            all_clean = False       # the node refusing to start is the consequence already reported here
            continue
        fails.extend(check_applied(case, obs, name, A, o))
    if any_bad and obs['started']:
        fails.append(_fail('started-with-errors', 'the node started although a module configuration was rejected'))
    if all_clean and not obs['started']:
        fails.append(_fail('valid-node-refused', f"the node refused to start with valid configurations ({obs['other_errors'][:2]})"))
    for name, o in obs['mods']:
        if o['kind'] == 'created' and o.get('in_errors'):
            fails.append(_fail('half-applied', f'module {name} is registered and reported as failing'))
        if o['kind'] == 'missing':
            fails.append(_fail('failing-module-not-reported', f'module {name} neither registered nor reported'))
    return fails


def check_applied(case, obs, name, A, o):
    fails = []
    snap = {p['name']: p for p in o['params']}
    mexp = A['mexp']
    mod_export = mexp.get('export', True)
    desc = obs['describe'].get(name)
    names = {k: v for k, v in o['names']}
    mv = {k: G.untag(v) for k, v in o['mvals']}
    for k, v in mexp.items():
        got = mv.get(k)
        got = got.value if isinstance(got, G.EnumVal) else got
        if got != v or (k != 'visibility' and type(got) is not type(v)):
            fails.append(_fail('module-property', f'module {name}: property {k} configured as {v!r}, instance has {got!r}'))
    if mod_export and desc is None:
        fails.append(_fail('describe', f'module {name} is missing from the description'))
    if not mod_export and desc is not None:
        fails.append(_fail('describe', f'module {name} has export=False but is described'))
    if desc is not None:
        for k, dk in (('visibility', 'visibility'), ('group', 'group'), ('original_id', '_original_id')):
            if k in mexp and desc.get(dk, {'visibility': 1, 'group': '', 'original_id': None}[k]) != mexp[k]:
                fails.append(_fail('describe', f'module {name}: described {dk} is {desc.get(dk)!r}, configured {mexp[k]!r}'))
    # main unit
    main = ''
    pv = A['params'].get('value')
    if pv and pv['p']['kind'] == 'param' and pv['p'].get('dt') and leaf_of(pv['p']['dt'])['t'] in ('float', 'scaled'):
        main = pv['cfg'].get('unit', pv['p'].get('unit', ''))
    trace = o['trace']
    first_poll = min([i for i, e in enumerate(trace) if e[0] in ('read', 'doPoll')] or [len(trace)])
    for n, x in A['params'].items():
        p, e, s = x['p'], x['cfg'], snap.get(n)
        if s is None:
            fails.append(_fail('accessible-missing', f'module {name}: accessible {n} missing on the instance'))
            continue
        en = expected_export(p, e, mod_export)
        acc = None
        clash = en is not None and any(expected_export(y['p'], y['cfg'], mod_export) == en
                                       for q, y in A['params'].items() if q != n)
        if clash:
            continue            # two accessibles configured with the same export name: not decided by the property
        if desc is not None:
            accs = desc['accessibles']
            if en is None:
                auto = n if n in (PREDEF_CMDS if p['kind'] == 'cmd' else PREDEF_PARAMS) else '_' + n
                cands = {auto} | ({p['export']} if isinstance(p.get('export'), str) else set())
                others = {expected_export(y['p'], y['cfg'], mod_export) for q, y in A['params'].items() if q != n}
                if any(c in accs and c not in others for c in cands):
                    fails.append(_fail('describe', f'module {name}: {n} has export=False but is described'))
            else:
                acc = accs.get(en)
                if acc is None:
                    fails.append(_fail('describe', f'module {name}: {n} not described under its export name {en!r}'))
        # name resolution must agree with the configured export
        if 'export' in e or mod_export is False:
            if en is not None and names.get(en) != n:
                fails.append(_fail('name-map', f'module {name}: {n} is described as {en!r} but requests for {en!r} are '
                                   f'not resolved to it', module=name, param=n, cfg_export='export' in e))
            hidden = [k for k, v in names.items() if v == n and k != en]
            if hidden:
                fails.append(_fail('name-map', f'module {name}: {n} is still reachable as {hidden[0]!r} although its '
                                   f'configured export is {e.get("export", "module export=False")!r}', module=name, param=n,
                                   cfg_export='export' in e, mod_export=mod_export))
        if acc is not None:
            for k, default in (('visibility', 1), ('group', ''), ('description', p.get('descr'))):
                if k in e:
                    want = VIS[e[k]] if k == 'visibility' else e[k]
                    if acc.get(k, default) != want:
                        fails.append(_fail('describe', f'module {name}: {n}.{k} configured {want!r}, described {acc.get(k)!r}'))
            if p['kind'] == 'param' and 'conv_constant' in x:
                # a configured constant: shown in the description in its transport form, the parameter is readonly
                wantc = spec_export(x.get('dcfg', p['dt']), x['conv_constant'])
                if not same_json(acc.get('constant'), wantc):
                    fails.append(_fail('constant', f'module {name}: {n}.constant configured {e["constant"]!r}, described '
                                       f'{acc.get("constant")!r}, expected {wantc!r}', module=name, param=n))
                if acc.get('readonly') is not True:
                    fails.append(_fail('constant', f'module {name}: {n} has a configured constant but is described as '
                                       f'readonly={acc.get("readonly")!r}', module=name, param=n))
            elif (p['kind'] == 'param' and 'readonly' in e and p.get('constant') is None
                  and acc.get('readonly') != bool(e['readonly'])):
                fails.append(_fail('describe', f'module {name}: {n}.readonly configured {e["readonly"]!r}, described '
                                   f'{acc.get("readonly")!r}'))
        if p['kind'] != 'param':
            continue
        d = p['dt']
        lf = numeric_leaf(d)
        dcfg = x.get('dcfg', d)
        # the length / character-set properties: on the instance, in the description, in later checks
        if x.get('conv_over'):
            if s.get('shape') != spec_shape(dcfg):
                fails.append(_fail('limits', f'module {name}: {n} configured datatype properties {spec_shape(dcfg)!r}, '
                                   f'instance has {s.get("shape")!r}', module=name, param=n))
            if acc is not None and datainfo_shape(acc['datainfo']) != spec_shape(dcfg):
                fails.append(_fail('describe', f'module {name}: {n} datainfo shows {datainfo_shape(acc["datainfo"])!r}, '
                                   f'configured {spec_shape(dcfg)!r}'))
        if d['t'] in LEN_KEYS:
            for pr, res in s['probes']:
                verdict = spec_valid(dcfg, G.untag(pr))
                if verdict is True and res[0] != 'ok':
                    fails.append(_fail('range-check', f'module {name}: {n} = {G.untag(pr)!r} rejected ({res[1]}) although it '
                                       f'is a value of the configured datatype {spec_shape(dcfg)!r}', module=name, param=n))
                if verdict is False and res[0] == 'ok':
                    fails.append(_fail('range-check', f'module {name}: {n} = {G.untag(pr)!r} accepted although it is no '
                                       f'value of the configured datatype {spec_shape(dcfg)!r}', module=name, param=n))
        # start value
        want = None
        if 'conv_value' in x:
            want = x['conv_value']
        elif 'conv_default' in x and p.get('value') is None:
            want = x['conv_default']
        if want is not None and not same_value(s['value'], want):
            fails.append(_fail('start-value', f'module {name}: {n} configured {e.get("value", e.get("default"))!r}, start '
                               f'value in the cache is {G.untag(s["value"])!r}, expected {want!r}', module=name, param=n))
        # limits and unit: instance, description, later range checks
        if lf is not None:
            a, b = x['limits']
            if ('min' in e or 'max' in e):
                got = tuple(G.untag(t) for t in s['limits']) if s['limits'] else None
                if got != (a, b):
                    fails.append(_fail('limits', f'module {name}: {n} limits configured {(a, b)!r}, instance has {got!r}'))
                if acc is not None:
                    di = acc['datainfo']['members'] if d['t'] == 'array' else acc['datainfo']
                    if lf['t'] == 'scaled':
                        sc = G.dec_float(lf['scale'])
                        shown = (di.get('min'), di.get('max'))
                        wantd = (int(round(a / sc)), int(round(b / sc)))
                    else:
                        shown = (di.get('min', -FMAX), di.get('max', FMAX))
                        wantd = (a, b)
                    if shown != wantd:
                        fails.append(_fail('describe', f'module {name}: {n} datainfo shows limits {shown!r}, configured {wantd!r}'))
            for pr, res in s['probes']:
                v = G.untag(pr)
                if d['t'] == 'array':
                    if not (isinstance(v, list) and len(v) == 1) or not dcfg['min'] <= 1 <= dcfg['max']:
                        continue
                    v = v[0]
                if not _isnum(v) or (lf['t'] == 'int' and v != int(v)):
                    continue
                tol = max(abs(v) * 1e-6, 1e-9) + (G.dec_float(lf['scale']) if lf['t'] == 'scaled' else 0)
                if a <= v <= b and res[0] != 'ok':
                    fails.append(_fail('range-check', f'module {name}: {n} = {v!r} rejected although inside the configured '
                                       f'limits {(a, b)!r}'))
                if (v < a - tol or v > b + tol) and res != ['err', 'RangeError']:
                    fails.append(_fail('range-check', f'module {name}: {n} = {v!r} outside the configured limits {(a, b)!r} '
                                       f'gives {res[0]}:{res[1] if res[0] == "err" else ""} instead of RangeError'))
        if lf is not None and lf['t'] in ('float', 'scaled') and ('unit' in e or (main and '$' in p.get('unit', ''))):
            u = e.get('unit', p.get('unit', ''))
            if main:
                u = u.replace('$', main)
            if s['unit'] != u:
                fails.append(_fail('unit', f'module {name}: {n} unit should be {u!r}, instance has {s["unit"]!r}'))
            if acc is not None:
                di = acc['datainfo']['members'] if d['t'] == 'array' else acc['datainfo']
                if di.get('unit', '') != u:
                    fails.append(_fail('describe', f'module {name}: {n} datainfo shows unit {di.get("unit", "")!r}, expected {u!r}'))
        # configured values of parameters with a write method: handed over exactly once, before the first poll
        if p.get('has_write') and 'conv_value' in x:
            idx = [i for i, ev in enumerate(trace) if ev[0] == 'write' and ev[2] == n]
            outside = False
            if lf is not None:
                a, b = x['limits']
                vals = x['conv_value'] if d['t'] == 'array' else [x['conv_value']]
                outside = any(not a <= v <= b for v in vals)
            det = dict(module=name, param=n, outside_limits=outside, mod_export=mod_export, nwrites=len(idx))
            if len(idx) != 1:
                fails.append(_fail('write-count', f'module {name}: configured value {e["value"]!r} of {n} handed to write_{n} '
                                   f'{len(idx)} times', **det))
            else:
                if idx[0] > first_poll:
                    fails.append(_fail('write-order', f'module {name}: write_{n} called after the first poll', **det))
                if not same_value(trace[idx[0]][3], x['conv_value']) and not outside:
                    fails.append(_fail('write-value', f'module {name}: write_{n} got {G.untag(trace[idx[0]][3])!r}, configured '
                                       f'{x["conv_value"]!r}', **det))
    return fails


FINDING_CLASSIFIERS = {
    # configured value outside the (possibly overridden) limits of a parameter with a write method: cached, never written
    'out_of_range_not_written': lambda case, obs, f: f['class'] == 'write-count' and f['detail']['nwrites'] == 0
    and f['detail']['outside_limits'],
}


# ------------------------------------------------------------------ bookkeeping
def _configured(case):
    return sum(len([kw for k, kw in m['kws']]) for f in case['files'] for m in f['mods'])


def nontrivial_key(case, obs):
    if _configured(case) == 0:
        return None
    return json.dumps([case['classes'], case['files']], sort_keys=True)


def override_labels(case):
    """for every Param(value, <length / character-set override>): is the value legal for the class-level datatype and
    for the configured one?"""
    labs = []
    for f in case['files']:
        for m in f['mods']:
            cd = case['classes'][m['cls']]
            byname = {p['name']: p for p in cd['params']}
            for k, kw in m['kws']:
                p = byname.get(k)
                if kw[0] != 'param' or kw[1] is None or not p or p['kind'] != 'param' or not p.get('dt'):
                    continue
                d = dcfg = p['dt']
                hit, ok = False, True
                for kk, vv in kw[2]:
                    if kk in CONV_KEYS and kk in dt_props(d):
                        dcfg, st = spec_set(dcfg, kk, G.untag(vv))
                        hit, ok = True, ok and st == 'ok'
                if hit and ok:
                    v = G.untag(kw[1])
                    labs.append('override: value %s for the class datatype, %s for the configured datatype' % (
                        'legal' if spec_conv(d, v)[0] == 'ok' else 'illegal',
                        'legal' if spec_conv(dcfg, v)[0] == 'ok' else 'illegal'))
    return labs


def outcome_labels(case, obs):
    if obs['load'] != 'ok':
        return ['load-failed']
    labs = ['node-started' if obs['started'] else 'node-refused', f"files-{len(case['files'])}"] + override_labels(case)
    mk = dict(obs['mods'])
    for f in case['files']:
        for m in f['mods']:
            for k, kw in m['kws']:
                if kw[0] == 'param' and any(kk == 'constant' for kk, _ in kw[2]):
                    labs.append('constant-configured: module ' + mk.get(m['name'], {}).get('kind', '?'))
    for n, m in obs['mods']:
        labs.append('module-' + m['kind'])
        for e in m.get('errs', []):
            labs.append('err-' + e[0])
        if m['kind'] == 'created':
            for pr in m['params']:
                if pr.get('constant', ['none']) != ['none']:
                    labs.append('constant-on-created-instance')
        if m['kind'] == 'created':
            labs.append(f"writes-{min(3, len([e for e in m['trace'] if e[0] == 'write']))}")
            if m.get('taken'):
                labs.append('pending-value-taken-over')
                if any(ev[0] == 'write' and ev[2] in [t[1] for t in m['taken']] for ev in m['trace']):
                    labs.append('taken-over-value-reached-driver-method')
    return labs


def sample_repr(case, obs):
    return {'files': [file_text(f) for f in case['files']],
            'classes': [[(p['name'], p['kind'], (p.get('dt') or {}).get('t')) for p in c['params']] for c in case['classes']],
            'modules': [[n, m['kind'], m.get('errs', m.get('trace'))] for n, m in obs.get('mods', [])],
            'takes': [[(p['name'], p['takes']) for p in c['params'] if p.get('takes')] for c in case['classes']],
            'started': obs.get('started'), 'load': obs.get('load')}


def shrink(case):
    """smaller cases: drop a file, a module section, a keyword, a property of a Param"""
    def clone():
        return json.loads(json.dumps(case))
    for ci, cd in enumerate(case['classes']):
        for pi, p in enumerate(cd['params']):
            for k in range(len(p.get('takes') or [])):
                c = clone()
                del c['classes'][ci]['params'][pi]['takes'][k]
                yield c
    if len(case['files']) > 1:
        for i in range(len(case['files'])):
            c = clone()
            del c['files'][i]
            yield c
    for i, f in enumerate(case['files']):
        if len(f['mods']) > 1:
            for j in range(len(f['mods'])):
                c = clone()
                del c['files'][i]['mods'][j]
                yield c
        for j, m in enumerate(f['mods']):
            for k in range(len(m['kws'])):
                c = clone()
                del c['files'][i]['mods'][j]['kws'][k]
                yield c
                if m['kws'][k][1][0] == 'param':
                    for q in range(len(m['kws'][k][1][2])):
                        c = clone()
                        del c['files'][i]['mods'][j]['kws'][k][1][2][q]
                        yield c
