"""C12 -- client cache and callbacks mirror the node: implementation driver, case encoder, direct oracle.

Three kinds of cases:
  'msgs': a generated description + a history of {received line, register, unregister} run through the real
          SecopClient receive loop (real __rxthread called synchronously on a scripted connection object)
  'e2e' : values written / read through a real SecopClient <-> TCPServer <-> Dispatcher <-> Module with a
          recording fake driver on loopback, see harness/c12_e2e.py
  'conc': callers of setParameter / readParameter / getParameter concurrent with the real receive and transmit threads
          under the deterministic scheduler harness/dsched.py with a scripted peer, see harness/c12_conc.py
"""
import base64
import json
import math
import random
import re

from harness import gal

ID = 'C12'
MODEL_TARGETS = ['theories/C12/Run.vo']
PROOF_TARGETS = ['theories/C12/Properties.vo']
PROPERTIES_V = 'theories/C12/Properties.v'
IMPORTS = 'Require Import FV.Gen.C12 FV.C12.Model FV.C12.ConcModel FV.C12.ReModel FV.C12.Run.'
CASE_TYPE = 'case'
CHECK = 'check_case'
SHARD_SIZE = 300
RULE = ('msgs: random descriptions (1-3 modules incl. one named "None" sometimes, parameters of every SECoP datatype '
        'with nested array/tuple/struct, commands, custom "_x" names, predefined names) x histories of 3-14 ops '
        '{received line | register | unregister} where lines are update/reply/changed/error_update/error_read/other '
        'for known, shorthand, unknown, command and missing identifiers with well-formed data (valid wire values from '
        'the specification-side value set of the datatype, timestamps past/now/future/NaN/inf/absent) or malformed data '
        '(bad JSON, non-array, short array, qualifiers not an object, non-numeric t, rejected payload, bad error '
        'report), callbacks of the three kinds at node/module/parameter level returning, raising UnregisterCallback or '
        'raising an exception at scripted invocation numbers, plus all op sequences of length <= 2 (thorough: 3) over an '
        '14-letter alphabet (incl. too short reports, qualifiers that are no object, data that is no array) on a fixed '
        'description; e2e: every datatype x valid values written through '
        'SecopClient.setParameter / read through readParameter against a real node over loopback TCP whose datatypes are '
        'built with the constructors of frappy.datatypes (the client rebuilds them from the description), incl. structs '
        'with optional members and one all-optional struct per node, written completely and partially (optional members '
        'left out: the members passed reach the driver, the others keep their value) (the Proxy '
        'node variant of the design is not implemented); conc: one real SecopClient (rx/tx threads, fake AsynConn) with 1-3 '
        'caller threads each doing 1-2 calls of setParameter / readParameter / getParameter (mostly on one parameter), '
        'recording callbacks at node/module/parameter level, a peer script (answer the j-th outstanding request with a value '
        'or an error report, unsolicited update / error_update lines for the same and other parameters, junk lines; '
        'timestamps relative to the virtual clock) and a thread schedule at synchronisation-point granularity incl. the '
        'entry of updateValue (seeded random, sticky random, every single preemption point of four fixed scenarios, pairs); '
        'every run is a real multi-thread execution, replayable from its decision list; re: histories of accepted update '
        'lines / register / unregister on a fixed description (3 parameters in 2 modules) with a program per callback '
        'function (per invocation: 0-2 register/unregister calls on the same or another list, then return / '
        'UnregisterCallback / exception; a callback registers only callbacks with a higher id so that the lists grow at most '
        'polynomially), plus the hand-over family (one-shot callback registers its successor on the same or '
        'another key, a callback registers itself again, a callback unregisters another one); a run is cut after 3000 '
        'invocations (reported as raised).  Non-trivial: at least one '
        'accepted message (msgs) / one completed write (e2e) / one returned call (conc) / one dispatched callback (re); '
        'distinct = distinct (description, ops, behaviours) / (datainfo, value, driver result) / (callers, peer, executed steps)')
ASSUMPTIONS = [
    'module names and accessible names of a description contain no colon and give distinct internal names per module '
    '(a description with "_x" and "x" in one module makes two wire parameters share one cache key: outside the property)',
    're: callbacks call back into the client only with register_callback / unregister_callback, from invocations made by '
    'the dispatch of a message (immediate invocations made by a registration and handleError invocations only return or '
    'raise); a callback that some callback unregisters from inside is not registered from inside a callback (an inner '
    'unregister_callback that leaves the dispatched list empty pops the dict entry, the dispatch then holds an orphaned list '
    'and a re-registered callback raising UnregisterCallback stays registered: observation in notes/C12.md); msgs / conc: '
    'callbacks do not call back into the client',
    'datatype.import_value/export_value enter the model as tables computed by a specification-side importer/exporter '
    'written from the SECoP datatype definitions (harness/props/C12.py spec_import/spec_export); payloads whose '
    'acceptance the specification leaves open (bool for a number, wrong tuple length, ...) are not generated',
    'json.loads and the python re engine are runtime: the JSON structure and the groups of FRAPPY_ERROR.match are data of the case',
    'time.time() of frappy.client is a scripted clock with values k/1024 s; finite timestamps in messages are k/1024 s',
    'the request matching / unhandledMessage part of the receive loop belongs to C11 and is not observed in msgs cases',
    'conc: threads are interleaved at synchronisation points (Queue put/get/empty, Event set/wait, Lock acquire, '
    'connection send/recv) and at the entry of SecopClient.updateValue (added by the harness subclass); preemption '
    'between two bytecodes of a region without such a point is not explored',
    'conc: the peer answers only requests it received, each once, with the reply action of the SECoP table and the '
    'identifier of the request, a payload that is a valid wire value of the datatype and an object as qualifiers (a '
    'reply whose import fails releases nobody: time-outs belong to C11); unsolicited lines are update / error_update '
    'with valid payloads for described parameters, or junk that fails before updateValue is called; callbacks return '
    'normally and do not block; no connection loss, no time-outs (every request is answered)',
]

UPDATE_ACTIONS = {'update': 'AUpdate', 'reply': 'AReply', 'changed': 'AChanged',
                  'error_update': 'AErrUpdate', 'error_read': 'AErrRead'}
FRAPPY_ERROR = re.compile(r'(\w*): (.*)$')      # pinned copy of frappy/errors.py FRAPPY_ERROR (translator checks the source)
PREDEFINED = ['value', 'status', 'target', 'pollinterval', 'ramp', 'use_ramp', 'setpoint', 'time_to_target',
              'controlled_by', 'control_active', 'unit', 'loglevel', 'mode', 'ctrlpars', 'stop', 'reset', 'go',
              'abort', 'shutdown', 'communicate']
# SECoP error names -> frappy class (frappy/errors.py; the translator regenerates the same table for the model)
ERROR_NAMES = {
    'InternalError': 'InternalError', 'ProtocolError': 'ProtocolError', 'NoSuchModule': 'NoSuchModuleError',
    'NotImplemented': 'NotImplementedSECoPError', 'NoSuchParameter': 'NoSuchParameterError',
    'NoSuchCommand': 'NoSuchCommandError', 'ReadOnly': 'ReadOnlyError', 'RangeError': 'RangeError',
    'BadJSON': 'BadJSONError', 'WrongType': 'WrongTypeError', 'CommandFailed': 'CommandFailedError',
    'CommandRunning': 'CommandRunningError', 'CommunicationFailed': 'CommunicationFailedError',
    'IsBusy': 'IsBusyError', 'IsError': 'IsErrorError', 'Disabled': 'DisabledError', 'Impossible': 'ImpossibleError',
    'ReadFailed': 'ReadFailedError', 'OutOfRange': 'OutOfRangeError', 'HardwareError': 'HardwareError',
    'TimeoutError': 'TimeoutSECoPError', 'SyntaxError': 'ProtocolError', 'Protocol': 'ProtocolError',
    'Internal': 'InternalError',
}
ERROR_CLASSES = sorted(set(ERROR_NAMES.values()) | {'ProgrammingError', 'ConfigError', 'BadValueError',
                                                    'SilentCommunicationFailedError'})
TICK = 1024


# =================================================================== specification side datatypes
class Reject(Exception):
    """the specification says this payload is no value of the datatype"""


class Unclear(Exception):
    """the specification leaves open whether a lenient importer accepts this"""


def spec_import(di, j):
    """SECoP wire JSON -> canonical value ['f',hex] ['i',n] ['b',b] ['e',name,n] ['s',s] ['y',hex] ['t',[..]] ['d',[[k,v]..]]"""
    t = di['type']
    if t == 'double':
        if isinstance(j, bool):
            raise Unclear
        if isinstance(j, (int, float)):
            if isinstance(j, float) and (math.isnan(j) or math.isinf(j)):
                raise Unclear
            return ['f', float(j).hex()]
        raise Reject
    if t == 'int':
        if isinstance(j, bool):
            raise Unclear
        if isinstance(j, int):
            return ['i', j]
        if isinstance(j, float):
            if j != j or j in (float('inf'), float('-inf')) or j == int(j):
                raise Unclear
            raise Reject
        raise Reject
    if t == 'scaled':
        if isinstance(j, int) and not isinstance(j, bool):
            return ['f', (di['scale'] * j).hex()]
        if j is None or isinstance(j, (list, dict)):
            raise Reject
        raise Unclear
    if t == 'bool':
        if isinstance(j, bool):
            return ['b', j]
        if isinstance(j, (int, float)):
            if j in (0, 1):
                raise Unclear
            raise Reject
        raise Reject
    if t == 'enum':
        if isinstance(j, bool) or isinstance(j, (float, str)):
            raise Unclear
        if isinstance(j, int):
            for name, val in di['members'].items():
                if val == j:
                    return ['e', name, j]
            raise Reject
        raise Reject
    if t == 'string':
        if not isinstance(j, str):
            raise Reject
        ok = len(j) >= di.get('minchars', 0) and (di.get('maxchars') is None or len(j) <= di['maxchars']) \
            and '\0' not in j and (di.get('isUTF8', False) or j.isascii())
        if not ok:
            raise Unclear
        return ['s', j]
    if t == 'blob':
        if isinstance(j, str):
            try:
                b = base64.b64decode(j, validate=True)
            except Exception:
                raise Unclear from None
            return ['y', b.hex()]
        raise Reject
    if t == 'array':
        if isinstance(j, list):
            if not di.get('minlen', 0) <= len(j) <= di['maxlen']:
                raise Unclear
            return ['t', [spec_import(di['members'], x) for x in j]]
        if isinstance(j, (str, dict)):
            raise Unclear
        raise Reject
    if t == 'tuple':
        if isinstance(j, list):
            if len(j) != len(di['members']):
                raise Unclear
            return ['t', [spec_import(m, x) for m, x in zip(di['members'], j)]]
        if isinstance(j, (str, dict)):
            raise Unclear
        raise Reject
    if t == 'struct':
        if isinstance(j, dict):
            members = di['members']
            optional = di.get('optional', [])
            if set(j) - set(members):
                raise Reject
            if (set(members) - set(optional)) - set(j):
                if 'optional' not in di:
                    raise Unclear         # frappy reads a missing "optional" key as "all optional" (C03's business)
                raise Reject
            if any(v is None for v in j.values()):
                raise Unclear
            return ['d', sorted([k, spec_import(members[k], v)] for k, v in j.items())]
        if j is None or (isinstance(j, (int, float)) and not isinstance(j, bool)):
            raise Reject
        raise Unclear
    raise Unclear


def spec_export(di, c):
    """canonical value -> SECoP wire JSON"""
    t = di['type']
    if t == 'double':
        return float.fromhex(c[1])
    if t == 'int':
        return c[1]
    if t == 'scaled':
        return int(round(float.fromhex(c[1]) / di['scale']))
    if t == 'bool':
        return c[1]
    if t == 'enum':
        return c[2]
    if t == 'string':
        return c[1]
    if t == 'blob':
        return base64.b64encode(bytes.fromhex(c[1])).decode('ascii')
    if t == 'array':
        return [spec_export(di['members'], x) for x in c[1]]
    if t == 'tuple':
        return [spec_export(m, x) for m, x in zip(di['members'], c[1])]
    if t == 'struct':
        return {k: spec_export(di['members'][k], v) for k, v in c[1]}
    raise ValueError(t)


def to_python(c):
    """canonical value -> a python object a caller would pass / a driver would return"""
    k = c[0]
    if k == 'f':
        return float.fromhex(c[1])
    if k in ('i', 'b', 's'):
        return c[1]
    if k == 'e':
        return c[2]
    if k == 'y':
        return bytes.fromhex(c[1])
    if k == 't':
        return tuple(to_python(x) for x in c[1])
    if k == 'd':
        return {kk: to_python(v) for kk, v in c[1]}
    raise ValueError(c)


def canon(v):
    """python object (as found in the cache / received by the driver) -> canonical value"""
    if v is None:
        return ['n']
    if isinstance(v, bool):
        return ['b', v]
    if type(v).__name__ == 'EnumMember':
        return ['e', v.name, int(v.value)]
    if isinstance(v, int):
        return ['i', int(v)]
    if isinstance(v, float):
        return ['f', v.hex()]
    if isinstance(v, str):
        return ['s', v]
    if isinstance(v, (bytes, bytearray)):
        return ['y', bytes(v).hex()]
    if isinstance(v, (tuple, list)):
        return ['t', [canon(x) for x in v]]
    if isinstance(v, dict):
        return ['d', sorted([str(k), canon(x)] for k, x in v.items())]
    return ['o', type(v).__name__]


# ------------------------------------------------------------------ generators of datainfo / wire values
def gen_datainfo(rng, depth=2):
    kinds = ['double', 'int', 'scaled', 'bool', 'enum', 'string', 'blob']
    if depth > 0:
        kinds += ['array', 'tuple', 'struct']
    t = rng.choice(kinds)
    if t == 'double':
        di = {'type': 'double'}
        if rng.random() < 0.4:
            di['min'], di['max'] = -100.0, 100.0
        if rng.random() < 0.3:
            di['unit'] = 'K'
        return di
    if t == 'int':
        if rng.random() < 0.25:    # 64 bit counters: integers beyond 2**53 are not exactly representable as floats
            return {'type': 'int', 'min': rng.choice([0, -(1 << 63)]), 'max': rng.choice([(1 << 63) - 1, 1 << 64])}
        lo = rng.choice([-5, 0, -1000000])
        return {'type': 'int', 'min': lo, 'max': lo + rng.choice([3, 10, 2000000])}
    if t == 'scaled':
        return {'type': 'scaled', 'scale': rng.choice([0.5, 0.25, 0.1, 0.01, 2.0]), 'min': -1000, 'max': 1000}
    if t == 'bool':
        return {'type': 'bool'}
    if t == 'enum':
        names = rng.sample(['off', 'on', 'idle', 'busy', 'err', 'x'], rng.randint(1, 4))
        vals = rng.sample(range(0, 12), len(names))
        return {'type': 'enum', 'members': dict(zip(names, vals))}
    if t == 'string':
        di = {'type': 'string'}
        if rng.random() < 0.5:
            di['maxchars'] = rng.choice([3, 8, 40])
        if rng.random() < 0.5:
            di['isUTF8'] = True
        return di
    if t == 'blob':
        return {'type': 'blob', 'maxbytes': rng.choice([4, 16]), 'minbytes': 0}
    if t == 'array':
        return {'type': 'array', 'members': gen_datainfo(rng, depth - 1), 'maxlen': rng.choice([2, 4]), 'minlen': 0}
    if t == 'tuple':
        return {'type': 'tuple', 'members': [gen_datainfo(rng, depth - 1) for _ in range(rng.randint(1, 3))]}
    names = rng.sample(['a', 'b', 'c', 'd'], rng.randint(1, 3))
    di = {'type': 'struct', 'members': {n: gen_datainfo(rng, depth - 1) for n in names}}
    opt = [n for n in names if rng.random() < 0.3]
    if opt or rng.random() < 0.7:
        di['optional'] = opt
    return di


def gen_wire(di, rng):
    """a valid wire value from the value set of the datatype"""
    t = di['type']
    if t == 'double':
        lo, hi = di.get('min', -1e300), di.get('max', 1e300)
        c = [0.0, -1.5, 3.141592653589793, 1e-300, 99.99999, 7, -3, rng.uniform(-50, 50), 1e10, -2.5e22]
        c = [x for x in c if lo <= x <= hi]
        return rng.choice(c)
    if t == 'int':
        c = [di['min'], di['max'], rng.randint(di['min'], di['max'])]
        if di['max'] > (1 << 53):
            c += [x for x in ((1 << 53) + 1, (1 << 53) + 3, (1 << 62) + 1, (1 << 63) - 1, (1 << 64) - 1, -(1 << 53) - 1)
                  if di['min'] <= x <= di['max']]
        return rng.choice(c)
    if t == 'scaled':
        return rng.choice([di['min'], di['max'], 0, rng.randint(di['min'], di['max'])])
    if t == 'bool':
        return rng.random() < 0.5
    if t == 'enum':
        return rng.choice(list(di['members'].values()))
    if t == 'string':
        n = rng.randint(di.get('minchars', 0), min(di.get('maxchars') or 12, 12))
        alpha = 'abcXYZ 09_:-"\\' + ('é€中' if di.get('isUTF8') else '')
        return ''.join(rng.choice(alpha) for _ in range(n))
    if t == 'blob':
        n = rng.randint(di.get('minbytes', 0), di['maxbytes'])
        return base64.b64encode(bytes(rng.randrange(256) for _ in range(n))).decode('ascii')
    if t == 'array':
        return [gen_wire(di['members'], rng) for _ in range(rng.randint(di.get('minlen', 0), di['maxlen']))]
    if t == 'tuple':
        return [gen_wire(m, rng) for m in di['members']]
    opt = di.get('optional', [])
    return {k: gen_wire(m, rng) for k, m in di['members'].items() if k not in opt or rng.random() < 0.6}


def gen_bad_wire(di, rng):
    """a payload the specification rejects for this datatype (None if no candidate)"""
    cands = [None, 'x', [1], {'q': 1}, 1.5, 99, 'zz', [], {}]
    if di['type'] == 'struct':
        good = gen_wire(di, rng)
        cands.append(dict(good, zzz=1))
        mand = [k for k in di['members'] if k not in di.get('optional', [])]
        if mand:
            g2 = dict(good)
            g2.pop(rng.choice(mand), None)
            cands.append(g2)
    if di['type'] == 'array' and di['maxlen'] >= 1:
        b = gen_bad_wire(di['members'], rng)
        if b is not _NOCAND:
            cands.append([b])
    rng.shuffle(cands)
    for c in cands:
        try:
            spec_import(di, c)
        except Reject:
            return c
        except Unclear:
            continue
    return _NOCAND


_NOCAND = object()


# =================================================================== specification side message reading
def internal_name(aname):
    """the client's internal name of a wire accessible name (custom names lose their underscore)"""
    if aname.startswith('_') and aname[1:] not in PREDEFINED:
        return aname[1:]
    return aname


def split_line(line):
    """(action, identifier or None, data text or None) of a received line"""
    parts = line.strip().split(' ', 2) + ['', '']
    action, ident, data = parts[0:3]
    if ident in ('', '.'):
        ident = None
    return action, ident, (None if data == '' else data)


def load_json(text):
    """(ok, value): python json.loads (accepts NaN/Infinity literals as python's json does)"""
    try:
        return True, json.loads(text)
    except Exception:
        return False, None


def tclass(x):
    """class of a 't' qualifier value: ('abs',) ('fin', ticks) ('pinf',) ('ninf',) ('nan',) ('bad',)"""
    if isinstance(x, bool):
        return ('fin', int(x) * TICK)
    if isinstance(x, int):
        return ('fin', x * TICK)
    if isinstance(x, float):
        if math.isnan(x):
            return ('nan',)
        if math.isinf(x):
            return ('pinf',) if x > 0 else ('ninf',)
        k = x * TICK
        if k != int(k):
            raise ValueError(f'timestamp {x!r} is not a multiple of 1/{TICK}')
        return ('fin', int(k))
    return ('bad',)


def spec_resolve(desc, action, ident):
    """which parameter a message is about: (module, internal name) | None.  desc: [[mod, [[aname, kind, dtidx]..]]..]"""
    if ident is None:
        return None
    if ':' in ident:
        mod, aname = ident.split(':', 1)
    else:
        mod, aname = ident, ('target' if action == 'changed' else 'value')
    for m, accs in desc:
        if m == mod:
            for a, kind, dt in accs:
                if a == aname:
                    return (m, internal_name(a), kind, dt)
    return None


def spec_message(case, line, now):
    """what the property says a received line means: ('skip', why) | ('upd', (m, p), entry) | ('malformed', why)
    entry = [canonical value or None, timestamp class, [error class, text] or None]"""
    action, ident, dtext = split_line(line)
    if dtext is not None:
        ok, data = load_json(dtext)
        if not ok:
            return ('malformed', 'bad json')
    else:
        data = None
    if action not in UPDATE_ACTIONS:
        return ('skip', 'no update message')
    r = spec_resolve(case['desc'], action, ident)
    if r is None:
        return ('skip', 'no identifier' if ident is None else 'unknown identifier')
    m, p, kind, dt = r
    if kind != 'p':
        return ('malformed', 'identifier names a command')
    if not isinstance(data, list):
        return ('malformed', 'data is no array')
    iserr = action.startswith('error_')
    qpos = 2 if iserr else 1
    if len(data) <= qpos or not isinstance(data[qpos], dict):
        return ('malformed', 'qualifiers missing or no object')
    if 't' in data[qpos]:
        tc = tclass(data[qpos]['t'])
        if tc[0] == 'bad':
            return ('malformed', 'timestamp is no number')
    else:
        tc = ('abs',)
    # timestamp: the one of the message, never in the future
    if tc[0] in ('abs', 'pinf', 'nan'):
        ts = ('fin', now)
    elif tc[0] == 'ninf':
        ts = ('ninf',)
    else:
        ts = ('fin', min(tc[1], now))
    if iserr:
        name, text = data[0], data[1]
        if not isinstance(text, str):
            return ('malformed', 'bad error report')
        if not isinstance(name, str):
            return ('unclear', 'error name is no string')
        mt = FRAPPY_ERROR.match(text)
        if mt and mt.group(1) in ERROR_CLASSES:
            err = [mt.group(1), mt.group(2)]
        else:
            err = [ERROR_NAMES.get(name, 'InternalError') if isinstance(name, str) else 'InternalError', text]
        return ('upd', (m, p), [None, list(ts), err])
    try:
        val = spec_import(case['dts'][dt], data[0])
    except Reject:
        return ('malformed', 'payload is no value of the datatype')
    except Unclear:
        return ('unclear', 'payload acceptance is left open')
    return ('upd', (m, p), [val, list(ts), None])


# =================================================================== implementation driver: msgs
def keyrepr(key):
    return None if key is None else key if isinstance(key, str) else list(key)


def pykey(key):
    return None if key is None else key if isinstance(key, str) else tuple(key)


def canon_ts(ts):
    if isinstance(ts, (int, float)):
        try:
            return list(tclass(ts))
        except ValueError:
            pass
    return ['bad', repr(ts)]


def canon_err(e):
    if e is None:
        return None
    if len(e.args) == 1 and isinstance(e.args[0], str):
        return [type(e).__name__, e.args[0]]
    return [type(e).__name__, repr(e.args)]


def description_json(case):
    mods = {}
    for m, accs in case['desc']:
        mods[m] = {'accessibles': {a: {'datainfo': ({'type': 'command'} if kind == 'c' else case['dts'][dt]),
                                        'description': a} for a, kind, dt in accs},
                   'description': m}
    return {'modules': mods, 'equipment_id': 'gen', 'description': 'generated'}


def run_msgs(case):
    import frappy.client as fc
    from frappy.lib.asynconn import ConnectionClosed

    invs = []
    st = {'n': 0, 'op': 0}
    beh = {int(k): v for k, v in case['beh']}
    marks = []
    snaps = []
    excs = []

    def behave():
        n = st['n']
        st['n'] += 1
        b = beh.get(n)
        if b == 'U':
            raise fc.UnregisterCallback()
        if b == 'E':
            raise ValueError('scripted')

    class Client(fc.SecopClient):
        activate = False

        def handleError(self, exc):
            invs.append(['err', 0])
            super().handleError(exc)
            behave()

    funcs = {}

    def site(cbid, cbname, key):
        k = (cbid, cbname, json.dumps(keyrepr(key)))
        if k not in funcs:
            kr = keyrepr(key)
            if cbname == 'updateItem':
                def f(module, parameter, item):
                    invs.append(['upd', cbid, cbname, kr, module, parameter,
                                 [None if item.readerror else canon(item.value), canon_ts(item.timestamp),
                                  canon_err(item.readerror)]])
                    behave()
            elif cbname == 'updateEvent':
                def f(module, parameter, value, timestamp, readerror):
                    invs.append(['upd', cbid, cbname, kr, module, parameter,
                                 [None if readerror else canon(value), canon_ts(timestamp), canon_err(readerror)]])
                    behave()
            else:
                def f(exc):
                    invs.append(['err', cbid])
                    behave()
            f.verif_id = cbid
            funcs[k] = f
        return funcs[k]

    def snapshot():
        return [[m, p, [None if it.readerror else canon(it.value), canon_ts(it.timestamp), canon_err(it.readerror)]]
                for (m, p), it in client.cache.items()]

    ops = case['ops']

    class IO:
        def readline(self, timeout=None):
            # the previous op (a line) is finished now
            while True:
                if st['op'] > 0:
                    snaps.append(snapshot())
                i = st['op']
                if i >= len(ops):
                    raise ConnectionClosed()
                st['op'] += 1
                marks.append(len(invs))
                op = ops[i]
                if op[0] == 'msg':
                    Clock.now = op[2] / TICK
                    return op[1].encode('utf-8')
                try:
                    if op[0] == 'reg':
                        client.register_callback(pykey(op[1]), **{op[2]: site(op[3], op[2], pykey(op[1]))})
                    else:
                        client.unregister_callback(pykey(op[1]), **{op[2]: site(op[3], op[2], pykey(op[1]))})
                except Exception as e:
                    excs.append([i, type(e).__name__ + ': ' + str(e)[:200]])

        def shutdown(self):
            pass

        def disconnect(self):
            pass

        def send(self, line):
            pass

    class Clock:
        now = 0.0

        @classmethod
        def time(cls):
            return cls.now

    client = Client('fake:0', log=None)
    orig_time = fc.time
    fc.time = Clock
    try:
        client._init_descriptive_data(description_json(case))
        client.io = IO()
        client._running = True
        try:
            client._SecopClient__rxthread()
        except Exception as e:
            excs.append([st['op'] - 1, 'rxthread: ' + type(e).__name__ + ': ' + str(e)[:200]])
        marks.append(len(invs))
        lists = []
        seen = set()
        for op in ops:
            if op[0] in ('reg', 'unreg'):
                k = (op[2], json.dumps(op[1]))
                if k not in seen:
                    seen.add(k)
                    lst = client.callbacks[op[2]].get(pykey(op[1]), [])
                    lists.append([op[2], op[1], [getattr(f, 'verif_id', 0) for f in lst]])
        if ('handleError', 'null') not in seen:
            lists.append(['handleError', None,
                          [getattr(f, 'verif_id', 0) for f in client.callbacks['handleError'].get(None, [])]])
        return {'invs': invs, 'marks': marks, 'snaps': snaps, 'excs': excs, 'lists': lists,
                'consumed': st['op'], 'cache': snapshot()}
    finally:
        fc.time = orig_time
        try:
            client.callbacks.clear()
        except Exception:
            pass


def _re():
    from harness import c12_re
    return c12_re


def run_case(case):
    if case['kind'] == 'msgs':
        return run_msgs(case)
    if case['kind'] == 're':
        return _re().run_re(case)
    if case['kind'] == 'conc':
        from harness import c12_conc
        return c12_conc.run_conc(case)
    from harness import c12_e2e
    return c12_e2e.run_e2e(case)


# =================================================================== encoding into Gallina
def enc_tnum(tc):
    k = tc[0]
    if k == 'fin':
        return f'(TFin {gal.z(tc[1])})'
    return {'pinf': 'TPInf', 'ninf': 'TNInf', 'nan': 'TNaN'}[k]


def enc_tq_of(d):
    if 't' not in d:
        return 'TAbsent'
    tc = tclass(d['t'])
    if tc[0] == 'bad':
        return 'TBad'
    return f'(TNum {enc_tnum(tc)})'


class Tables:
    def __init__(self):
        self.payloads = {}
        self.values = {}

    def payload(self, j):
        k = json.dumps(j, sort_keys=True)
        return self.payloads.setdefault(k, len(self.payloads))

    def value(self, c):
        k = json.dumps(c, sort_keys=True)
        return self.values.setdefault(k, len(self.values))

    def member(self, name):
        if not hasattr(self, 'members'):
            self.members = {}
        return self.members.setdefault(name, len(self.members))


def enc_item(x, T):
    pid = gal.nat(T.payload(x))
    if isinstance(x, dict):
        kind = f'(IKDict {enc_tq_of(x)})'
    elif isinstance(x, str):
        m = FRAPPY_ERROR.match(x)
        grp = 'None' if not m else f'(Some ({gal.string(m.group(1))}, {gal.string(m.group(2))}))'
        kind = f'(IKStr {gal.string(x)} {grp})'
    elif isinstance(x, list):
        kind = 'IKList'
    else:
        kind = 'IKHashable'
    return f'{{| i_payload := {pid}; i_kind := {kind} |}}'


def enc_msg(line, T):
    action, ident, dtext = split_line(line)
    if dtext is None:
        data = 'DNotList'
        val = None
    else:
        ok, val = load_json(dtext)
        if not ok:
            data = 'DBadJson'
        elif isinstance(val, list):
            data = '(DList [' + '; '.join(enc_item(x, T) for x in val) + '])'
        else:
            data = 'DNotList'
    return ('{| m_action := %s; m_ident := %s; m_data := %s |}' % (
        UPDATE_ACTIONS.get(action, 'AOther'), gal.option(ident, gal.string), data)), val


def enc_ckey(key):
    if key is None:
        return 'KNode'
    if isinstance(key, str):
        return f'(KMod {gal.string(key)})'
    return f'(KPar {gal.string(key[0])} {gal.string(key[1])})'


CBN = {'updateItem': 'CItem', 'updateEvent': 'CEvent', 'handleError': 'CHErr'}


def enc_entry(e, T):
    v, ts, err = e
    if ts[0] == 'bad':
        raise ValueError('non-numeric timestamp in the cache: ' + ts[1])
    return '(%s, %s, %s)' % (gal.option(v, lambda c: gal.nat(T.value(c))), enc_tnum(ts),
                             gal.option(err, lambda p: f'({gal.string(p[0])}, {gal.string(p[1])})'))


def encode_msgs(case, obs):
    if obs['excs']:
        raise ValueError('implementation raised: ' + obs['excs'][0][1])
    T = Tables()
    d = '[' + '; '.join(
        '(%s, [%s])' % (gal.string(m), '; '.join(
            '{| a_name := %s; a_cmd := %s; a_dt := %s |}' % (gal.string(a), gal.boolean(kind == 'c'), gal.nat(dt))
            for a, kind, dt in accs)) for m, accs in case['desc']) + ']'
    ops = []
    first_payloads = []
    for op in case['ops']:
        if op[0] == 'msg':
            term, val = enc_msg(op[1], T)
            ops.append(f'(ORecv {term} {gal.z(op[2])})')
            if isinstance(val, list) and val:
                first_payloads.append(val[0])
        else:
            ops.append('(%s %s %s %s)' % ('OReg' if op[0] == 'reg' else 'OUnreg', enc_ckey(op[1]), CBN[op[2]],
                                         gal.nat(op[3])))
    imp = []
    done = set()
    for j in first_payloads:
        pid = T.payload(j)
        for dt, di in enumerate(case['dts']):
            if (dt, pid) in done:
                continue
            done.add((dt, pid))
            try:
                c = spec_import(di, j)
                imp.append(f'({gal.nat(dt)}, {gal.nat(pid)}, Some {gal.nat(T.value(c))})')
            except Reject:
                imp.append(f'({gal.nat(dt)}, {gal.nat(pid)}, None)')
            except Unclear:
                pass
    bh = '[' + '; '.join(f'({gal.nat(int(n))}, {"BUnreg" if b == "U" else "BExc"})' for n, b in case['beh']) + ']'
    cache = '[' + '; '.join(f'(({gal.string(m)}, {gal.string(p)}), {enc_entry(e, T)})' for m, p, e in obs['cache']) + ']'
    log = []
    for i in obs['invs']:
        if i[0] == 'err':
            log.append(f'(InvErr {gal.nat(i[1])})')
        else:
            log.append('(InvUpd %s %s (%s, %s) %s)' % (gal.nat(i[1]), CBN[i[2]], gal.string(i[4]), gal.string(i[5]),
                                                      enc_entry(i[6], T)))
    lists = '[' + '; '.join('(%s, %s, %s)' % (CBN[cn], enc_ckey(k), gal.lst(l, gal.nat)) for cn, k, l in obs['lists']) + ']'
    return 'CMsgs %s [%s] %s [%s] %s [%s] %s' % (d, '; '.join(imp), bh, '; '.join(ops), cache, '; '.join(log), lists)


def encode(case, obs):
    if case['kind'] == 'msgs':
        return '(' + encode_msgs(case, obs) + ')'
    if case['kind'] == 're':
        return '(' + _re().encode_re(case, obs) + ')'
    if case['kind'] == 'conc':
        from harness import c12_conc
        return '(' + c12_conc.encode_conc(case, obs) + ')'
    from harness import c12_e2e
    return '(' + c12_e2e.encode_e2e(case, obs) + ')'


def model_result_term(case, obs):
    if case['kind'] == 're':
        return f'model_re {encode(case, obs)}'
    if case['kind'] == 'conc':
        return f'(model_conc {encode(case, obs)}, model_result {encode(case, obs)})'
    return f'model_result {encode(case, obs)}'


# =================================================================== direct oracle (the property on the observations)
def oracle_msgs(case, obs):
    fails = []

    def fail(cls, what, **kw):
        fails.append(dict({'class': cls, 'what': what}, **kw))

    for i, e in obs['excs']:
        fail('raised', f'op {i}: {e}')
    if obs['consumed'] < len(case['ops']) or len(obs['snaps']) < len(case['ops']):
        fail('processing-stopped', f'the receive loop ended after {obs["consumed"]} of {len(case["ops"])} ops')
        return fails
    beh = {int(k): v for k, v in case['beh']}
    expected = {}                # (m, p) -> entry
    registered = {}              # (cbname, keyjson) -> [cbid]
    invs, marks = obs['invs'], obs['marks']
    for idx, op in enumerate(case['ops']):
        seg = list(enumerate(invs[marks[idx]:marks[idx + 1]], start=marks[idx]))
        upd = [(n, i) for n, i in seg if i[0] == 'upd']
        snap = {(m, p): e for m, p, e in obs['snaps'][idx]}
        if op[0] == 'unreg':
            lst = registered.get((op[2], json.dumps(op[1])), [])
            if op[3] in lst:
                lst.remove(op[3])
            if upd:
                fail('callback-count', f'op {idx}: unregister invoked update callbacks')
        elif op[0] == 'reg':
            site_ok = True
            for n, i in upd:
                if (i[1], i[2], i[3]) != (op[3], op[2], op[1]):
                    fail('callback-count', f'op {idx}: registering invoked another callback {i[1:4]}')
                elif expected.get((i[4], i[5])) != i[6]:
                    fail('register-mirror', f'op {idx}: callback registered for {op[1]} was called with {i[4:]}, '
                                            f'cache has {expected.get((i[4], i[5]))}')
                elif not (op[1] is None or op[1] == i[4] or op[1] == [i[4], i[5]]):
                    fail('register-mirror', f'op {idx}: callback registered for {op[1]} was called for {i[4:6]}')
                if beh.get(n) == 'U':
                    site_ok = False
            if site_ok:
                registered.setdefault((op[2], json.dumps(op[1])), []).append(op[3])
        else:
            line, now = op[1], op[2]
            sp = spec_message(case, line, now)
            if sp[0] == 'unclear':
                return fails          # no judgement from here on
            if sp[0] == 'upd':
                (m, p), entry = sp[1], sp[2]
                expected[(m, p)] = entry
                if entry[1][0] == 'fin' and entry[1][1] > now:
                    fail('timestamp-future', f'op {idx}: internal: expected timestamp in the future')
                want = []
                for cbname in ('updateItem', 'updateEvent'):
                    for key in (None, m, [m, p]):
                        for cbid in registered.get((cbname, json.dumps(key)), []):
                            want.append([cbid, cbname, key])
                got = [[i[1], i[2], i[3]] for n, i in upd]
                if sorted(map(json.dumps, got)) != sorted(map(json.dumps, want)):
                    fail('callback-count', f'op {idx} ({line!r}): callbacks invoked {got}, registered for it {want}')
                for n, i in upd:
                    if [i[4], i[5]] != [m, p] or i[6] != entry:
                        fail('callback-args', f'op {idx} ({line!r}): callback {i[1:4]} got {i[4:]}, message means {[m, p, entry]}')
                    ts = i[6][1]
                    if ts[0] == 'pinf' or ts[0] == 'nan' or (ts[0] == 'fin' and ts[1] > now):
                        fail('timestamp-future', f'op {idx}: callback saw timestamp {ts} at time {now}')
            else:
                if upd:
                    action, ident, _ = split_line(line)
                    if ident is None and action in UPDATE_ACTIONS:
                        fail('unaddressed-accepted', f'op {idx}: line {line!r} carries no identifier but callbacks were '
                                                     f'invoked for {upd[0][1][4:6]}', module=upd[0][1][4])
                    else:
                        fail('malformed-not-skipped', f'op {idx}: line {line!r} ({sp[1]}) invoked update callbacks')
            # one-shot callbacks leave
            for n, i in upd:
                if beh.get(n) == 'U':
                    lst = registered.get((i[2], json.dumps(i[3])), [])
                    if i[1] in lst:
                        lst.remove(i[1])
        # the cache mirrors the last message per parameter after every op
        if snap != expected:
            keys = sorted(set(snap) | set(expected))
            bad = [k for k in keys if snap.get(k) != expected.get(k)]
            k = bad[0]
            action, ident, _ = split_line(op[1]) if op[0] == 'msg' else (None, 'x', None)
            if op[0] == 'msg' and ident is None and action in UPDATE_ACTIONS:
                fail('unaddressed-accepted', f'op {idx}: line {op[1]!r} carries no identifier but the cache entry of '
                                             f'{k} became {snap.get(k)}', module=k[0])
            else:
                fail('cache-mismatch', f'after op {idx} ({op}): cache[{k}] = {snap.get(k)}, last message for it means '
                                       f'{expected.get(k)}')
            expected = dict(snap)           # resynchronise: report each deviation once
        for k, e in snap.items():
            ts = e[1]
            now = max([o[2] for o in case['ops'][:idx + 1] if o[0] == 'msg'], default=None)
            if now is not None and (ts[0] in ('pinf', 'nan', 'bad') or (ts[0] == 'fin' and ts[1] > now)):
                fail('timestamp-future', f'after op {idx}: cache[{k}] has timestamp {ts} at time {now}')
    return fails


def oracle(case, obs):
    if case['kind'] == 'msgs':
        return oracle_msgs(case, obs)
    if case['kind'] == 're':
        return _re().oracle_re(case, obs)
    if case['kind'] == 'conc':
        from harness import c12_conc
        return c12_conc.oracle_conc(case, obs)
    from harness import c12_e2e
    return c12_e2e.oracle_e2e(case, obs)


def _has_none_module(case):
    return case['kind'] == 'msgs' and any(m == 'None' for m, _ in case['desc'])


def _array_truncated(case, obs, f):
    """a written array longer than the parameter's previous (non-empty) value arrives cut to that length"""
    if case['kind'] != 'e2e' or f['class'] != 'e2e-driver-value':
        return False
    di = dict((p, d) for p, d in case['params'])[f['param']]
    rec, v, prev = f['received'], f['passed'], f['previous']
    if di['type'] != 'array' or len(rec) != 1 or rec[0][1][0] != 't' or prev[0] != 't':
        return False
    n = len(prev[1])
    return 0 < n < len(v[1]) and rec[0][1][1] == v[1][:n]


FINDING_CLASSIFIERS = {
    'array_write_truncated': _array_truncated,
    # (fixed in /repo by 0fe05ab) a line of an update action without identifier ("update . [..]") was looked up as
    # f'{None}:value' and landed in the module literally named "None"
    'missing_ident_module_None': lambda case, obs, f: f['class'] == 'unaddressed-accepted'
    and f.get('module') == 'None' and _has_none_module(case),
    # (fixed in /repo by 276f60f) readParameter's fallback `self.updateValue(module, parameter, None, time.time(), e)` run
    # for an error that DID come from a SECoP message, because a later line for the same parameter replaced the cache entry
    # before the released caller ran: only failures that are nothing but the effect of such a write (c12_conc.fallback_writes)
    'read_error_fallback_after_later_update': lambda case, obs, f: case['kind'] == 'conc'
    and _conc().is_read_error_fallback(case, obs, f),
    # (fixed in /repo by 4741ef2) callback A unregisters B during a dispatch, B (still in the copied list) raises
    # UnregisterCallback: `cblist.remove(B)` raised ValueError out of callback(), the remaining callbacks and levels missed
    # the message and the handleError callbacks got the ValueError
    'unregister_then_oneshot': lambda case, obs, f: case['kind'] == 're'
    and f['class'] in ('callback-count', 'handleError-unexpected') and _re().unregistered_then_oneshot(case, obs),
}


def _conc():
    from harness import c12_conc
    return c12_conc


def nontrivial_key(case, obs):
    if case['kind'] == 'msgs':
        if not obs['cache'] or obs['excs']:
            return None
        return json.dumps([case['desc'], case['dts'], case['ops'], case['beh']], sort_keys=True)
    if case['kind'] == 'conc':
        return _conc().nontrivial_key(case, obs)
    if case['kind'] == 're':
        return _re().nontrivial_key(case, obs)
    from harness import c12_e2e
    return c12_e2e.nontrivial_key(case, obs)


def outcome_labels(case, obs):
    labs = set()
    if case['kind'] == 'msgs':
        labs.add('msgs')
        for op in case['ops']:
            if op[0] == 'msg':
                try:
                    sp = spec_message(case, op[1], op[2])
                    labs.add('msg:' + sp[0] + (':' + sp[1] if sp[0] in ('skip', 'malformed') else ''))
                except Exception:
                    labs.add('msg:?')
            else:
                labs.add(op[0] + ':' + op[2])
        for i in obs['invs']:
            labs.add('inv:' + (i[2] if i[0] == 'upd' else 'handleError'))
        for n, b in case['beh']:
            if int(n) < len(obs['invs']):
                labs.add('beh:' + b)
        for _, _, e in obs['cache']:
            labs.add('cache:' + ('error' if e[2] else e[0][0]))
    elif case['kind'] == 'conc':
        labs.update(_conc().outcome_labels(case, obs))
    elif case['kind'] == 're':
        labs.update(_re().outcome_labels(case, obs))
    else:
        from harness import c12_e2e
        labs.update(c12_e2e.outcome_labels(case, obs))
    return sorted(labs)


def sample_repr(case, obs):
    if case['kind'] == 'msgs':
        return {'desc': case['desc'], 'ops': case['ops'][:8], 'beh': case['beh'], 'final_cache': obs['cache'][:4],
                'invocations': obs['invs'][:6]}
    if case['kind'] == 're':
        return {'case': case, 'events': obs['events'][:40], 'final_lists': [x for x in obs['lists'] if x[2]]}
    if case['kind'] == 'conc':
        return {'case': case, 'lines': obs['lines'][:6], 'returns': obs['returns'][:4],
                'steps': [f'{t}:{lab}' for t, lab, _ in obs['trace']][:60]}
    return {'case': case, 'observed': obs}


# =================================================================== generators
MODNAMES = ['m', 'dev', 'T1', 'None', 'cryo']
ANAMES_P = ['value', 'target', 'status', '_x', '_gain', 'ramp', '_value', 'pollinterval', '_mode']
ANAMES_C = ['stop', '_zero', 'go']


def gen_desc(rng):
    dts = [gen_datainfo(rng) for _ in range(rng.randint(2, 5))]
    nmod = rng.randint(1, 3)
    names = rng.sample(MODNAMES, nmod)
    if rng.random() < 0.25 and 'None' not in names:
        names[0] = 'None'
    desc = []
    for m in names:
        accs = []
        pn = rng.sample(ANAMES_P, rng.randint(1, 4))
        if rng.random() < 0.7 and 'value' not in pn:
            pn[0] = 'value'
        for a in pn:
            accs.append([a, 'p', rng.randrange(len(dts))])
        for a in rng.sample(ANAMES_C, rng.randint(0, 1)):
            accs.append([a, 'c', 0])
        # distinct internal names within the module
        seen = set()
        accs2 = []
        for a in accs:
            n = internal_name(a[0])
            if n not in seen:
                seen.add(n)
                accs2.append(a)
        rng.shuffle(accs2)
        desc.append([m, accs2])
    return desc, dts


def gen_t(rng, now):
    """(has_t, json text of t)"""
    r = rng.random()
    if r < 0.2:
        return None
    if r < 0.45:
        return json.dumps((now - rng.randint(1, 5000)) / TICK)
    if r < 0.55:
        return json.dumps(now / TICK)
    if r < 0.75:
        return json.dumps((now + rng.randint(1, 9000)) / TICK)
    if r < 0.80:
        return str(rng.choice([0, 1, now // TICK, now // TICK + 7]))
    if r < 0.88:
        return rng.choice(['NaN', 'Infinity', '-Infinity', 'true'])
    return rng.choice(['"5"', 'null', '[1]', '{}'])


def gen_line(rng, desc, dts, now):
    r = rng.random()
    action = rng.choice(['update'] * 5 + ['reply', 'changed', 'error_update', 'error_read'] * 2 +
                        ['error_change', 'pong', 'done', 'active', 'error_do'])
    m, accs = rng.choice(desc)
    a, kind, dt = rng.choice(accs)
    ident = f'{m}:{a}'
    r = rng.random()
    if r < 0.18:
        ident = m                                   # default accessible shorthand
        want = 'target' if action == 'changed' else 'value'
        for a2, k2, d2 in accs:
            if a2 == want:
                a, kind, dt = a2, k2, d2
    elif r < 0.24:
        ident = rng.choice(['nomod:value', f'{m}:nopar', 'nomod', f'{m}:{internal_name(a)}x', f'{m}:', ':value'])
    elif r < 0.30:
        ident = None
    # (before commit 0fe05ab the client read a missing identifier as module "None": keep the payload clear-cut for
    # that datatype too, so that a regression shows up as an oracle failure and not as an unclear payload)
    res = spec_resolve(desc, action, ident if ident is not None else 'None')
    di = dts[res[3]] if res and res[2] == 'p' else dts[dt]
    t = gen_t(rng, now)
    q = '{}' if t is None else '{"t": %s}' % t
    if rng.random() < 0.2 and t is not None:
        q = '{"t": %s, "e": 0.5}' % t
    iserr = action.startswith('error_')
    r = rng.random()
    if r < 0.72:                                     # well-formed
        if iserr:
            name = rng.choice(list(ERROR_NAMES) + ['Foo', 'Bar'])
            text = rng.choice(['oops', 'x: y', 'RangeError: too big', 'Foo: bar', 'SilentCommunicationFailedError: s',
                               ': z', 'WrongTypeError: ', 'a\nb', 'HardwareError: h', 'ProgrammingError: p: q', ''])
            data = '[%s, %s, %s]' % (json.dumps(name), json.dumps(text), q)
        else:
            data = '[%s, %s]' % (json.dumps(gen_wire(di, rng)), q)
            if rng.random() < 0.1:
                data = data[:-1] + ', 5]'
    elif r < 0.80 and not iserr:                     # rejected payload
        b = gen_bad_wire(di, rng)
        if b is _NOCAND:
            b = None
            if di['type'] in ('scaled',):
                b = [1]
        data = '[%s, %s]' % (json.dumps(b), q)
    elif r < 0.86 and iserr:                         # doubtful error reports
        name = rng.choice(['null', '5', 'true', '[1]', '{}', '"HardwareError"'])
        text = rng.choice(['"t"', '5', 'null', '["RangeError: x"]', '"RangeError: y"'])
        data = '[%s, %s, %s]' % (name, text, q)
    else:                                            # malformed structure
        w = json.dumps(gen_wire(di, rng))
        data = rng.choice(['[%s]' % w, '[%s, 5]' % w, '[%s, "q"]' % w, '[%s, [1]]' % w, '[%s, null]' % w, '5', '"ab"',
                           'null', '{"a": 1}', None, '[1,', "{'a'}", '[]', '["E", "t"]', '["E", "t", 5]',
                           '[%s, %s' % (w, q), 'nan'])
    if data is None:
        line = action if ident is None else f'{action} {ident}'
    else:
        line = f'{action} {ident or "."} {data}'
    return line


def gen_key(rng, desc):
    m, accs = rng.choice(desc)
    r = rng.random()
    if r < 0.3:
        return None
    if r < 0.55:
        return m
    if r < 0.6:
        return 'nomod'
    a = rng.choice(accs)
    if r < 0.95:
        return [m, internal_name(a[0])]
    return [m, 'nopar']


def gen_msgs_case(rng):
    desc, dts = gen_desc(rng)
    now = rng.randint(2000, 100000) * 8
    ops = []
    sites = []
    n = rng.randint(3, 14)
    nreg = rng.choice([0, 1, 2, 3, 4, 6])
    for _ in range(n):
        r = rng.random()
        if sites and r < 0.08:
            s = rng.choice(sites)
            ops.append(['unreg', s[0], s[1], s[2]])
        elif r < 0.08 + 0.5 * nreg / n or (not sites and nreg and r < 0.3):
            s = [gen_key(rng, desc), rng.choice(['updateItem', 'updateEvent', 'updateItem', 'updateEvent', 'handleError']),
                 rng.randint(1, 4)]
            sites.append(s)
            ops.append(['reg', s[0], s[1], s[2]])
        else:
            now += rng.choice([0, 1, 100, 1024, 5000])
            for _ in range(20):
                line = gen_line(rng, desc, dts, now)
                try:
                    sp = spec_message({'desc': desc, 'dts': dts}, line, now)
                    a0, i0, d0 = split_line(line)
                    if i0 is None and d0 is not None and \
                            spec_message({'desc': desc, 'dts': dts}, f'{a0} None {d0}', now)[0] == 'unclear':
                        continue
                except ValueError:
                    continue
                if sp[0] != 'unclear' or (sp[1] == 'error name is no string' and rng.random() < 0.5):
                    break
            else:
                continue
            ops.append(['msg', line, now])
    beh = []
    if rng.random() < 0.6:
        for k in sorted(rng.sample(range(0, 40), rng.randint(1, 6))):
            beh.append([k, rng.choice(['U', 'E'])])
    return {'kind': 'msgs', 'desc': desc, 'dts': dts, 'ops': ops, 'beh': beh}


def exhaustive_cases(depth, scripts):
    """all op sequences of the given length over a small alphabet on a fixed two-module description"""
    import itertools
    desc = [['m', [['value', 'p', 0], ['target', 'p', 0], ['stop', 'c', 0]]], ['None', [['value', 'p', 0]]]]
    dts = [{'type': 'double'}]
    alpha = [
        ['reg', None, 'updateItem', 1], ['reg', 'm', 'updateEvent', 2], ['reg', ['m', 'value'], 'updateItem', 3],
        ['unreg', None, 'updateItem', 1],
        ['msg', 'update m:value [1.5, {"t": 1}]'], ['msg', 'update m [2.5, {"t": 4000000}]'], ['msg', 'changed m [3, {}]'],
        ['msg', 'error_update m:value ["HardwareError", "RangeError: x", {}]'], ['msg', 'update m:value [1, {"t": "x"}]'],
        ['msg', 'update . [4, {}]'], ['msg', 'update m:stop [1, {}]'],
        # report too short / qualifiers no object / data no array: IndexError, AttributeError, TypeError inside the
        # receive loop -- the line is skipped, the loop goes on (seed C12-8 narrows the handler)
        ['msg', 'update m:value [1.0]'], ['msg', 'update m:value [1.0, 5]'], ['msg', 'error_update m:value "ab"'],
    ]
    for seq in itertools.product(alpha, repeat=depth):
        ops = []
        for i, o in enumerate(seq):
            ops.append(list(o) + [204800 + 1024 * i] if o[0] == 'msg' else list(o))
        for beh in scripts:
            yield {'kind': 'msgs', 'desc': desc, 'dts': dts, 'ops': ops, 'beh': beh}


def gen_cases(seed, tier):
    rng = random.Random(seed * 1000003 + 12)
    n = {'quick': 3000, 'thorough': 30000, 'search': 12000}[tier]
    cases = [gen_msgs_case(rng) for _ in range(n)]
    if tier == 'quick':
        for d in (1, 2):
            cases.extend(exhaustive_cases(d, [[], [[0, 'U'], [2, 'E']]]))
    elif tier == 'thorough':
        for d in (1, 2, 3):
            cases.extend(exhaustive_cases(d, [[], [[0, 'U']], [[1, 'E']], [[0, 'E'], [2, 'U']]]))
    from harness import c12_e2e
    e2e = c12_e2e.gen_e2e_cases(rng, tier)
    rng2 = random.Random(seed * 1000003 + 1212)       # own stream: the cases above stay what they were
    cases.extend(_conc().gen_conc_cases(rng2, tier))
    rng3 = random.Random(seed * 1000003 + 121212)     # callbacks that register / unregister callbacks (c12_re.py)
    cases.extend(_re().gen_re_cases(rng3, tier))
    # the end-to-end cases (real sockets, ~0.4 s each) are spread over the list so that the worker pool (contiguous
    # chunks) shares them
    if e2e:
        stride = max(1, len(cases) // len(e2e))
        out = []
        for i, c in enumerate(cases):
            if i % stride == 0 and e2e:
                out.append(e2e.pop())
            out.append(c)
        cases = out + e2e
    return cases


def search_cases(seed, mismatching):
    """more of the same with another seed (bounded so that a broken obligation is reported within minutes)"""
    return gen_cases(seed + 7919, 'search')


def shrink(case):
    if case['kind'] == 'conc':
        yield from _conc().shrink(case)
        return
    if case['kind'] == 're':
        yield from _re().shrink(case)
        return
    if case['kind'] == 'e2e':
        from harness import c12_e2e
        yield from c12_e2e.shrink(case)
        return
    if case['kind'] != 'msgs':
        return
    ops = case['ops']
    for i in range(len(ops) - 1, -1, -1):
        yield dict(case, ops=ops[:i] + ops[i + 1:])
    for i in range(len(case['beh'])):
        yield dict(case, beh=case['beh'][:i] + case['beh'][i + 1:])
    for i in range(len(case['desc'])):
        if len(case['desc']) > 1:
            yield dict(case, desc=case['desc'][:i] + case['desc'][i + 1:])
