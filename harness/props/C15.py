"""C15 — node lifecycle (create / earlyInit / initModule / startModule / poll start-up / ready / shutdown):
implementation driver (real SecNode + Server._processCfg + shutdown_modules with instrumented module classes and a
deterministic baton scheduler for the poll threads), case encoder, direct oracle, generators."""
import io as _io
import itertools
import random
import sys
import threading

from harness import gal

ID = 'C15'
MODEL_TARGETS = ['theories/C15/Run.vo']
PROOF_TARGETS = ['theories/C15/Properties.vo']
PROPERTIES_V = 'theories/C15/Properties.v'
IMPORTS = 'Require Import FV.Gen.C15 FV.C15.Model FV.C15.Run.'
CASE_TYPE = 'case'
CHECK = 'check_case'
SHARD_SIZE = 150
RULE = ('node configurations of up to 5 declared modules (plain / HasIO with uri or io / Pinata with dynamically scanned '
        'modules), every module with 0-2 attachments (target: any declared or scanned module, a missing module, or not '
        'given; mandatory/optional; required base class; accessed in earlyInit or initModule), export flag, polling flag, '
        '0-2 configured start values (one of the writes may fail with CommunicationFailedError / HardwareError / RuntimeError), '
        'fault scripts for the poll-thread start-up (initialReads or the first call of a read function raises '
        'CommunicationFailedError - the start-up is abandoned, early started callback, short wait - or HardwareError / '
        'RuntimeError - absorbed), a family of 2-3 modules sharing one communicator thread with the fault at every position, '
        'failing earlyInit/initModule, hanging first poll round; all declaration orders come '
        'from the generator (targets are chosen independently of the order, cycles included); a schedule interleaves '
        'startModule calls, poll thread steps and the start time-out; a family of hand-over schedules lets the first poll '
        'thread finish its round between two startModule calls.  thorough adds every attachment graph on up to 4 '
        'modules with every declaration order.  non-trivial = at least two modules and one attachment access or poll '
        'thread; distinct = distinct (configuration, effective schedule)')
ASSUMPTIONS = [
    'module classes are the instrumented classes of harness/props/C15.py (earlyInit/initModule access the attachments, '
    'write functions, initialReads and the first call of a read function raise when scripted: CommunicationFailedError, '
    'HardwareError or RuntimeError)',
    'poll threads are real threads run one at a time by a baton scheduler; a thread step ends at the next instrumented '
    'event (and where a poll thread sets the flag of the start MultiEvent without holding its lock); the wait of 0.1 s after '
    'a communication failure is virtual; a thread stays under the scheduler through the started callback, that wait and '
    'the first pass of its regular loop (doPoll of every polled module); after that pass (or after the node reported '
    'ready) threads run freely in real time and only their per-thread order is checked; before shutdown_modules is '
    'called every thread is given (bounded) time to finish that first pass',
    'the recursion limit of CPython enters as data: for cyclic attachments only the outcome (configuration error, node '
    'not started) is compared, not the number of repeated initialisations',
    'the iteration order of the python set used by _getSortedModules enters as data (pop order)',
    'time-outs of the start events are virtual (threading.Event.wait of the MultiEvent is driven by the schedule)',
]
MISSING = 99
IO_BASE = 100
DEPTH_LIMIT = 40


def _name(i):
    return f'm{i - IO_BASE}_io' if i >= IO_BASE else f'm{i}'


def _id(name):
    if name is None:
        return None
    if name.endswith('_io'):
        return IO_BASE + int(name[1:-3])
    return int(name[1:])


# ------------------------------------------------------------------ scheduler
class _Th:
    def __init__(self, tid):
        self.tid = tid
        self.go = threading.Semaphore(0)
        self.back = threading.Semaphore(0)
        self.free = False
        self.hung = False
        self.done = False
        self.thread = None
        self.steps = 0          # scheduler steps given to this thread (capped: a mutant may spin)
        self.expected = 0       # doPoll calls of the first pass of the regular loop (one per polled module served)
        self.ndopoll = 0


class _Sched:
    def __init__(self, schedule):
        self.schedule = list(schedule)
        self.pos = 0
        self.eff = []
        self.threads = {}
        self.by_ident = {}
        self.free_all = False
        self.release_evt = threading.Event()
        self.log = []
        self.freelog = []
        self.tlog = []          # every poll thread event as [tid, ...event], per thread in program order
        self.lock = threading.Lock()
        self.timed_out = False

    # ---- called by managed poll threads
    def current(self):
        return self.by_ident.get(threading.get_ident())

    def event(self, ev, hang=False):
        """an instrumented event; returns after the event was logged"""
        th = self.current()
        if th is None:
            with self.lock:
                self.log.append(ev)
            return
        if th.free or self.free_all:
            if len(self.tlog) > 3000:
                # call cap: a (mutated) poll thread that spins through instrumented calls is slowed down, not logged
                import time as _time
                _time.sleep(0.005)
                return
            with self.lock:
                self.freelog.append([th.tid] + ev)
                self.tlog.append([th.tid] + ev)
            return
        th.back.release()
        th.go.acquire()
        if self.free_all or th.free:
            th.free = True
            with self.lock:
                self.freelog.append([th.tid] + ev)
                self.tlog.append([th.tid] + ev)
            return
        if hang:
            th.hung = True
            th.back.release()
            self.release_evt.wait()
            th.free = True
            with self.lock:
                self.freelog.append([th.tid] + ev)
                self.tlog.append([th.tid] + ev)
            return
        with self.lock:
            self.log.append(ev)
            self.tlog.append([th.tid] + ev)

    def gate(self):
        """a switch point of a managed poll thread without an event of its own"""
        th = self.current()
        if th is None or th.free or self.free_all:
            return
        th.back.release()
        th.go.acquire()
        if self.free_all or th.free:
            th.free = True

    def finished(self, th):
        th.done = True
        th.free = True
        th.back.release()

    # ---- called by the controller (main thread)
    def enabled(self, tid):
        th = self.threads.get(tid)
        return th is not None and not th.done and not th.hung and not th.free

    def step(self, tid):
        th = self.threads[tid]
        th.steps += 1
        if th.steps > 300:
            # step cap: no poll thread of the pinned code needs that many steps; a thread that spins through
            # instrumented calls (mutant) is released from the scheduler instead of starving the others
            th.free = True
            th.go.release()
            return
        th.go.release()
        th.back.acquire()
        self.eff.append(['T', tid])

    def next_item(self):
        if self.pos < len(self.schedule):
            it = self.schedule[self.pos]
            self.pos += 1
            return it
        return None

    def main_point(self):
        """main thread is about to call the next startModule"""
        while True:
            it = self.next_item()
            if it is None or it == 'M':
                break
            if it == 'X':
                continue
            if self.enabled(it):
                self.step(it)
        self.eff.append(['M'])

    def main_wait(self, ev):
        """replacement of threading.Event.wait for the MultiEvent of the start events"""
        while True:
            if ev._flag:
                return True
            it = self.next_item()
            if it is None:
                en = sorted(t for t in self.threads if self.enabled(t))
                if en:
                    self.step(en[0])
                    continue
                it = 'X'
            if it == 'M':
                continue
            if it == 'X':
                self.eff.append(['X'])
                self.timed_out = True
                return False
            if self.enabled(it):
                self.step(it)

    def release_all(self):
        self.free_all = True
        self.release_evt.set()
        for th in self.threads.values():
            th.go.release()
            th.go.release()


# ------------------------------------------------------------------ implementation driver
class _Log:
    handlers = []

    def __init__(self):
        self.parent = self

    def getChild(self, *a, **k):
        return self

    def __getattr__(self, name):
        return lambda *a, **k: None


def all_decls(case):
    res = []
    for d in case['mods']:
        res.append(d)
        for s in d.get('scan') or []:
            res.append(s)
    return res


def run_case(case):
    import frappy.secnode as secnode_mod
    import frappy.modulebase as mb
    from frappy.server import Server
    from frappy.modules import Module, Attached
    from frappy.params import Parameter
    from frappy.properties import Property
    from frappy.datatypes import FloatRange, StringType
    from frappy.io import HasIO
    from frappy.dynamic import Pinata
    from frappy.lib.multievent import MultiEvent
    from frappy.errors import CommunicationFailedError, HardwareError

    sched = _Sched(case.get('sched', []))
    decls = {d['id']: d for d in all_decls(case)}
    alive_at_shutdown = []
    served = {}             # poll thread -> the modules it serves, in the order of polledModules

    def decl_of(name):
        i = _id(name)
        if i >= IO_BASE:
            return {'id': i, 'hang': False}
        return decls[i]

    read_failed = set()

    def _exc(kind):
        return {'comm': CommunicationFailedError, 'hw': HardwareError}.get(kind, RuntimeError)

    class TagA(Module):
        pass

    class TagB(Module):
        pass

    tags = [TagA, TagB]

    class Mix:
        ATTS = ()
        FAIL_EARLY = False
        FAIL_INIT = False
        IS_HASIO = False

        def _see(self, idx, attr):
            t = getattr(self, attr)
            sched.event(['see', _id(self.name), idx, None if t is None else _id(t.name),
                         True if t is None else bool(t._isinitialized)])

        def earlyInit(self):
            sched.event(['early', _id(self.name)])
            for idx, phase in self.ATTS:
                if phase == 'early':
                    self._see(idx, f'att{idx}')
            if self.FAIL_EARLY:
                raise RuntimeError('scripted earlyInit failure')
            super().earlyInit()

        def initModule(self):
            sched.event(['init', _id(self.name)])
            if self.IS_HASIO:
                self._see(MISSING, 'io')
            for idx, phase in self.ATTS:
                if phase == 'init':
                    self._see(idx, f'att{idx}')
            if self.FAIL_INIT:
                raise RuntimeError('scripted initModule failure')
            super().initModule()

        def startModule(self, start_events):
            sched.main_point()
            sched.event(['start', _id(self.name)])
            super().startModule(start_events)

        def stopPollThread(self):
            if self._Module__poller:
                sched.event(['stop', _id(self.name)])
            super().stopPollThread()

        def shutdownModule(self):
            alive = sorted(t.tid for t in sched.threads.values() if t.thread is not None and t.thread.is_alive())
            alive_at_shutdown.append(alive)
            sched.event(['shutdown', _id(self.name)])
            super().shutdownModule()

        def initialReads(self):
            sched.event(['ireads', _id(self.name)], hang=bool(decl_of(self.name).get('hang')))
            kind = decl_of(self.name).get('ifail')
            if kind:            # fault script: initialReads raises (after the call was logged)
                raise _exc(kind)('scripted initialReads failure')
            super().initialReads()

        def _read(self, k):
            sched.event(['read', _id(self.name), k])
            for kk, kind in decl_of(self.name).get('rfail') or []:
                if kk == k and (_id(self.name), k) not in read_failed:
                    read_failed.add((_id(self.name), k))    # the first call fails, the device has recovered afterwards
                    raise _exc(kind)('scripted read failure')
            return 1.0

        def read_x0(self):
            return self._read(0)

        def read_x1(self):
            return self._read(1)

        def _write(self, k, value):
            sched.event(['write', _id(self.name), k])
            for kk, kind in decl_of(self.name).get('wfail') or []:
                if kk == k:         # fault script: this write fails (after the attempt was logged)
                    raise _exc(kind)('scripted write failure')
            return value

        def write_x0(self, value):
            return self._write(0, value)

        def write_x1(self, value):
            return self._write(1, value)

        def doPoll(self):
            sched.event(['dopoll', _id(self.name)])
            th = sched.current()
            if th is not None:
                th.ndopoll += 1
                if th.ndopoll >= th.expected and not th.free:
                    # first pass of the regular loop done: from here on the thread depends on real time, it runs freely
                    sched.finished(th)

    params = {'x0': Parameter('x0', FloatRange(), default=0, readonly=False),
              'x1': Parameter('x1', FloatRange(), default=0, readonly=False)}

    AutoIO = type('AutoIO', (Mix, TagA, Module),
                  dict(params, uri=Property('uri', StringType(), default=''), enablePoll=True))

    class MyHasIO(HasIO):
        ioDict = {}
        ioClass = AutoIO

    created = [AutoIO]

    def make_cls(d):
        kind = d['kind']
        base = {'plain': Module, 'hasio': MyHasIO, 'pinata': Pinata}[kind]
        body = dict(params)
        body['ATTS'] = tuple((i, a['phase']) for i, a in enumerate(d['atts']))
        for i, a in enumerate(d['atts']):
            want = Module if a['want'] is None else tags[a['want']]
            body[f'att{i}'] = Attached(want, mandatory=bool(a['mand']))
        body['FAIL_EARLY'] = bool(d['fail_early'])
        body['FAIL_INIT'] = bool(d['fail_init'])
        body['IS_HASIO'] = kind == 'hasio'
        body['enablePoll'] = bool(d['poll'])
        if kind == 'pinata':
            scan = list(d.get('scan') or [])

            def scanModules(self, scan=scan):
                for s in scan:
                    yield _name(s['id']), make_cfg(s)
            body['scanModules'] = scanModules
        cls = type(f'C{d["id"]}', (Mix, tags[d['tag']], base), body)
        created.append(cls)
        return cls

    def make_cfg(d):
        cfg = {'cls': make_cls(d), 'description': 'x'}
        if d['kind'] != 'pinata' and not d['export']:
            cfg['export'] = False
        for i, a in enumerate(d['atts']):
            if a['target'] is not None:
                cfg[f'att{i}'] = _name(a['target'])
        for k in d['writes']:
            cfg[f'x{k}'] = {'value': 1.0}
        if d['kind'] == 'hasio' and d['io'] is not None:
            if d['io'][0] == 'uri':
                cfg['uri'] = f'u{d["io"][1]}'
            else:
                cfg['io'] = _name(d['io'][1])
        return cfg

    # patches: version (unavailable in the sandbox), thread creation (scheduler), the wait of the start MultiEvent
    orig_version = secnode_mod.get_version
    orig_mkthread = mb.mkthread
    orig_wait = threading.Event.wait
    orig_set = threading.Event.set
    orig_stderr = sys.stderr
    orig_limit = sys.getrecursionlimit()

    def my_mkthread(func, *args, **kwds):
        owner = getattr(func, '__self__', None)
        if owner is None or not args or not callable(args[-1]):
            return orig_mkthread(func, *args, **kwds)
        tid = _id(owner.name)
        th = _Th(tid)
        real_cb = args[-1]

        th.expected = sum(1 for m in args[0] if m.enablePoll)
        served[tid] = [_id(m.name) for m in args[0]]

        def started():
            # the thread stays under the scheduler after the callback: the wait after a communication failure and the
            # first pass of the regular loop (doPoll of every polled module) are instrumented events too
            sched.event(['started', tid])
            real_cb()

        def body():
            sched.by_ident[threading.get_ident()] = th
            try:
                func(*(args[:-1] + (started,)), **kwds)
            finally:
                if not th.free and not sched.free_all:
                    # thread ended (nothing to poll, or without calling the started callback)
                    th.free = True
                    th.done = True
                    th.back.release()
                th.done = True
        t = threading.Thread(target=body, name=f'poll-{tid}', daemon=True)
        th.thread = t
        sched.threads[tid] = th
        t.start()
        th.back.acquire()        # wait until the thread stands at its first gate
        return t

    def my_wait(self, timeout=None):
        if isinstance(self, MultiEvent) and not sched.free_all:
            return sched.main_wait(self)
        if timeout == 0.1 and not isinstance(self, MultiEvent) and sched.current() is not None:
            # triggerPoll.wait(0.1) of the poll thread start-up after a communication failure: virtual time
            sched.event(['cwait', sched.current().tid])
            return self.is_set()
        return orig_wait(self, timeout)

    def my_set(self):
        # setting the flag of the start MultiEvent is atomic with the bookkeeping of its single events as long as it
        # happens under the lock of the MultiEvent (as in MultiEvent.set_); a poll thread that sets the flag without
        # holding that lock can be overtaken by the main thread at this point, so it is a switch point of the scheduler
        if isinstance(self, MultiEvent) and not sched.free_all:
            lock = getattr(self, '_lock', None)
            owned = getattr(lock, '_is_owned', None)
            if not (owned is not None and owned()):
                sched.gate()
        return orig_set(self)

    srv = Server.__new__(Server)
    srv._testonly = False
    srv.name = 'node'
    srv.log = _Log()
    srv.node_cfg = {'cls': 'frappy.protocol.dispatcher.Dispatcher', 'description': 'd', 'interface': 'tcp://0'}
    outcome = None
    obs = {}
    try:
        secnode_mod.get_version = lambda: 'verif'
        mb.mkthread = my_mkthread
        threading.Event.wait = my_wait
        threading.Event.set = my_set
        sys.stderr = _io.StringIO()
        srv.module_cfg = {_name(d['id']): make_cfg(d) for d in case['mods']}
        try:
            srv._processCfg()
            outcome = 'timeout' if sched.timed_out else 'ready'
            if not sched.timed_out:
                sched.eff.append(['M'])
            sched.log.append(['ready', not sched.timed_out])
        except SystemExit as e:
            outcome = 'exit'
            sched.log.append(['exit'])
        except BaseException as e:      # code under test leaked an exception: recorded as data
            outcome = 'exc:' + type(e).__name__
        secnode = getattr(srv, 'secnode', None)
        n_gated = len(sched.log)
        obs['waiting_for'] = None
        # the hanging devices recover, every poll thread now runs freely
        sched.release_all()
        pop_order = []
        if secnode is not None:
            pop_order = [_id(n) for n in set(secnode.modules.keys())]
            if outcome in ('ready', 'timeout'):
                # the node is serving now: let every poll thread get through the first pass of its regular loop
                # (bounded; a thread that hangs for real is left alone) before the shutdown empties its module list
                import time as _time
                t_end = _time.time() + 1.0
                while _time.time() < t_end and any(
                        th.thread is not None and th.thread.is_alive() and th.ndopoll < th.expected
                        for th in sched.threads.values()):
                    _time.sleep(0.0005)
                with sched.lock:
                    sched.tlog.append(['*', 'shutdown-begins'])
                try:
                    secnode.shutdown_modules()
                except BaseException as e:
                    sched.log.append(['shutdown-exc', type(e).__name__])
            # harness cleanup (not an observation): no poll thread survives the case
            for m in list(secnode.modules.values()):
                try:
                    m.polledModules.clear()
                    if m.triggerPoll:
                        m.triggerPoll.set()
                except Exception:
                    pass
            for th in sched.threads.values():
                if th.thread is not None:
                    th.thread.join(5)
        errors = []
        for e in (secnode.errors if secnode is not None else []):
            if e.startswith('  '):
                continue
            if e.startswith('error initializing '):
                errors.append(['init', _id(e[len('error initializing '):].split(':')[0])])
            elif e.startswith('error creating module '):
                errors.append(['create', _id(e[len('error creating module '):].rstrip(':'))])
            else:
                errors.append(['other', e[:80]])
        recursion = any('RecursionError' in e for e in (secnode.errors if secnode is not None else []))
        with sched.lock:
            log = [list(e) for e in sched.log]
            free = [list(e) for e in sched.freelog[:200]]
            # a spinning (mutated) thread may fill the thread log: beyond 400 entries only the writes and the marker are kept
            tlog = [list(e) for n, e in enumerate(sched.tlog) if n < 400 or e[0] == '*' or e[1] == 'write']
        if recursion and len(log) > 60:
            log = log[:30] + [['...']] + log[-20:]
        obs.update({
            'log': log, 'n_gated': n_gated, 'free': free, 'tlog': tlog, 'errors': errors, 'outcome': outcome,
            'modules': [_id(n) for n in secnode.modules] if secnode is not None else [],
            'export': [_id(n) for n in secnode.export] if secnode is not None else [],
            'sched': sched.eff, 'pop_order': pop_order, 'alive_at_shutdown': alive_at_shutdown,
            'recursion': recursion,
            'threads': sorted(sched.threads),
            'served': [[t, served[t]] for t in sorted(served)],
            'leaked_threads': sorted(t.tid for t in sched.threads.values() if t.thread is not None and t.thread.is_alive()),
        })
        return obs
    finally:
        sched.release_all()
        secnode_mod.get_version = orig_version
        mb.mkthread = orig_mkthread
        threading.Event.wait = orig_wait
        threading.Event.set = orig_set
        sys.stderr = orig_stderr
        sys.setrecursionlimit(orig_limit)
        for cls in created:
            w = mb.wrapperClasses.pop(cls, None)
        MyHasIO.ioDict.clear()


# ------------------------------------------------------------------ encoding into Gallina
def enc_att(a):
    return ('{| a_target := %s; a_mand := %s; a_want := %s; a_phase := %s |}' % (
        gal.option(a['target'], gal.nat), gal.boolean(a['mand']), gal.option(a['want'], gal.nat),
        'PEarly' if a['phase'] == 'early' else 'PInit'))


def comm_fault(d):
    """the CommunicationFailedError of the fault script of a module: 'ireads', ('read', k) or None.  Failures of another
    kind are absorbed by the code under test and do not appear in the model."""
    if d.get('ifail') == 'comm':
        return 'ireads'
    ks = sorted(k for k, kind in d.get('rfail') or [] if kind == 'comm')
    if ks and d.get('poll'):
        return ('read', ks[0])
    return None


def enc_cfail(d):
    f = comm_fault(d)
    return 'CFNone' if f is None else 'CFIReads' if f == 'ireads' else f'(CFRead {gal.nat(f[1])})'


def enc_decl(d):
    if d['kind'] == 'plain':
        kind = 'KPlain'
    elif d['kind'] == 'hasio':
        io = d['io']
        kind = '(KHasIO %s)' % ('IoNone' if io is None else f'(IoUri {gal.nat(io[1])})' if io[0] == 'uri'
                                else f'(IoMod {gal.nat(io[1])})')
    else:
        kind = '(KPinata %s)' % gal.lst([s['id'] for s in d.get('scan') or []], gal.nat)
    export = False if d['kind'] == 'pinata' else d['export']
    return ('{| d_kind := %s; d_tag := %s; d_export := %s; d_atts := %s; d_poll := %s; d_writes := %s; '
            'd_fail_early := %s; d_fail_init := %s; d_hang := %s; d_cfail := %s |}' % (
                kind, gal.nat(d['tag']), gal.boolean(export), gal.lst(d['atts'], enc_att), gal.boolean(d['poll']),
                gal.lst(sorted(d['writes']), gal.nat), gal.boolean(d['fail_early']), gal.boolean(d['fail_init']),
                gal.boolean(d.get('hang')), enc_cfail(d)))


def enc_event(e):
    k = e[0]
    if k in ('early', 'init', 'start', 'ireads', 'started', 'stop', 'shutdown', 'cwait', 'dopoll'):
        return '(%s %s)' % ({'early': 'EEarly', 'init': 'EInit', 'start': 'EStart', 'ireads': 'EIReads',
                             'started': 'EStarted', 'stop': 'EStop', 'shutdown': 'EShutdown', 'cwait': 'ECWait',
                             'dopoll': 'EDoPoll'}[k], gal.nat(e[1]))
    if k == 'see':
        return f'(ESee {gal.nat(e[1])} {gal.nat(e[2])} {gal.option(e[3], gal.nat)} {gal.boolean(e[4])})'
    if k in ('write', 'read'):
        return f'({"EWrite" if k == "write" else "ERead"} {gal.nat(e[1])} {gal.nat(e[2])})'
    if k == 'ready':
        return f'(EReady {gal.boolean(e[1])})'
    if k == 'exit':
        return 'EExit'
    raise ValueError(f'event outside of the model: {e}')


def enc_err(e):
    if e[0] == 'create':
        return f'(ErrCreate {gal.nat(e[1])})'
    if e[0] == 'init':
        return f'(ErrInit {gal.nat(e[1])})'
    raise ValueError(f'error outside of the model: {e}')


def enc_cfg(case):
    static = [f'({gal.nat(d["id"])}, {enc_decl(d)})' for d in case['mods']]
    dyn = [f'({gal.nat(s["id"])}, {enc_decl(s)})' for d in case['mods'] for s in d.get('scan') or []]
    return '{| c_static := [%s]; c_dyn := [%s] |}' % ('; '.join(static), '; '.join(dyn))


def enc_sched(sched):
    return '[' + '; '.join('SMain' if s[0] == 'M' else 'STimeout' if s[0] == 'X' else f'(SThread {gal.nat(s[1])})'
                           for s in sched) + ']'


def encode(case, obs):
    rec = bool(obs['recursion'])
    outcome = {'ready': 0, 'timeout': 1, 'exit': 2}.get(obs['outcome'], 3)
    log = [] if rec else [enc_event(e) for e in obs['log']]
    errs = [enc_err(e) for e in obs['errors'] if not (rec and e[0] == 'other')]
    return ('{| c_cfg := %s; c_sched := %s; c_order := %s; c_recursion := %s; c_log := [%s]; c_errors := [%s]; '
            'c_modules := %s; c_export := %s; c_outcome := %s |}' % (
                enc_cfg(case), enc_sched(obs['sched']), gal.lst(obs['pop_order'], gal.nat), gal.boolean(rec),
                '; '.join(log), '; '.join(errs), gal.lst(obs['modules'], gal.nat), gal.lst(obs['export'], gal.nat),
                gal.nat(outcome)))


def model_result_term(case, obs):
    return f'model_result ({encode(case, obs)})'


# ------------------------------------------------------------------ direct oracle (the property on the impl trace)
def _spec(case):
    """specification-side reading of the configuration"""
    static = case['mods']
    decls = {}
    for d in static:
        decls[d['id']] = d

    def creatable(d):
        return all(a['target'] is not None or not a['mand'] for a in d['atts'])
    for d in static:
        if d['kind'] == 'pinata' and creatable(d):
            for s in d.get('scan') or []:
                decls.setdefault(s['id'], s)
    edges = []      # (user, target, why-bad or None)
    bad = []        # (user, reason)
    for i, d in decls.items():
        if not creatable(d):
            bad.append((i, 'mandatory attachment not configured'))
        if d['kind'] == 'hasio':
            if d['io'] is None:
                bad.append((i, 'neither uri nor io'))
            elif d['io'][0] == 'mod':
                edges.append((i, d['io'][1], None))
        for a in d['atts']:
            if a['target'] is not None:
                edges.append((i, a['target'], a['want']))
    for u, t, want in edges:
        if t not in decls:
            bad.append((u, f'attached module {t} does not exist'))
        elif not creatable(decls[t]):
            bad.append((u, f'attached module {t} cannot be created'))
        elif want is not None and decls[t]['tag'] != want:
            bad.append((u, f'attached module {t} has the wrong type'))
    # cycles
    succ = {}
    for u, t, _ in edges:
        succ.setdefault(u, set()).add(t)
    color = {}
    cyc = []

    def dfs(n, path):
        color[n] = 1
        for m in succ.get(n, ()):
            if color.get(m) == 1:
                cyc.append(n)
            elif m not in color:
                dfs(m, path + [m])
        color[n] = 2
    for n in list(succ):
        if n not in color:
            dfs(n, [n])
    for n in cyc:
        bad.append((n, 'cyclic attachment'))
    failing = [i for i, d in decls.items() if d['fail_early'] or d['fail_init']]
    # Pinata modules are initialised while the node is still being created: what is reachable from them cannot yet
    # see the dynamically scanned modules.  Whether such a configuration is accepted is not specified by the property.
    dynamic = {s['id'] for d in static for s in d.get('scan') or []}
    reach = {d['id'] for d in static if d['kind'] == 'pinata'}
    grew = True
    while grew:
        grew = False
        for u, t, _ in edges:
            if u in reach and t not in reach:
                reach.add(t)
                grew = True
    order_sensitive = any(u in reach and t in dynamic for u, t, _ in edges)
    scans = [(d['id'], s['id']) for d in static if d['kind'] == 'pinata' and creatable(d)
             for s in d.get('scan') or [] if creatable(s)]
    return decls, edges, bad, bool(cyc), failing, order_sensitive, scans


def oracle(case, obs):
    fails = []

    def fail(cls, what, modules=()):
        fails.append({'class': cls, 'what': what, 'modules': sorted(set(modules))})

    decls, edges, bad, cyclic, failing, order_sensitive, scans = _spec(case)
    log = obs['log']
    if obs['outcome'] not in ('ready', 'timeout', 'exit'):
        fail('leaked-exception', f'_processCfg raised {obs["outcome"]}')
        return fails
    if obs['leaked_threads'] and obs['outcome'] in ('ready', 'timeout') and not obs['recursion']:
        fail('poll-thread-not-stopped', f'poll threads {obs["leaked_threads"]} still alive after shutdown_modules')
    pos = {}
    for n, e in enumerate(log):
        pos.setdefault(tuple(e[:2]) if e[0] != 'see' else ('see', e[1], e[2]), []).append(n)
    ready = [n for n, e in enumerate(log) if e[0] == 'ready']
    modules = obs['modules']
    valid = not bad and not failing and not order_sensitive
    modules = obs['modules']

    # (0) dynamically scanned modules belong to the node: every module found by a created Pinata is created
    for p, x in scans:
        if p in modules and x not in modules and not obs['recursion']:
            fail('scanned-module-missing', f'module {x} found by Pinata {p} was never created', [p, x])
            valid = False       # reported on its own; what follows from it is not reported a second time

    # (3) a missing, wrongly typed or cyclic attachment is reported as a configuration error, node does not start
    # (attachments of a module that does not exist because its Pinata was not scanned are not attachments of the node)
    bad = [(u, why) for u, why in bad if u in modules or why.startswith('mandatory')]
    if bad and not order_sensitive:
        if obs['outcome'] != 'exit' or not obs['errors'] or ready:
            fail('bad-attachment-not-reported',
                 f'{bad[0][1]} (module {bad[0][0]}) but outcome is {obs["outcome"]} with errors {obs["errors"]}',
                 [u for u, _ in bad])
    if obs['outcome'] == 'exit' and not obs['errors']:
        fail('exit-without-error', 'node refused to start without reporting an error')
    if obs['recursion']:
        # the log of such a run is truncated; only the outcome is judged (and only a cyclic configuration may end so)
        if not cyclic:
            fail('recursion-without-cycle', 'RecursionError reported although the attachments are acyclic')
        return fails

    # (1) early -> init -> start, exactly once, in that order
    if not cyclic:
        for m in modules:
            seq = [e[0] for e in log if e[0] in ('early', 'init', 'start') and e[1] == m]
            if valid and (m >= IO_BASE or m in decls):
                if seq != ['early', 'init', 'start']:
                    fail('lifecycle-order', f'module {m}: lifecycle events {seq}, expected early, init, start', [m])
            else:
                for k in ('early', 'init', 'start'):
                    if seq.count(k) > 1:
                        fail('lifecycle-order', f'module {m}: {k} ran {seq.count(k)} times', [m])
                if [k for k in seq if k in ('early', 'init', 'start')] != sorted(seq, key=('early', 'init', 'start').index):
                    fail('lifecycle-order', f'module {m}: lifecycle events out of order {seq}', [m])
        if valid:
            for i in decls:
                if i not in modules and not any(x == i for _, x in scans):
                    fail('lifecycle-order', f'configured module {i} was not created', [i])

    # (2) an attached module is fully initialised before its user sees it
    if valid:
        for n, e in enumerate(log):
            if e[0] == 'see' and e[3] is not None:
                t = e[3]
                pe, pi = pos.get(('early', t), []), pos.get(('init', t), [])
                if not e[4] or not pe or not pi or not (pe[0] < pi[0] < n):
                    fail('attached-not-initialised', f'module {e[1]} saw attached module {t} before it was initialised',
                         [e[1], t])

    # (4) configured start values are written before the first poll; ready only after the first round or a time-out
    per_thread = {}
    before_shutdown = {}        # the same, up to the moment shutdown_modules was called
    down = False
    for e in obs['tlog']:
        if e[0] == '*':
            down = True
            continue
        per_thread.setdefault(e[0], []).append(e[1:])
        if not down:
            before_shutdown.setdefault(e[0], []).append(e[1:])
    polled_seen = set()
    for tid, evs in per_thread.items():
        first_poll = {}
        for n, e in enumerate(evs):
            if e[0] in ('read', 'dopoll'):
                first_poll.setdefault(e[1], n)
                polled_seen.add(e[1])
        for n, e in enumerate(evs):
            if e[0] == 'write' and e[1] in first_poll and n > first_poll[e[1]]:
                fail('write-after-poll', f'module {e[1]}: configured value x{e[2]} written after its first poll', [e[1]])
    # whatever happens to one write (it may fail), every configured value of a module is written (attempted) before
    # that module is polled for the first time
    # (stopPollThread empties the list of modules a poll thread is still working on: what a thread does after the
    # shutdown began is not judged here)
    for tid, evs in before_shutdown.items():
        attempted, reported = set(), set()
        for e in evs:
            if e[0] == 'write':
                attempted.add((e[1], e[2]))
            elif e[0] in ('read', 'dopoll') and e[1] in decls and e[1] in modules and valid and e[1] not in reported:
                missing = [k for k in decls[e[1]]['writes'] if (e[1], k) not in attempted]
                if missing:
                    reported.add(e[1])
                    fail('polled-before-written', f'module {e[1]}: polled although the configured value(s) '
                         f'{["x%d" % k for k in missing]} had not been written', [e[1]])
    if obs['outcome'] == 'ready' and not cyclic:
        written = {}
        for e in obs['tlog']:
            if e[1] == 'write':
                written[(e[2], e[3])] = written.get((e[2], e[3]), 0) + 1
        gated_written = {(e[1], e[2]) for e in log[:ready[0]] if e[0] == 'write'} if ready else set()
        for i, d in decls.items():
            if i in modules and valid:
                for k in d['writes']:
                    if (i, k) not in gated_written:
                        fail('writes-not-done', f'module {i}: configured value x{k} not written when the node reported ready', [i])
                    elif written.get((i, k), 0) != 1:
                        fail('writes-not-done', f'module {i}: configured value x{k} written {written.get((i, k))} times', [i])
    if ready:
        r = ready[0]
        for t in obs['threads']:
            st = pos.get(('started', t), [])
            if log[r][1]:
                if not st or st[0] > r:
                    fail('ready-too-early', f'node reported ready before poll thread {t} finished its first round', [t])
        if not log[r][1] and all(pos.get(('started', t)) for t in obs['threads']):
            fail('ready-too-early', 'time-out reported although every poll thread had finished')
    for t in obs['threads']:
        st = pos.get(('start', t), [])
        evs = [n for n, e in enumerate(log) if e[0] in ('write', 'ireads', 'read', 'started') and
               any(x[0] == t and x[1:] == e for x in obs['tlog'])]
        if evs and (not st or st[0] > evs[0]):
            fail('lifecycle-order', f'poll thread of module {t} ran before startModule', [t])

    # (5) shutdown: pollers stopped first, every module exactly once, users before the modules they are attached to
    if obs['outcome'] in ('ready', 'timeout'):
        downs = [n for n, e in enumerate(log) if e[0] == 'shutdown']
        if any(obs['alive_at_shutdown']):
            fail('shutdown-before-pollers-stopped',
                 f'poll threads alive while shutdownModule ran: {obs["alive_at_shutdown"]}')
        for t in obs['threads']:
            st = pos.get(('stop', t), [])
            if downs and (not st or st[0] > downs[0]):
                fail('shutdown-before-pollers-stopped', f'poll thread {t} not asked to stop before the first shutdownModule', [t])
        for m in modules:
            c = len(pos.get(('shutdown', m), []))
            if c != 1:
                fail('shutdown-count', f'module {m} shut down {c} times', [m])
        for e in log:
            if e[0] == 'see' and e[3] is not None and e[1] != e[3]:
                pu, pt = pos.get(('shutdown', e[1]), []), pos.get(('shutdown', e[3]), [])
                if pu and pt and not pu[0] < pt[0]:
                    fail('shutdown-order', f'module {e[3]} shut down before its user {e[1]}', [e[1], e[3]])
        if any(e[0] == 'shutdown-exc' for e in log):
            fail('leaked-exception', 'shutdown_modules raised')
    return fails


def _pinata_created_through_attachment(case, obs, failure):
    """a scanned module is missing, and its Pinata was handed out through an attachment while the node was being
    created, i.e. before create_modules reached it in the declaration order"""
    if failure['class'] != 'scanned-module-missing' or len(failure.get('modules') or []) != 2:
        return False
    decls = {d['id']: d for d in case['mods']}
    p = [m for m in failure['modules'] if m in decls and decls[m]['kind'] == 'pinata']
    if not p:
        return False
    p = p[0]
    order = [d['id'] for d in case['mods']]
    edges = _spec(case)[1]
    for q in order[:order.index(p)]:
        if decls[q]['kind'] != 'pinata':
            continue
        reach = {q}
        grew = True
        while grew:
            grew = False
            for u, t, _ in edges:
                if u in reach and t not in reach:
                    reach.add(t)
                    grew = True
        if p in reach:
            return True
    return False


def _later_modules_skipped_after_comm_failure(case, obs, failure):
    """configured values of a module never written (and the module polled nevertheless), and this module is served by a
    poll thread AFTER a module whose initialReads raised CommunicationFailedError: the start-up sequence of
    __pollThread is abandoned at that point and never resumed"""
    if failure['class'] == 'writes-not-done':
        if 'not written when' not in failure['what']:
            return False
    elif failure['class'] != 'polled-before-written':
        return False
    mods = failure.get('modules') or []
    if not mods:
        return False
    decls = {d['id']: d for d in all_decls(case)}
    for m in mods:
        ok = False
        for t, lst in obs.get('served') or []:
            if m in lst and any(decls.get(x, {}).get('ifail') == 'comm' for x in lst[:lst.index(m)]):
                ok = True
        if not ok:
            return False
    return True


FINDING_CLASSIFIERS = {'pinata_created_through_attachment': _pinata_created_through_attachment,
                       'later_modules_skipped_after_comm_failure': _later_modules_skipped_after_comm_failure}


def nontrivial_key(case, obs):
    if len(obs['modules']) < 2:
        return None
    if not any(e[0] == 'see' for e in obs['log']) and not obs['threads']:
        return None
    return repr((case['mods'], obs['sched']))


def outcome_labels(case, obs):
    labs = {obs['outcome']}
    if obs['recursion']:
        labs.add('recursion')
    kinds = {d['kind'] for d in all_decls(case)}
    labs.update('kind-' + k for k in kinds)
    for e in obs['errors']:
        labs.add('err-' + e[0])
    if any(d.get('hang') for d in all_decls(case)):
        labs.add('hang')
    if any(e[0] == 'see' for e in obs['log']):
        labs.add('attachment-resolved')
    if len(obs['threads']) > 1:
        labs.add('several-poll-threads')
    if any(e[0] == 'write' for e in obs['log']):
        labs.add('configured-write')
    wf = {(d['id'], k): kind for d in all_decls(case) for k, kind in d.get('wfail') or []}
    for e in obs['tlog']:
        if e[1] == 'write' and (e[2], e[3]) in wf:
            labs.add('write-fault-' + wf[(e[2], e[3])])
        if e[1] == 'cwait':
            labs.add('startup-abandoned-after-comm-failure')
        if e[1] == 'dopoll':
            labs.add('regular-loop-first-pass')
    decls = {d['id']: d for d in all_decls(case)}
    seen = {(e[1], e[2]) for e in obs['tlog'] if e[1] == 'ireads'} | {(e[1], e[2], e[3]) for e in obs['tlog'] if e[1] == 'read'}
    for i, d in decls.items():
        if d.get('ifail') and ('ireads', i) in seen:
            labs.add('ireads-fault-' + d['ifail'])
        for k, kind in d.get('rfail') or []:
            if ('read', i, k) in seen:
                labs.add('read-fault-' + kind)
    if any(e[0] == 'cwait' for e in obs['log']):
        labs.add('comm-failure-before-ready')
    return sorted(labs)


def sample_repr(case, obs):
    return {'case': case, 'log': obs['log'][:40], 'errors': obs['errors'], 'outcome': obs['outcome']}


# ------------------------------------------------------------------ generators
def mk_mod(i, **kw):
    d = {'id': i, 'kind': 'plain', 'tag': 0, 'export': True, 'atts': [], 'io': None, 'poll': True, 'writes': [],
         'fail_early': False, 'fail_init': False, 'hang': False, 'scan': [], 'wfail': [], 'ifail': None, 'rfail': []}
    d.update(kw)
    return d


def mk_att(t, mand=True, want=None, phase='init'):
    return {'target': t, 'mand': mand, 'want': want, 'phase': phase}


def rand_sched(rng, tids, n):
    items = []
    for _ in range(n):
        r = rng.random()
        if r < 0.3:
            items.append('M')
        elif r < 0.33:
            items.append('X')
        else:
            items.append(rng.choice(tids))
    return items


def rand_case(rng):
    clean = rng.random() < 0.6
    n = rng.randint(1, 5)
    ids = list(range(n))
    mods = []
    dyn_ids = []
    npin = 0
    for i in ids:
        r = rng.random()
        kind = 'plain' if r < 0.6 else 'hasio' if r < 0.85 else 'pinata'
        if kind == 'pinata' and npin >= 2:
            kind = 'plain'
        d = mk_mod(i, kind=kind, tag=rng.randrange(2), export=rng.random() < 0.8, poll=rng.random() < 0.7,
                   writes=[k for k in (0, 1) if rng.random() < 0.3])
        if kind == 'pinata':
            npin += 1
            d['export'] = False
            for _ in range(rng.randint(0, 2)):
                j = 5 + len(dyn_ids)
                dyn_ids.append(j)
                d['scan'].append(mk_mod(j, tag=rng.randrange(2), export=rng.random() < 0.8, poll=rng.random() < 0.7,
                                        writes=[k for k in (0, 1) if rng.random() < 0.3]))
        mods.append(d)
    everything = mods + [s for d in mods for s in d['scan']]
    all_ids = [d['id'] for d in everything]
    rank = {i: rng.random() for i in all_ids}
    tag = {d['id']: d['tag'] for d in everything}
    for d in everything:
        i = d['id']
        lower = [j for j in all_ids if rank[j] < rank[i]]
        for _ in range(rng.choice([0, 0, 1, 1, 2])):
            if clean:
                if not lower:
                    continue
                t = rng.choice(lower)
                want = rng.choice([None, None, tag[t]])
                d['atts'].append(mk_att(t, mand=rng.random() < 0.7, want=want, phase=rng.choice(['early', 'init'])))
            else:
                r = rng.random()
                t = None if r < 0.1 else MISSING if r < 0.17 else rng.choice(all_ids)
                d['atts'].append(mk_att(t, mand=(rng.random() < 0.15) if t is None else rng.random() < 0.7,
                                        want=rng.choice([None, None, None, 0, 1]), phase=rng.choice(['early', 'init'])))
        if d['kind'] == 'hasio':
            r = rng.random()
            if clean:
                d['io'] = ['uri', rng.randrange(2)] if r < 0.6 or not lower else ['mod', rng.choice(lower)]
            else:
                d['io'] = ['uri', rng.randrange(2)] if r < 0.55 else ['mod', rng.choice(all_ids + [MISSING])] if r < 0.9 else None
        if not clean:
            d['fail_early'] = rng.random() < 0.05
            d['fail_init'] = rng.random() < 0.05
        d['hang'] = rng.random() < 0.06
        if d['writes'] and rng.random() < 0.3:
            # fault script: one of the initial writes fails (communication failure, hardware error, programming error)
            d['wfail'] = [[rng.choice(d['writes']), rng.choice(['comm', 'comm', 'hw', 'rt'])]]
        r = rng.random()
        if r < 0.06:
            # fault script of the poll-thread start-up: initialReads raises
            d['ifail'] = rng.choice(['comm', 'comm', 'comm', 'hw', 'rt'])
        elif r < 0.12:
            # ... or the first call of a read function
            d['rfail'] = [[rng.randrange(2), rng.choice(['comm', 'comm', 'comm', 'hw', 'rt'])]]
    rng.shuffle(mods)        # declaration order is independent of everything else
    tids = all_ids + [IO_BASE + i for i in ids]
    return {'mods': mods, 'sched': rand_sched(rng, tids, rng.choice([0, 5, 15, 30, 50]))}


def graph_cases(n, orders, rng=None, sample=None):
    """every attachment graph on n modules (no self loops) x declaration orders; polling on, two configured values on
    module 0 (for every second graph the first write fails with a communication error); attachments read in
    earlyInit or initModule"""
    pairs = [(a, b) for a in range(n) for b in range(n) if a != b]
    masks = range(1 << len(pairs))
    if sample is not None:
        masks = [rng.getrandbits(len(pairs)) for _ in range(sample)]
    for mask in masks:
        atts = {i: [] for i in range(n)}
        for k, (a, b) in enumerate(pairs):
            if mask >> k & 1:
                atts[a].append(mk_att(b, phase='init' if (a + b) % 2 else 'early'))
        for order in orders(n, mask):
            mods = [mk_mod(i, atts=atts[i], writes=[0, 1] if i == 0 else [], poll=(i != 1),
                           wfail=[[0, 'comm']] if i == 0 and mask % 2 else [],
                           export=not (i == 2 and mask % 3 == 0)) for i in order]
            yield {'mods': mods, 'sched': []}


def handover_cases():
    """two or three polled modules in declaration order 0, 1, 2; the poll thread of module 0 gets k1 steps between the
    first and the second startModule call and k2 steps after it (its first round has 4 steps), the rest of the
    schedule is the default one (lowest enabled thread first): the first thread finishes its first round while the
    main thread is still registering the start events of the later modules"""
    for n in (2, 3):
        for k1 in range(0, 8):
            for k2 in (0, 1, 3):
                for variant in (0, 1):
                    mods = [mk_mod(i) for i in range(n)]
                    if variant:
                        mods[1] = mk_mod(1, kind='hasio', io=['uri', 0], writes=[0])
                    yield {'mods': mods, 'sched': ['M'] + [0] * k1 + ['M'] + [0] * k2}


def commfail_cases():
    """2 or 3 modules served by ONE poll thread (the thread of their common communicator), configured values on each;
    the fault (initialReads / first read of x0 / x1 raises CommunicationFailedError, or another exception) at every
    position; default schedule, and one where the main thread is overtaken"""
    for n in (2, 3):
        for j in range(n):
            for where in ('ireads', 'read0', 'read1'):
                for kind in ('comm', 'rt'):
                    for variant in range(3):
                        mods = []
                        for i in range(n):
                            d = mk_mod(i, kind='hasio', io=['uri', 0],
                                       writes=[[0], [0, 1], []][(i + variant) % 3], poll=not (variant == 2 and i == n - 1))
                            if i == j:
                                if where == 'ireads':
                                    d['ifail'] = kind
                                else:
                                    d['rfail'] = [[int(where[-1]), kind]]
                            mods.append(d)
                        tid = IO_BASE
                        yield {'mods': mods, 'sched': [] if variant != 1 else ['M'] + [tid] * 6 + ['M', 'M', 'M'] + [tid] * 12}


def search_cases(seed, mismatching):
    """cases for the targeted search after a broken obligation: the cases on which model and implementation differ,
    then one more quick budget with another seed.  (The default of the framework, a thorough budget of 45000 cases, made
    the forked workers of the second pool inherit a parent of several GB: out of memory on a loaded machine.)"""
    import gc
    cases = list(mismatching) + gen_cases(seed + 7919, 'quick')
    gc.collect()
    gc.freeze()         # the forked workers do not touch (and so do not copy) what the parent has collected so far
    return cases


def gen_cases(seed, tier):
    rng = random.Random(seed * 1000003 + 15)
    n = {'quick': 2600, 'thorough': 24000, 'search': 24000}.get(tier, 2600)
    cases = [rand_case(rng) for _ in range(n)]

    def all_orders(k, mask):
        return itertools.permutations(range(k))

    def some_orders(k, mask):
        perms = list(itertools.permutations(range(k)))
        r = random.Random(mask)
        return r.sample(perms, 3)
    cases.extend(handover_cases())
    cases.extend(commfail_cases())
    for k in (1, 2, 3):
        cases.extend(graph_cases(k, all_orders))
    if tier != 'quick':
        cases.extend(graph_cases(4, some_orders))
        cases.extend(graph_cases(5, some_orders, rng=rng, sample=3000))
    else:
        cases.extend(graph_cases(4, some_orders, rng=rng, sample=150))
    return cases


def shrink(case):
    mods = case['mods']
    if case['sched']:
        yield dict(case, sched=[])
        yield dict(case, sched=case['sched'][:len(case['sched']) // 2])
    for i in range(len(mods)):
        if len(mods) > 1:
            yield dict(case, mods=mods[:i] + mods[i + 1:])
    for i, d in enumerate(mods):
        for j in range(len(d['atts'])):
            yield dict(case, mods=mods[:i] + [dict(d, atts=d['atts'][:j] + d['atts'][j + 1:])] + mods[i + 1:])
        if d.get('scan'):
            yield dict(case, mods=mods[:i] + [dict(d, scan=d['scan'][:-1])] + mods[i + 1:])
        for key, val in (('wfail', []), ('ifail', None), ('rfail', []), ('writes', []), ('hang', False), ('fail_early', False), ('fail_init', False),
                         ('poll', True), ('export', True)):
            if d.get(key, val) != val and not (key == 'export' and d['kind'] == 'pinata'):
                yield dict(case, mods=mods[:i] + [dict(d, **{key: val})] + mods[i + 1:])
        if d['kind'] == 'hasio':
            yield dict(case, mods=mods[:i] + [dict(d, kind='plain', io=None)] + mods[i + 1:])
