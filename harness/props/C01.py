"""C01 — datatype validation: implementation driver, encoder, specification-side oracle"""
import math
import random
from fractions import Fraction

from harness import dtgen as G

ID = 'C01'
MODEL_TARGETS = ['theories/C01/Run.vo']
PROOF_TARGETS = ['theories/C01/Properties.vo']
PROPERTIES_V = 'theories/C01/Properties.v'
IMPORTS = 'Require Import FV.Base.F64 FV.Base.PyVal FV.C01.Model FV.C01.FlavourDefs FV.C01.Run.'
CASE_TYPE = 'case'
CHECK = 'check_case'
SHARD_SIZE = 250
RULE = ('datatype trees (depth<=2 quick, <=3 thorough) from boundary catalogues x candidate values: drawn from the '
        'specification-side value set, single-position mutations of such values (limits +-ulp/+-tolerance, wrong '
        'lengths, None/missing/unknown members, lax base64, strings for numbers) and a malformed stream of every JSON '
        'kind (+bytes, tuples, opaque objects), x previous values (None / valid value of the type); + candidates holding '
        'frozen mappings (ImmutableDict at the top / as member / inside lists and tuples: a validated value offered again, '
        'the result of a conversion d(value) with a position outside the limits, the validated value of an other struct '
        'type, mutated values with some mappings frozen) for validate and __call__ of types containing a struct; ops: __call__, '
        'validate(value, previous), import_value, import_value+validate (as the dispatcher does); '
        'non-trivial = distinct (type, op, value, previous) whose type has a limit or is a container')
ASSUMPTIONS = [
    'python float = IEEE-754 binary64 round-to-nearest-even (Flocq BinarySingleNaN 53 1024)',
    'int(<str|bytes>) and base64.b64decode are CPython library behaviour, supplied to the model as data per case',
    'generalConfig.lazy_number_validation = False (default)',
    'candidate objects are builtin kinds (None,bool,int,float,str,bytes,list,tuple,dict with str keys), '
    'frappy.datatypes.ImmutableDict (flavour kept in the case: cval of C01/FlavourDefs.v) or opaque objects; '
    'objects implementing numeric/sequence protocols themselves (numpy arrays, EnumMember as number) are outside the model',
    'a non-empty list/tuple offered where a struct is expected is outside the model domain (checked by the oracle only)',
    'a previous value is None or a value as validate returns it (tuples, ImmutableDict at every depth, enum members)',
]

OPS = ['call', 'validate', 'import', 'wire']
BAD = ('RangeError', 'WrongTypeError')


# ------------------------------------------------------------------ implementation driver
def _exc_name(e):
    from frappy.errors import RangeError, WrongTypeError
    if isinstance(e, RangeError):
        return 'RangeError'
    if isinstance(e, WrongTypeError):
        return 'WrongTypeError'
    return type(e).__name__


def _freeze(x):
    """the value a parameter currently holds was returned by validate: its mappings are ImmutableDict at every depth"""
    from frappy.datatypes import ImmutableDict
    if isinstance(x, dict):
        return ImmutableDict((k, _freeze(v)) for k, v in x.items())
    if isinstance(x, tuple):
        return tuple(_freeze(v) for v in x)
    return x


# ------------------------------------------------------------------ candidate container flavour
# harness/dtgen.py (shared) tags every mapping as ['dict', items].  A candidate of C01 may in addition hold
# ['frozen', items]: a frappy.datatypes.ImmutableDict with these items (what StructOf.__call__ / validate return and a
# parameter holds) - at the top, as a member, or inside lists / tuples.
def has_frozen(t):
    k = t[0]
    if k == 'frozen':
        return True
    if k in ('list', 'tuple'):
        return any(has_frozen(x) for x in t[1])
    if k == 'dict':
        return any(has_frozen(x) for _, x in t[1])
    return False


def plain(t):
    """the same tagged value with every frozen mapping as a plain dict (the form the shared helpers understand)"""
    k = t[0]
    if k in ('list', 'tuple'):
        return [k, [plain(x) for x in t[1]]]
    if k in ('dict', 'frozen'):
        return ['dict', [[kk, plain(x)] for kk, x in t[1]]]
    return t


def cand_obj(t):
    """tagged candidate -> the python object offered to the implementation (frozen -> a real ImmutableDict)"""
    k = t[0]
    if k == 'list':
        return [cand_obj(x) for x in t[1]]
    if k == 'tuple':
        return tuple(cand_obj(x) for x in t[1])
    if k in ('dict', 'frozen'):
        items = {G.from_cps(kk): cand_obj(x) for kk, x in t[1]}
        if k == 'frozen':
            from frappy.datatypes import ImmutableDict
            return ImmutableDict(items)
        return items
    return G.untag(t)


def cand_val(case):
    """the candidate as the specification side sees it (a frozen mapping is a mapping)"""
    return G.untag(plain(case['v']))


def gal_cval(t):
    """Gallina term of type cval (coq/theories/C01/FlavourDefs.v)"""
    if not has_frozen(t):
        return f'(CLeaf {G.gal_val(t)})'
    k = t[0]
    if k in ('list', 'tuple'):
        from harness import gal
        return '(%s %s)' % ('CList' if k == 'list' else 'CTuple', gal.lst(t[1], gal_cval))
    from harness import gal
    return '(CDict %s %s)' % (gal.boolean(k == 'frozen'),
                              gal.lst(t[1], lambda q: f'({G.gal_str(q[0])}, {gal_cval(q[1])})'))


def freeze_tag(rng, t, p=1.0):
    """every mapping of the tagged value becomes frozen with probability p (each one independently)"""
    k = t[0]
    if k in ('list', 'tuple'):
        return [k, [freeze_tag(rng, x, p) for x in t[1]]]
    if k in ('dict', 'frozen'):
        return ['frozen' if (k == 'frozen' or p >= 1.0 or rng.random() < p) else 'dict',
                [[kk, freeze_tag(rng, x, p)] for kk, x in t[1]]]
    return t


def run_case(case):
    dt = G.build(case['d'])
    v = cand_obj(case['v'])
    prev = _freeze(G.internalise(dt, case['d'], G.untag(case['prev'])))
    op = case['op']
    res2 = None
    canon = None
    try:
        if op == 'call':
            r = dt(v)
        elif op == 'validate':
            r = dt.validate(v, prev)
        elif op == 'import':
            r = dt.import_value(v)
        else:
            r = dt.validate(dt.import_value(v), previous=prev)
        res = ['ok', G.tag(r)]
        if op in ('validate', 'wire'):
            canon = canon_violation(case['d'], r)
            try:
                res2 = ['ok', G.tag(dt.validate(r))]
            except Exception as e:
                res2 = ['err', _exc_name(e)]
    except Exception as e:
        res = ['err', _exc_name(e)]
    return {'res': res, 'res2': res2, 'canon': canon, 'gd': G.gal_dtype(case['d'], dt), 'prev': G.tag(prev),
            'env': G.pyenv_for([plain(case['v']), case['prev']] + ([res[1]] if res[0] == 'ok' else []))}


def canon_violation(d, r):
    """specification side, evaluated on the object the implementation returned (the tagged form does not keep the
    container classes): the canonical representation kind of the datatype at every depth - double/scaled: float,
    int: int (not bool), bool: bool, enum: a declared EnumMember, string: str, blob: bytes, array/tuple: tuple (tuple:
    of the declared length), struct: immutable mapping whose keys are declared members.  None = canonical"""
    from frappy.datatypes import ImmutableDict
    from frappy.lib.enum import EnumMember
    t = d['t']
    if t in ('float', 'scaled'):
        ok = type(r) is float
    elif t == 'int':
        ok = type(r) is int
    elif t == 'bool':
        ok = type(r) is bool
    elif t == 'enum':
        ok = isinstance(r, EnumMember) and [r.name, int(r.value)] in [[n, v] for n, v in d['members']]
    elif t == 'string':
        ok = type(r) is str
    elif t == 'blob':
        ok = type(r) is bytes
    elif t == 'array':
        if type(r) is not tuple:
            return f'array: {type(r).__name__} instead of tuple'
        for x in r:
            w = canon_violation(d['elem'], x)
            if w:
                return w
        return None
    elif t == 'tuple':
        if type(r) is not tuple or len(r) != len(d['elems']):
            return f'tuple: {type(r).__name__} of length {len(r) if hasattr(r, "__len__") else "?"}'
        for dd, x in zip(d['elems'], r):
            w = canon_violation(dd, x)
            if w:
                return w
        return None
    else:
        members = dict(d['members'])
        if not isinstance(r, ImmutableDict):
            return f'struct: {type(r).__name__} instead of an immutable mapping'
        for k, x in r.items():
            if k not in members:
                return f'struct: undeclared key {k!r}'
            w = canon_violation(members[k], x)
            if w:
                return w
        return None
    return None if ok else f'{t}: {type(r).__name__} {r!r}'


EXC = {'RangeError': 'ERange', 'WrongTypeError': 'EWrongType', 'TypeError': 'EType', 'ValueError': 'EValue',
       'OverflowError': 'EOverflow', 'KeyError': 'EKey', 'AttributeError': 'EAttr', 'ZeroDivisionError': 'EZeroDiv'}


def enc_res(r):
    if r[0] == 'ok':
        return f'(Ok {G.gal_val(r[1])})'
    return f'(Err {EXC.get(r[1], "EOther")})'


def encode(case, obs):
    op = {'call': 'OpCall', 'validate': 'OpValidate', 'import': 'OpImport', 'wire': 'OpWire'}[case['op']]
    o2 = 'None' if obs['res2'] is None else f'(Some {enc_res(obs["res2"])})'
    return ('{| c_env := %s; c_d := %s; c_op := %s; c_v := %s; c_prev := %s; c_obs := %s; c_obs2 := %s |}' % (
        G.gal_pyenv(obs['env']), obs['gd'], op, gal_cval(case['v']), G.gal_val(obs['prev']),
        enc_res(obs['res']), o2))


def model_result_term(case, obs):
    return f'model_result ({encode(case, obs)})'


# ------------------------------------------------------------------ specification side (written from the property text)
def _num(v):
    return isinstance(v, (int, float)) and not (isinstance(v, float) and v != v)


def _kind(v):
    if v is None:
        return 'none'
    for k, t in (('bool', bool), ('int', int), ('float', float), ('str', str), ('bytes', bytes), ('list', list),
                 ('tuple', tuple), ('dict', dict)):
        if isinstance(v, t):
            return k
    return 'opaque'


def _grid(d):
    s = G.dec_float(d['scale'])
    return s, round(Fraction(G.dec_float(d['min'])) / Fraction(s)), round(Fraction(G.dec_float(d['max'])) / Fraction(s))


def in_set(d, r, why):
    """r (python object returned by the implementation) lies in the declared value set of d"""
    from frappy.lib.enum import EnumMember
    t = d['t']
    if t == 'float':
        ok = isinstance(r, float) and G.dec_float(d['min']) <= r <= G.dec_float(d['max'])
    elif t == 'int':
        ok = type(r) is int and d['min'] <= r <= d['max']
    elif t == 'scaled':
        s, k1, k2 = _grid(d)
        ok = isinstance(r, float) and math.isfinite(r)
        if ok:
            k = round(Fraction(r) / Fraction(s))
            ok = (float(k * s) == r or k * s == r) and min(k1, k2) - 1 <= k <= max(k1, k2) + 1 \
                and float(k1 * s) <= r <= float(k2 * s)
    elif t == 'bool':
        ok = type(r) is bool
    elif t == 'enum':
        ok = isinstance(r, EnumMember) and [r.name, int(r.value)] in [[n, v] for n, v in d['members']]
    elif t == 'string':
        ok = type(r) is str and d['min'] <= len(r) <= d['max'] and '\0' not in r and (d['utf8'] or r.isascii())
    elif t == 'blob':
        ok = type(r) is bytes and d['min'] <= len(r) <= d['max']
    elif t == 'array':
        ok = type(r) is tuple and d['min'] <= len(r) <= d['max'] and all(in_set(d['elem'], x, why) for x in r)
    elif t == 'tuple':
        ok = type(r) is tuple and len(r) == len(d['elems']) and all(in_set(dd, x, why) for dd, x in zip(d['elems'], r))
    else:
        members = dict(d['members'])
        ok = isinstance(r, dict) and set(r) <= set(members)
        if ok and not d.get('client'):
            ok = all(n in r for n in members if n not in d['optional'])
        ok = ok and all(in_set(members[k], x, why) for k, x in r.items())
    if not ok and not why:
        why.append(f'{t}: {r!r}')
    return ok


def denotes(d, v, r, prev, mode, why):
    """the returned r denotes the offered v (no silent reinterpretation); mode: call | validate | wire | import"""
    t = d['t']

    def no(msg):
        if not why:
            why.append(f'{t}: offered {v!r} returned {r!r} ({msg})')
        return False
    if t == 'float':
        if mode == 'import' and isinstance(v, float):
            return True                                # import alone is only the type conversion; validate judges nan/limits
        if not _num(v) and not (isinstance(v, float)):
            return no('not a number')
        if isinstance(v, float) and v != v:
            return no('nan')
        if isinstance(v, float) and math.isinf(v):
            return True if r == math.copysign(G.FMAX, v) else no('inf')
        fv = Fraction(v)
        if mode == 'call':
            return True if Fraction(r) == fv or abs(Fraction(r) - fv) <= abs(fv) * Fraction(1, 2 ** 52) else no('changed')
        rel = G.dec_float(d['rel']) if 'rel' in d else 1.2e-7
        ab = G.dec_float(d['abs']) if 'abs' in d else 0.0
        tol = max(abs(fv) * Fraction(rel), Fraction(ab)) * Fraction(1000001, 1000000) + abs(fv) * Fraction(1, 2 ** 50)
        if abs(Fraction(r) - fv) > tol:
            return no('moved by more than the resolution')
        if G.dec_float(d['min']) <= v <= G.dec_float(d['max']) and Fraction(r) != fv and \
                abs(Fraction(r) - fv) > abs(fv) * Fraction(1, 2 ** 52):
            return no('valid value changed')
        return True
    if t == 'int':
        if not _num(v) or (isinstance(v, float) and not v.is_integer()):
            return no('not an integer number')
        return True if r == v else no('changed')
    if t == 'scaled':
        s = G.dec_float(d['scale'])
        if mode in ('wire', 'import'):
            if isinstance(v, float) and v.is_integer():
                v = int(v)
            if not isinstance(v, int):
                return no('transport value must be an integer')
            if mode == 'import':
                return True if r == s * v else no('changed')
            want = Fraction(s) * v
        else:
            if not _num(v):
                return no('not a number')
            want = Fraction(v)
        tol = Fraction(s) * Fraction(101, 100) + abs(want) * Fraction(1, 2 ** 50)
        return True if abs(Fraction(r) - want) <= tol else no('moved by more than one step')
    if t == 'bool':
        return True if (type(v) in (bool, int, float) and v in (0, 1) and r == bool(v)) else no('not 0/1')
    if t == 'enum':
        if isinstance(v, str):
            return True if r.name == v else no('other member')
        if _num(v) and (not isinstance(v, float) or v.is_integer()):
            return True if int(r.value) == v else no('other member')
        return no('neither name nor code')
    if t == 'string':
        return True if isinstance(v, str) and r == v else no('not the offered string')
    if t == 'blob':
        if mode in ('wire', 'import'):
            import base64
            import binascii
            if not isinstance(v, (str, bytes)):
                return no('transport value must be a base64 string')
            try:
                strict = base64.b64decode(v.encode('ascii') if isinstance(v, str) else v, validate=True)
            except (binascii.Error, UnicodeEncodeError, ValueError):
                return no('undecodable base64 accepted')
            return True if strict == r else no('decoded differently')
        return True if isinstance(v, bytes) and r == v else no('not the offered bytes')
    if t in ('array', 'tuple'):
        if not isinstance(v, (list, tuple)):
            return no('not a list')
        if mode == 'import' and t == 'tuple':
            n = min(len(v), len(d['elems']))
            return all(denotes(dd, x, y, None, mode, why) for dd, x, y in zip(d['elems'], v[:n], r[:n]))
        if len(r) != len(v):
            return no('length changed')
        subs = [d['elem']] * len(v) if t == 'array' else d['elems']
        ps = list(prev) + [None] * len(v) if isinstance(prev, (list, tuple)) else [None] * len(v)
        return all(denotes(dd, x, y, p, mode, why) for dd, x, y, p in zip(subs, v, r, ps))
    members = dict(d['members'])
    if not isinstance(v, dict):
        return no('not an object')
    given = {k: x for k, x in v.items() if x is not None or mode == 'import'}
    base = dict(prev) if (mode in ('validate', 'wire') and isinstance(prev, dict)) else {}
    if set(r) != set(base) | set(given):
        return no('member set is not previous+offered')
    for k, x in r.items():
        if k in given:
            if k not in members or not denotes(members[k], given[k], x, None, mode, why):
                return no(f'member {k}')
        elif _norm(x) != _norm(base[k]) and not (x != x):
            return no(f'member {k} of the previous value changed')
    return True


def positions(d, v):
    """(type kind, value kind, value) along the type tree, following the iteration the containers perform
    (a str is iterated as its characters, a dict as its keys)"""
    yield d['t'], _kind(v), v
    t = d['t']
    if t in ('array', 'tuple') and isinstance(v, (list, tuple, str, bytes, dict)):
        items = list(v)
        subs = [d['elem']] * len(items) if t == 'array' else d['elems']
        for dd, x in zip(subs, items):
            yield from positions(dd, x)
    elif t == 'struct' and isinstance(v, dict):
        m = dict(d['members'])
        for k, x in v.items():
            if k in m:
                yield from positions(m[k], x)


def _norm(x):
    """enum members compare by (name, value) on the oracle side"""
    if hasattr(x, 'name') and hasattr(x, 'value'):
        return ('enum', x.name, int(x.value))
    if isinstance(x, (list, tuple)):
        return tuple(_norm(y) for y in x)
    if isinstance(x, dict):
        return {k: _norm(y) for k, y in x.items()}
    return x


def oracle(case, obs):
    d, op = case['d'], case['op']
    v, prev = cand_val(case), G.untag(obs['prev'])
    res = obs['res']
    fails = []
    if res[0] == 'err':
        if res[1] not in BAD:
            fails.append({'class': 'other-exception', 'what': f'{op}({v!r}) on {d} raised {res[1]}', 'exc': res[1]})
        return fails
    from frappy.lib.enum import EnumMember  # noqa (results are rebuilt through the real enum below)
    r = _rebuild(d, None, res[1])
    why = []
    if op in ('validate', 'wire') and not in_set(d, r, why):
        fails.append({'class': 'out-of-set', 'what': f'{op}({v!r}, previous={prev!r}) on {d} returned {r!r}: {why[:1]}'})
    why = []
    try:
        den = op == 'call' or denotes(d, v, r, prev, op, why)
    except (AttributeError, TypeError, ValueError, KeyError, IndexError, OverflowError) as e:
        den, why = False, [f'offered {v!r} returned {r!r}, which has not the shape of a value of the type ({e!r})']
    if not den:
        fails.append({'class': 'reinterpreted', 'what': f'{op}: {why[:1]}'})
    if obs.get('canon'):
        fails.append({'class': 'not-canonical', 'what': f'{op}({v!r}) on {d} returned a non-canonical representation: {obs["canon"]}'})
    if obs['res2'] is not None:
        r2 = obs['res2']
        if r2[0] == 'err':
            fails.append({'class': 'not-idempotent', 'what': f'validating the result {r!r} again raised {r2[1]}'})
        elif not _py_equal(r2[1], res[1]):
            fails.append({'class': 'not-idempotent', 'what': f'validating the result {r!r} again gave {G.untag(r2[1])!r}'})
    return fails


def _py_equal(a, b):
    """python == on tagged values (-0.0 == 0.0, enum by identity of name/value)"""
    if a[0] == 'float' and b[0] == 'float':
        return G.dec_float(a[1]) == G.dec_float(b[1])
    if a[0] in ('list', 'tuple') and a[0] == b[0]:
        return len(a[1]) == len(b[1]) and all(_py_equal(x, y) for x, y in zip(a[1], b[1]))
    if a[0] == 'dict' and b[0] == 'dict':
        da, db = {tuple(k): x for k, x in a[1]}, {tuple(k): x for k, x in b[1]}
        return set(da) == set(db) and all(_py_equal(da[k], db[k]) for k in da)
    return a == b


class _Member:
    """stand-in for EnumMember on the oracle side"""
    def __init__(self, name, value):
        self.name, self.value = name, value

    def __repr__(self):
        return f'<{self.name}={self.value}>'


def _rebuild(d, obj, tagged):
    """tagged result -> python object with enum members as frappy EnumMember-like objects"""
    from frappy.lib.enum import Enum
    k = tagged[0]
    if k == 'enum':
        e = Enum('e', **{G.from_cps(tagged[1]): tagged[2]})
        return e[tagged[2]]
    if k in ('list', 'tuple'):
        subs = [d.get('elem')] * len(tagged[1]) if d['t'] == 'array' else list(d.get('elems', [])) + [None] * len(tagged[1])
        seq = [_rebuild(dd or {'t': 'bool'}, None, x) for dd, x in zip(subs, tagged[1])]
        return seq if k == 'list' else tuple(seq)
    if k == 'dict':
        m = dict(d['members']) if d['t'] == 'struct' else {}
        return {G.from_cps(kk): _rebuild(m.get(G.from_cps(kk), {'t': 'bool'}), None, x) for kk, x in tagged[1]}
    return G.untag(tagged)


# ------------------------------------------------------------------ known finding classes (narrow)
def _pairs(case):
    return list(positions(case['d'], cand_val(case)))


SCALARS = ('none', 'bool', 'int', 'float', 'opaque')


def f_import_noniterable(case, obs, f):
    return (f['class'] == 'other-exception' and f.get('exc') == 'TypeError' and case['op'] in ('import', 'wire')
            and any(t in ('array', 'tuple') and k in SCALARS for t, k, _ in _pairs(case)))


def f_struct_from_nonmapping(case, obs, f):
    return (f['class'] == 'other-exception' and f.get('exc') in ('ValueError', 'AttributeError', 'UnboundLocalError', 'TypeError')
            and any(t == 'struct' and k in ('str', 'bytes', 'list', 'tuple') for t, k, _ in _pairs(case)))


def f_scaled_import_reinterprets(case, obs, f):
    return (f['class'] == 'reinterpreted' and case['op'] in ('import', 'wire')
            and any(t == 'scaled' and (k in ('str', 'bytes') or (k == 'float' and x == x and not math.isinf(x) and not x.is_integer()))
                    for t, k, x in _pairs(case)))


def f_scaled_nonfinite(case, obs, f):
    def bad(t, k, x):
        if t != 'scaled' or k not in ('float', 'int', 'bool'):
            return False
        return True
    return (f['class'] == 'other-exception' and f.get('exc') in ('OverflowError', 'ValueError')
            and any(bad(t, k, x) for t, k, x in _pairs(case)))


def f_blob_lax_base64(case, obs, f):
    return (f['class'] == 'reinterpreted' and case['op'] in ('import', 'wire')
            and any(t == 'blob' and k in ('str', 'bytes') for t, k, _ in _pairs(case)))


def f_array_truncated_to_previous(case, obs, f):
    if f['class'] not in ('reinterpreted', 'out-of-set') or case['op'] not in ('validate', 'wire'):
        return False
    prev = G.untag(case['prev'])

    def walk(d, v, p):
        if d['t'] == 'array' and isinstance(v, (list, tuple, str, bytes, dict)) and isinstance(p, (list, tuple)) and p \
                and len(p) < len(v):
            return True
        if d['t'] == 'array' and isinstance(v, (list, tuple)) and isinstance(p, (list, tuple)):
            return any(walk(d['elem'], x, q) for x, q in zip(v, p))
        if d['t'] == 'tuple' and isinstance(v, (list, tuple)) and isinstance(p, (list, tuple)):
            return any(walk(dd, x, q) for dd, x, q in zip(d['elems'], v, p))
        return False
    return walk(case['d'], cand_val(case), prev)


def f_sequence_from_str_or_dict(case, obs, f):
    return (f['class'] in ('reinterpreted',)
            and any(t in ('array', 'tuple') and k in ('str', 'bytes', 'dict') for t, k, _ in _pairs(case)))


def f_tuple_import_truncates(case, obs, f):
    def walk(d, v):
        if d['t'] == 'tuple' and isinstance(v, (list, tuple)) and len(v) > len(d['elems']):
            return True
        return any(walk(dd, x) for dd, x in _children(d, v))
    return f['class'] == 'reinterpreted' and case['op'] in ('import', 'wire') and walk(case['d'], cand_val(case))


def _children(d, v):
    t = d['t']
    if t == 'array' and isinstance(v, (list, tuple)):
        return [(d['elem'], x) for x in v]
    if t == 'tuple' and isinstance(v, (list, tuple)):
        return list(zip(d['elems'], v))
    if t == 'struct' and isinstance(v, dict):
        m = dict(d['members'])
        return [(m[k], x) for k, x in v.items() if k in m]
    return []


def f_struct_none_member(case, obs, f):
    def bad(t, k, x):
        return t == 'struct' and k == 'dict' and any(y is None for y in x.values())
    return f['class'] in ('out-of-set', 'not-idempotent') and any(bad(t, k, x) for t, k, x in _pairs(case))


def f_scaled_huge_grid_revalidate(case, obs, f):
    """validate(validate(v)) fails / differs at a scaled leaf whose grid index exceeds 2^51 (min - scale rounds to min)"""
    def huge(d):
        if d['t'] == 'scaled':
            s = Fraction(G.dec_float(d['scale']))
            return s > 0 and max(abs(Fraction(G.dec_float(d['min']))), abs(Fraction(G.dec_float(d['max'])))) >= s * 2 ** 51
        if d['t'] == 'array':
            return huge(d['elem'])
        if d['t'] == 'tuple':
            return any(huge(x) for x in d['elems'])
        if d['t'] == 'struct':
            return any(huge(x) for _, x in d['members'])
        return False
    return f['class'] == 'not-idempotent' and huge(case['d'])


FINDING_CLASSIFIERS = {
    'import-noniterable-into-sequence': f_import_noniterable,
    'struct-from-nonmapping': f_struct_from_nonmapping,
    'scaled-import-reinterprets': f_scaled_import_reinterprets,
    'scaled-nonfinite-leaks': f_scaled_nonfinite,
    'blob-lax-base64': f_blob_lax_base64,
    'array-truncated-to-previous': f_array_truncated_to_previous,
    'sequence-from-str-or-dict': f_sequence_from_str_or_dict,
    'struct-none-for-mandatory': f_struct_none_member,
    'tuple-import-truncates': f_tuple_import_truncates,
    'scaled-huge-grid-revalidate': f_scaled_huge_grid_revalidate,
}


# ------------------------------------------------------------------ bookkeeping
def nontrivial_key(case, obs):
    if case['d']['t'] == 'bool':
        return None
    return repr((case['d'], case['op'], case['v'], case['prev']))


def outcome_labels(case, obs):
    r = obs['res']
    return [case['op'], 'type:' + case['d']['t'], 'ok' if r[0] == 'ok' else r[1]] + \
        (['frozen-candidate', 'frozen-candidate:' + ('ok' if r[0] == 'ok' else r[1])] if has_frozen(case['v']) else [])


def sample_repr(case, obs):
    return {'datatype': case['d'], 'op': case['op'], 'value': case['v'], 'previous': case['prev'], 'result': obs['res']}


# ------------------------------------------------------------------ generators
def gen_cases(seed, tier):
    rng = random.Random(seed * 7919 + 1)
    n = {'quick': 5000, 'thorough': 120000, 'search': 60000}[tier]
    nf = {'quick': 700, 'thorough': 15000, 'search': 10000}[tier]      # candidates holding frozen mappings
    depth = 2 if tier == 'quick' else 3
    cases = []
    while len(cases) < n - nf:
        d = G.rand_type(rng, rng.randint(0, depth), client=rng.random() < 0.2)
        for _ in range(rng.randint(2, 6)):
            op = rng.choice(OPS)
            wire = op in ('import', 'wire')
            r = rng.random()
            try:
                if r < 0.35:
                    v = G.rand_valid(rng, d, wire)
                elif r < 0.8:
                    v = G.mutate(rng, d, G.rand_valid(rng, d, wire), wire)
                else:
                    v = G.rand_any(rng, 2)
                prev = None
                if op in ('validate', 'wire') and rng.random() < 0.5:
                    prev = _valid_internal(rng, d)
            except (ValueError, IndexError, OverflowError):
                continue
            cases.append({'d': d, 'op': op, 'v': G.tag(v), 'prev': G.tag(prev)})
    cases = cases[:n - nf]
    return cases + frozen_cases(random.Random(seed * 104729 + 7), nf, depth)


def _has_struct(d):
    t = d['t']
    if t == 'struct':
        return True
    if t == 'array':
        return _has_struct(d['elem'])
    if t == 'tuple':
        return any(_has_struct(x) for x in d['elems'])
    return False


def _out_of_limits(rng, d, v):
    """v: a value of d in validated form; one position is pushed outside the limits, keeping the python type
    (what a conversion d(value) lets through: __call__ converts, it does not check limits)"""
    t = d['t']
    if t == 'float':
        a, b = G.dec_float(d['min']), G.dec_float(d['max'])
        c = [x for x in (b + 1.0, a - 1.0, b + abs(b) + 10.0, a - abs(a) - 10.0, b * 5.0, 1e300, -1e300)
             if x == x and not math.isinf(x) and not a <= x <= b]
        return rng.choice(c) if c else v
    if t == 'int':
        return rng.choice([d['max'] + 1, d['min'] - 1, d['max'] + 1000])
    if t == 'scaled':
        s = G.dec_float(d['scale'])
        return rng.choice([G.dec_float(d['max']) + 3 * s, G.dec_float(d['min']) - 3 * s, G.dec_float(d['max']) + 1000 * s])
    if t == 'string':
        return 'x' * (d['max'] + 1) if d['max'] < 50 else ('' if d['min'] > 0 else v)
    if t == 'blob':
        return b'x' * (d['max'] + 1) if d['max'] < 300 else v
    if t == 'array':
        if v and rng.random() < 0.8:
            l = list(v)
            i = rng.randrange(len(l))
            l[i] = _out_of_limits(rng, d['elem'], l[i])
            return tuple(l)
        return tuple(v) + tuple(v[:1]) * (d['max'] + 1 - len(v)) if v and d['max'] < 6 else v
    if t == 'tuple':
        l = list(v)
        i = rng.randrange(len(l))
        l[i] = _out_of_limits(rng, d['elems'][i], l[i])
        return tuple(l)
    if t == 'struct' and v:
        m = dict(d['members'])
        k = rng.choice(list(v))
        return dict(v, **{k: _out_of_limits(rng, m[k], v[k])})
    return v


def _other_struct(rng, d):
    """a struct type different from d (d: a struct descriptor): same member names with other member types / limits,
    or unrelated"""
    if rng.random() < 0.5:
        return {'t': 'struct', 'members': [[n, G.rand_type(rng, 0)] for n, _ in d['members']],
                'optional': list(d['optional']), 'client': False}
    d2 = G.rand_type(rng, 1)
    while d2['t'] != 'struct':
        d2 = G.rand_type(rng, 1)
    return d2


def _replace_struct(rng, d, v, todo):
    """v in validated form of d; the first struct position met (random walk) is replaced by a validated value of an
    other struct type"""
    t = d['t']
    if t == 'struct':
        if todo[0] and (rng.random() < 0.7 or not any(_has_struct(x) for _, x in d['members'])):
            todo[0] = False
            return _valid_internal(rng, _other_struct(rng, d))
        m = dict(d['members'])
        return {k: _replace_struct(rng, m[k], x, todo) for k, x in v.items()}
    if t == 'array':
        return tuple(_replace_struct(rng, d['elem'], x, todo) for x in v)
    if t == 'tuple':
        return tuple(_replace_struct(rng, dd, x, todo) for dd, x in zip(d['elems'], v))
    return v


def frozen_cases(rng, n, depth):
    """candidates that hold frozen mappings (ImmutableDict), offered to validate / __call__ of a type containing a
    struct: (a) a validated value offered again, (b) the result of a conversion d(value) with a position outside the
    limits, (c) the validated value of an other struct type, (d) mutated / malformed values with some mappings
    frozen - at the top, as members and inside lists and tuples; previous value mostly None"""
    cases = []
    while len(cases) < n:
        d = G.rand_type(rng, rng.randint(1, depth), client=rng.random() < 0.1)
        if not _has_struct(d):
            continue
        for _ in range(rng.randint(3, 7)):
            op = 'validate' if rng.random() < 0.8 else 'call'
            r = rng.random()
            try:
                if r < 0.2:
                    v = G.tag(_valid_internal(rng, d))
                elif r < 0.5:
                    v = G.tag(_out_of_limits(rng, d, _valid_internal(rng, d)))
                elif r < 0.7:
                    v = G.tag(_replace_struct(rng, d, _valid_internal(rng, d), [True]))
                elif r < 0.85:
                    v = G.tag(G.mutate(rng, d, G.rand_valid(rng, d, False), False))
                else:
                    v = G.tag(G.rand_valid(rng, d, False))
                v = freeze_tag(rng, v, 1.0 if r < 0.7 or rng.random() < 0.5 else 0.6)
                if rng.random() < 0.3 and v[0] == 'tuple':
                    v = ['list', v[1]]                    # a list of frozen structs
                prev = None
                if op == 'validate' and rng.random() < 0.2:
                    prev = _valid_internal(rng, d)
            except (ValueError, IndexError, OverflowError):
                continue
            if has_frozen(v):
                cases.append({'d': d, 'op': op, 'v': v, 'prev': G.tag(prev)})
    return cases[:n]


def _valid_internal(rng, d):
    """a value as the cache would hold it (validated form, containers as tuples / dicts)"""
    v = G.rand_valid(rng, d, False)

    def norm(d, v):
        t = d['t']
        if t == 'array':
            return tuple(norm(d['elem'], x) for x in v)
        if t == 'tuple':
            return tuple(norm(dd, x) for dd, x in zip(d['elems'], v))
        if t == 'struct':
            m = dict(d['members'])
            return {k: norm(m[k], x) for k, x in v.items()}
        if t == 'float':
            return float(v)
        if t == 'int':
            return int(v)
        if t == 'bool':
            return bool(v)
        if t == 'enum':
            return v if isinstance(v, int) else dict((n, c) for n, c in d['members'])[v]
        return v
    return norm(d, v)


def shrink(case):
    v = case['v']
    if v[0] in ('list', 'tuple') and v[1]:
        for i in range(len(v[1])):
            yield dict(case, v=[v[0], v[1][:i] + v[1][i + 1:]])
    if v[0] in ('dict', 'frozen') and v[1]:
        for i in range(len(v[1])):
            yield dict(case, v=[v[0], v[1][:i] + v[1][i + 1:]])
    if v[0] in ('list', 'tuple') and len(v[1]) == 1 and case['d']['t'] == 'array' and case['d']['min'] <= 1:
        yield dict(case, d=case['d']['elem'], v=v[1][0], prev=['none'])
    if case['prev'] != ['none']:
        yield dict(case, prev=['none'])
