"""C04 — no invalid, forbidden or out-of-limit request reaches the driver:
implementation driver (real Module classes built with type(), real SecNode + Dispatcher + RequestHandler.handle around
a recording fake driver), case encoder, direct oracle (written from the property text), generators"""
import contextlib
import inspect
import io
import math
import random

from harness import dtgen as G
from harness import gal

ID = 'C04'
COQ_DIRS = ['C01']
MODEL_TARGETS = ['theories/C04/Run.vo']
PROOF_TARGETS = ['theories/C04/Properties.vo']
PROPERTIES_V = 'theories/C04/Properties.v'
IMPORTS = 'Require Import FV.Base.F64 FV.Base.PyVal FV.C01.Model FV.Gen.C04 FV.C04.Model FV.C04.ConcModel FV.C04.Run.'
CASE_TYPE = 'xcase'
CHECK = 'check_xcase'
SHARD_SIZE = 100
RULE = ('a generated module class (two class levels built with type(): 1-4 parameters over int/float/scaled/bool/enum/string/'
        'array/tuple/struct datatypes with readonly/constant/export(True, False, custom name) flags and optional '
        'write_<p> methods, Limit parameters <p>_min/_max/_limits on either class level, user check_<p> hooks on either level '
        '(never / always / value > self.<q>; raise RangeError / return True / raise ValueError), 0-2 commands with none/scalar/'
        'tuple/struct argument and optional result type) behind a real SecNode + Dispatcher; a history of 3-9 change/do requests '
        'fed through the real RequestHandler.handle loop: payloads from the specification-side value set (transport form), '
        'single-position mutations (limits +-1/ulp/tolerance, wrong lengths, missing/unknown members), arbitrary JSON values, '
        'addressed to writable / readonly / constant / unexported / unknown accessibles, unknown modules, commands as parameters '
        'and vice versa, specifiers without accessible; limit parameters are moved by earlier requests of the same history; the '
        'fake driver follows a script per request (returns None / Done / a read-back value / raises HardwareError, RangeError, '
        'ZeroDivisionError).  Compared with the model after every request: reply class, driver calls with their values, hook '
        'calls, emitted updates, whole parameter cache.  non-trivial = at least one request passed the name and access tests '
        '(validation, limits, hooks or driver decided); distinct = distinct (module, requests).  CONCURRENT cases (kind conc): '
        'one module with 2 numeric parameters, limit parameters and hooks; 2-3 REAL threads under the deterministic scheduler '
        'harness/dsched.py, each executing 1-2 operations: a change request through the real Dispatcher.handle_request '
        '(connection thread) or a direct call of a write wrapper write_<p>(v) (internal thread) on the parameter, on one of its '
        'limit parameters or on the parameter a hook compares with; switch points: acquire of Dispatcher._lock and of the '
        'module accessLock (both replaced by scheduler RLocks), every check_<p> hook call, every checkLimits call, every driver '
        'call, thread start/join; schedules: explicit per-step choices (random) and, for a family of small scenarios (request '
        'for a = 5 against a limit being moved so that 5 becomes forbidden / a hook operand being moved), ALL schedules with at '
        'most one preemption (dsched.explore).  The driver records the parameter cache at the moment it is called.  Compared '
        'with the concurrent model event by event (lock acquisitions, check calls with values, driver calls with value and '
        'cache, updates, results, final cache); non-trivial = at least one driver/check event; distinct = distinct (module, '
        'thread programs, executed schedule).')
ASSUMPTIONS = [
    'one module per node, omit_unchanged_within = 0; sequential cases handle requests one at a time; concurrent cases: threads '
    'interleave at synchronisation points only (lock acquisitions, check/driver calls made switch points by the harness), not '
    'between two bytecodes; the module state is changed only through write wrappers (change requests, internal write_<p> calls): '
    'direct attribute assignments by user code outside a wrapper, read wrappers and pollers are not part of the concurrent model; '
    'no wrapper is called from inside a wrapper (the re-entrancy of the RLock is not modelled)',
    'datatypes restricted to int, float, scaled, bool, enum, string, array, tuple, struct (no blob); payloads are JSON kinds; '
    'numbers offered to scaled types stay below 1e30 (representability guard of C01 validate_total)',
    'limit parameters (<p>_min, <p>_max, <p>_limits in every combination) only on int/float/scaled parameters',
    'check_<p> hooks and driver functions are user code: hooks are arbitrary functions of (value, cache) in the theorems and the '
    'three generated shapes in the correspondence; the driver follows a per-request script; neither touches the module otherwise',
    'export_value of a validated value does not fail: no longer assumed, proved as C04_validated_values_export (in_setb -> exportable, '
    'every datatype tree); C04_error_clean (no exception) holds in every state reachable from a cache whose values lie in their value '
    'sets (cache_ok, preserved: C04_history_invariant); the model keeps the failing branch (store, then WrongType) because the code has '
    'it, and C04_error_clean_except_unexportable is the statement for arbitrary caches',
    'exported names are unique within the module (accessiblename2attr is a dict; the model takes the first match)',
]

ERR_CLASSES = ['NoSuchModule', 'NoSuchParameter', 'NoSuchCommand', 'ReadOnly', 'WrongType', 'RangeError', 'HardwareError',
               'InternalError', 'ProtocolError']
PREDEFINED = {'value': 'param', 'status': 'param', 'target': 'param', 'pollinterval': 'param', 'stop': 'cmd', 'go': 'cmd',
              'hold': 'cmd', 'shutdown': 'cmd', 'communicate': 'cmd', 'controlled_by': 'param', 'control_active': 'param'}


# ------------------------------------------------------------------ specification-side naming / check lists
def export_name(kind, name, export, limit_head=None):
    """wire name of an accessible (None: not exported); kind: param | cmd | limit"""
    if export is False:
        return None
    if export is not True:
        return export
    if kind == 'limit':
        return name if PREDEFINED.get(limit_head) else '_' + name
    return name if PREDEFINED.get(name) == kind else '_' + name


def limit_desc(md, lim):
    base = next(p for p in md['params'] if p['name'] == lim['base'])
    if lim['postfix'] == 'limits':
        return {'t': 'tuple', 'elems': [base['d'], base['d']]}
    return base['d']


def all_params(md):
    """[(attribute name, exported name, descriptor, readonly, constant, has write method)] incl. limit parameters"""
    res = []
    for p in md['params']:
        res.append((p['name'], export_name('param', p['name'], p['export']) if md['export'] else None, p['d'],
                    bool(p['readonly']) or p['constant'] is not None, p['constant'] is not None, bool(p['write'])))
    for lim in md['limits']:
        n = f"{lim['base']}_{lim['postfix']}"
        res.append((n, export_name('limit', n, lim['export'], lim['base']) if md['export'] else None, limit_desc(md, lim),
                    False, False, False))
    return res


def checks_for(md, pname):
    """check_<p> functions along the MRO (sub class first): user hook of the level, else the generated checkLimits lambda if
    a limit parameter of p is defined on that level"""
    res = []
    for level in (1, 0):
        user = [h for h in md['hooks'] if h['param'] == pname and h['level'] == level]
        if user:
            res.append(['user', user[0]['id']])
        elif any(lim['base'] == pname and lim['level'] == level for lim in md['limits']):
            res.append(['auto'])
    return res


# ------------------------------------------------------------------ implementation driver
class _Log:
    handlers = []
    parent = None
    propagate = False

    def __getattr__(self, name):
        return lambda *a, **k: None

    def getChild(self, *a, **k):
        return self


class _Rec:
    sched = None                 # concurrent cases: the dsched scheduler (driver and hook calls are switch points)

    def __init__(self):
        self.drv, self.hooks, self.upd = [], [], []
        self.cur = None

    def behave(self):
        from frappy.errors import HardwareError, RangeError
        from frappy.modulebase import Done
        b = self.cur
        if b[0] == 'none':
            return None
        if b[0] == 'done':
            return Done
        if b[0] == 'val':
            return G.untag(b[1])
        if b[1] == 'hw':
            raise HardwareError('scripted')
        if b[1] == 'range':
            raise RangeError('scripted')
        raise ZeroDivisionError('scripted')


def _make_write(rec, name):
    def w(self, value):
        if rec.sched is not None:
            rec.sched.switch('driver:' + name)
            rec.log('drv', name, G.tag(value), rec.snapshot())      # value and the module's cache at this very moment
        rec.drv.append(['write', name, G.tag(value)])
        return rec.behave()
    w.__name__ = 'write_' + name
    return w


def _make_hook(rec, h):
    def hk(self, value):
        from frappy.errors import RangeError
        if rec.sched is not None:
            rec.sched.switch('hook:%d' % h['id'])
            rec.log('hook', h['id'], G.tag(value))
        rec.hooks.append([h['id'], G.tag(value)])
        c = h['cond']
        hit = c[0] == 'always' or (c[0] == 'gt' and value > getattr(self, c[1]))
        if not hit:
            return None
        if h['act'] == 'range':
            raise RangeError('hook')
        if h['act'] == 'stop':
            return True
        raise ValueError('hook')
    hk.__name__ = 'check_' + h['param']
    return hk


def _make_cmd(rec, c):
    kind = c['arg']['t'] if c['arg'] else None

    def f(self, *args, **kwargs):
        if kind == 'tuple':
            a = G.tag(tuple(args))
        elif kind == 'struct':
            a = G.tag(dict(kwargs))
        elif kind is None:
            a = ['tuple', []]
        else:
            a = G.tag(args[0])
        rec.drv.append(['call', c['name'], a])
        return rec.behave()
    f.__name__ = c['name']
    if kind == 'struct':
        P = inspect.Parameter
        names = [n for n, _ in c['arg']['members']]
        opt = set(c['arg']['optional'])
        ps = [P('self', P.POSITIONAL_OR_KEYWORD)]
        ps += [P(n, P.POSITIONAL_OR_KEYWORD) for n in names if n not in opt]
        ps += [P(n, P.POSITIONAL_OR_KEYWORD, default=None) for n in names if n in opt]
        f.__signature__ = inspect.Signature(ps)
    return f


def build_class(md, rec):
    from frappy.core import Command, Module, Parameter
    from frappy.params import Limit
    ns = [{}, {}]
    for p in md['params']:
        kw = {'readonly': bool(p['readonly']), 'export': p['export']}
        if p['constant'] is not None:
            kw['constant'] = G.untag(p['constant'])
        if p['default'] is not None:
            kw['default'] = G.untag(p['default'])
        ns[0][p['name']] = Parameter('p', G.build(p['d']), **kw)
        if p['write']:
            ns[0]['write_' + p['name']] = _make_write(rec, p['name'])
    for lim in md['limits']:
        # Limit(export=False) cannot be declared at all (Limit.__set_name__ calls self.export.startswith); an explicit
        # export=True changes the automatic name of limits of predefined parameters - the plain form is the usual one
        ns[lim['level']][f"{lim['base']}_{lim['postfix']}"] = Limit() if lim['export'] is True else Limit(export=lim['export'])
    for c in md['cmds']:
        deco = Command(G.build(c['arg']) if c['arg'] else None, result=G.build(c['res']) if c['res'] else None,
                       export=c['export'], description='c')
        ns[0][c['name']] = deco(_make_cmd(rec, c))
    for h in md['hooks']:
        ns[h['level']]['check_' + h['param']] = _make_hook(rec, h)
    base = type('B0', (Module,), ns[0])
    return type('C1', (base,), ns[1])


def _errname(reply):
    return reply[2][0] if isinstance(reply[2], list) and reply[2] else '?'


def run_case(case):
    from frappy.lib import generalConfig
    from frappy.protocol.interface import handler as hmod
    saved = generalConfig._config
    generalConfig.testinit(omit_unchanged_within=0)
    # the traceback texts of an error report are dropped again by handle() (detailed_errors = False) but cost a repr of
    # every local variable of every stack frame (including the worker pool's case lists): stub the three formatters
    fmt = (hmod.formatException, hmod.formatExtendedStack, hmod.formatExtendedTraceback)
    hmod.formatException = hmod.formatExtendedStack = hmod.formatExtendedTraceback = lambda *a, **k: ''
    try:
        with contextlib.redirect_stdout(io.StringIO()):
            return _run_conc(case) if is_conc(case) else _run(case)
    finally:
        hmod.formatException, hmod.formatExtendedStack, hmod.formatExtendedTraceback = fmt
        generalConfig._config = saved


def _run(case):
    from frappy.protocol.dispatcher import Dispatcher
    from frappy.protocol.interface.handler import ConnectionClose, RequestHandler
    from frappy.secnode import SecNode
    md = case['mod']
    rec = _Rec()
    cls = build_class(md, rec)

    class Srv:
        restart = shutdown = None
        module_cfg = {}
        detailed_errors = False

        def __init__(self):
            self.log = _Log()
            self.secnode = SecNode('node', _Log(), {}, self)
            self.dispatcher = Dispatcher('dispatcher', _Log(), {}, self)

    srv = Srv()
    m = cls(md['name'], _Log(), {'description': 'x', 'export': bool(md['export'])}, srv)
    srv.secnode.add_module(m, md['name'])
    for lim in md['limits']:
        if lim['init'] is not None:
            setattr(m, f"{lim['base']}_{lim['postfix']}", G.untag(lim['init']))

    class Conn:
        def send_reply(self, msg):
            modname, _, ename = msg[1].partition(':')
            attr = m.accessiblename2attr.get(ename)
            pobj = m.parameters.get(attr)
            if msg[0] != 'update' or pobj is None:
                rec.upd.append(['?' + str(msg[0]), ['none'], False])
                return
            consistent = modname == md['name'] and _jeq(msg[2][0], pobj.datatype.export_value(pobj.value))
            rec.upd.append([attr, G.tag(pobj.value), bool(consistent)])
    srv.dispatcher._active_connections.add(Conn())

    def snapshot():
        return sorted([n, G.tag(p.value)] for n, p in m.parameters.items())

    names = all_params(md)
    real_names = dict(m.accessiblename2attr)
    want_names = {e: n for n, e, *_ in names if e is not None}
    for c in md['cmds']:
        e = export_name('cmd', c['name'], c['export']) if md['export'] else None
        if e is not None:
            want_names[e] = c['name']
    gd = {}
    for n, _e, d, *_ in names:
        gd[n] = G.gal_dtype(d, m.parameters[n].datatype)
    for c in md['cmds']:
        cobj = m.commands[c['name']]
        gd['arg:' + c['name']] = G.gal_dtype(c['arg'], cobj.argument) if c['arg'] else None
        gd['res:' + c['name']] = G.gal_dtype(c['res'], cobj.result) if c['res'] else None
    init = snapshot()
    steps = []
    reqs = case['reqs']

    class H(RequestHandler):
        def __init__(self):
            self.i = -1
            self.first = True
            super().__init__(None, None, srv)

        def receive(self):
            if self.first:
                self.first = False
                return b'x'
            raise ConnectionClose()

        def ingest(self, newdata):
            pass

        def next_message(self):
            self.i += 1
            if self.i >= len(reqs):
                return None
            r = reqs[self.i]
            rec.drv, rec.hooks, rec.upd = [], [], []
            rec.cur = r['drv']
            spec = r['mod'] if r['acc'] is None else f"{r['mod']}:{r['acc']}"
            return (r['act'], spec, G.untag(r['data']))

        def send_reply(self, data):
            r = reqs[self.i]
            iserr = str(data[0]).startswith('error_')
            st = {'ra': data[0], 'rs': data[1], 'reply': _errname(data) if iserr else 'ok', 'rv': None, 'exp': None,
                  'drv': rec.drv, 'hooks': rec.hooks, 'upd': rec.upd, 'cache': snapshot()}
            if not iserr and r['act'] == 'change':
                st['rv'] = G.tag(data[2][0])
                attr = m.accessiblename2attr.get(r['acc'] if r['acc'] is not None else 'target')
                pobj = m.parameters.get(attr)
                if pobj is not None:
                    st['exp'] = G.tag(pobj.export_value())
            steps.append(st)

        def format(self):
            return 'fake'

        def finish(self):
            if self in srv.dispatcher._connections:
                srv.dispatcher._connections.remove(self)

    H()
    return {'init': init, 'steps': steps, 'gd': gd, 'names_ok': real_names == want_names,
            'real_names': sorted(real_names.items()),
            'env': G.pyenv_for([r['data'] for r in reqs])}


def _jeq(a, b):
    """equality of exported (JSON) values, nan == nan"""
    if isinstance(a, float) and isinstance(b, float):
        return a == b or (a != a and b != b)
    if isinstance(a, (list, tuple)) and isinstance(b, (list, tuple)):
        return len(a) == len(b) and all(_jeq(x, y) for x, y in zip(a, b))
    if isinstance(a, dict) and isinstance(b, dict):
        return set(a) == set(b) and all(_jeq(a[k], b[k]) for k in a)
    return a == b


# ------------------------------------------------------------------ encoding into Gallina
def gs(s):
    return G.gal_str(G.cps(s))


def enc_err(e):
    return {'hw': '(ESecop HardwareError)', 'range': '(ESecop RangeError)', 'py': 'EPy'}[e]


def enc_drv(b):
    if b[0] == 'none':
        return 'DNone'
    if b[0] == 'done':
        return 'DDone'
    if b[0] == 'val':
        return f'(DVal {G.gal_val(b[1])})'
    return f'(DRaise {enc_err(b[1])})'


def enc_cache(c):
    return gal.lst(c, lambda p: f'({gs(p[0])}, {G.gal_val(p[1])})')


def enc_md(md, gd):
    accs = []
    for n, e, _d, ro, const, wr in all_params(md):
        cks = gal.lst(checks_for(md, n), lambda c: 'CkAuto' if c[0] == 'auto' else f'(CkUser {gal.nat(c[1])})')
        accs.append('(AParam {| p_name := %s; p_export := %s; p_dt := %s; p_readonly := %s; p_constant := %s; '
                    'p_haswrite := %s; p_checks := %s |})' % (
                        gs(n), gal.option(e, gs), gd[n], gal.boolean(ro), gal.boolean(const), gal.boolean(wr), cks))
    for c in md['cmds']:
        e = export_name('cmd', c['name'], c['export']) if md['export'] else None
        a, r = gd['arg:' + c['name']], gd['res:' + c['name']]
        accs.append('(ACmd {| c_name := %s; c_export := %s; c_arg := %s; c_res := %s |})' % (
            gs(c['name']), gal.option(e, gs), 'None' if a is None else f'(Some {a})', 'None' if r is None else f'(Some {r})'))
    return '{| md_name := %s; md_export := %s; md_acc := [%s] |}' % (gs(md['name']), gal.boolean(md['export']), '; '.join(accs))


def enc_hook(h):
    c = h['cond']
    cond = {'never': 'HcNever', 'always': 'HcAlways'}.get(c[0]) or f'(HcGt {gs(c[1])})'
    act = {'range': 'HaRange', 'stop': 'HaStop', 'py': 'HaPy'}[h['act']]
    return f'({gal.nat(h["id"])}, ({cond}, {act}))'


def enc_req(r):
    return '{| rq_act := %s; rq_mod := %s; rq_acc := %s; rq_data := %s; rq_drv := %s |}' % (
        'AChange' if r['act'] == 'change' else 'ADo', gs(r['mod']), gal.option(r['acc'], gs), G.gal_val(r['data']),
        enc_drv(r['drv']))


def enc_obs(st):
    if st['reply'] == 'ok':
        rep = 'None'
    elif st['reply'] in ERR_CLASSES:
        rep = f'(Some {st["reply"]})'
    else:
        raise ValueError(f'error class outside the model: {st["reply"]}')
    drv = gal.lst(st['drv'], lambda c: f'({"Write" if c[0] == "write" else "Call"} {gs(c[1])} {G.gal_val(c[2])})')
    hooks = gal.lst(st['hooks'], lambda h: f'({gal.nat(h[0])}, {G.gal_val(h[1])})')
    upd = gal.lst(st['upd'], lambda u: f'({gs(u[0])}, {G.gal_val(u[1])})')
    return '{| ob_reply := %s; ob_drv := %s; ob_hooks := %s; ob_upd := %s; ob_cache := %s |}' % (
        rep, drv, hooks, upd, enc_cache(st['cache']))


def encode(case, obs):
    if is_conc(case):
        return enc_conc(case, obs)
    return f'(XSeq {encode_seq(case, obs)})'


def encode_seq(case, obs):
    if len(obs['steps']) != len(case['reqs']):
        raise ValueError(f"{len(obs['steps'])} replies for {len(case['reqs'])} requests")
    return ('{| c_env := %s; c_md := %s; c_hooks := %s; c_init := %s; c_reqs := %s; c_obs := %s |}' % (
        G.gal_pyenv(obs['env']), enc_md(case['mod'], obs['gd']), gal.lst(case['mod']['hooks'], enc_hook),
        enc_cache(obs['init']), gal.lst(case['reqs'], enc_req), gal.lst(obs['steps'], enc_obs)))


def model_result_term(case, obs):
    if is_conc(case):
        return f'conc_result ({enc_conc(case, obs, wrap=False)})'
    return f'model_result ({encode_seq(case, obs)})'


# ------------------------------------------------------------------ direct oracle: the property on the observations
BADVALUE = ('WrongType', 'RangeError')


def _rebuild(d, tagged):
    from harness.props import C01
    return C01._rebuild(d, None, tagged)


def clearly_valid(d, j):
    """conservative: True only if the transport value j certainly denotes a value of d (strictly inside all limits)"""
    t = d['t']
    if t == 'float':
        if isinstance(j, bool) or not isinstance(j, (int, float)) or j != j or abs(j) > 1e300:
            return False
        return G.dec_float(d['min']) <= j <= G.dec_float(d['max'])
    if t == 'int':
        return type(j) is int and d['min'] <= j <= d['max']
    if t == 'scaled':
        s = G.dec_float(d['scale'])
        a, b = G.dec_float(d['min']), G.dec_float(d['max'])
        return type(j) is int and abs(j) < 2 ** 50 and round(a / s) + 1 <= j <= round(b / s) - 1
    if t == 'bool':
        return type(j) is bool
    if t == 'enum':
        return type(j) is int and j in [v for _, v in d['members']]
    if t == 'string':
        return type(j) is str and d['min'] <= len(j) <= d['max'] and '\0' not in j and (d['utf8'] or j.isascii())
    if t == 'array':
        return type(j) is list and d['min'] <= len(j) <= d['max'] and all(clearly_valid(d['elem'], x) for x in j)
    if t == 'tuple':
        return type(j) is list and len(j) == len(d['elems']) and all(clearly_valid(dd, x) for dd, x in zip(d['elems'], j))
    if t == 'struct':
        m = dict(d['members'])
        return (type(j) is dict and all(k in m for k in j) and all(n in j for n in m if n not in d['optional'])
                and all(clearly_valid(m[k], x) for k, x in j.items()))
    return False


def clearly_invalid(d, j, has_previous):
    """conservative: True only if the transport value j certainly denotes no value of d"""
    t = d['t']
    isnum = isinstance(j, (int, float)) and not isinstance(j, bool)
    if t == 'float':
        if isinstance(j, bool):
            return False
        if not isnum or j != j:
            return True
        lo, hi = G.dec_float(d['min']), G.dec_float(d['max'])
        if abs(j) > 1e300:
            return False
        tol = 2 * max(G.dec_float(d['abs']) if 'abs' in d else 0.0, abs(j) * (G.dec_float(d['rel']) if 'rel' in d else 1.2e-7))
        return j < lo - tol - abs(lo) * 1e-9 or j > hi + tol + abs(hi) * 1e-9
    if t == 'int':
        if isinstance(j, bool):
            return False
        if not isnum or j != j:
            return True
        return j < d['min'] or j > d['max'] or (isinstance(j, float) and not j.is_integer())
    if t == 'scaled':
        if isinstance(j, bool):
            return False
        if not isnum or j != j:
            return True
        s = G.dec_float(d['scale'])
        if isinstance(j, float) and not j.is_integer():
            return True
        return j < round(G.dec_float(d['min']) / s) - 1 or j > round(G.dec_float(d['max']) / s) + 1
    if t == 'bool':
        return not (isinstance(j, (bool, int, float)) and j in (0, 1))
    if t == 'enum':
        if isinstance(j, bool):
            return False
        if isinstance(j, str):
            return j not in [n for n, _ in d['members']]
        if isnum:
            return j not in [v for _, v in d['members']]
        return True
    if t == 'string':
        return not isinstance(j, str) or not d['min'] <= len(j) <= d['max'] or '\0' in j or (not d['utf8'] and not j.isascii())
    if t == 'array':
        return (not isinstance(j, list) or not d['min'] <= len(j) <= d['max']
                or any(clearly_invalid(d['elem'], x, False) for x in j))
    if t == 'tuple':
        return (not isinstance(j, list) or len(j) != len(d['elems'])
                or any(clearly_invalid(dd, x, False) for dd, x in zip(d['elems'], j)))
    if t == 'struct':
        m = dict(d['members'])
        if not isinstance(j, dict) or any(k not in m for k in j):
            return True
        if any(x is not None and clearly_invalid(m[k], x, False) for k, x in j.items()):
            return True
        if not has_previous and any(n not in j or j[n] is None for n in m if n not in d['optional']):
            return True
        return False
    return False


def _num(x):
    return isinstance(x, (int, float)) and not isinstance(x, bool)


def limits_verdict(md, pname, w, cache):
    """dynamic limits of pname against value w: 'ok' | 'violated' | 'unclear' (non-numeric), from the property text:
    <p>_min <= w <= <p>_max, <p>_limits[0] <= w <= <p>_limits[1], an inverted pair admits nothing"""
    verdict = 'ok'
    for lim in md['limits']:
        if lim['base'] != pname:
            continue
        b = cache.get(f"{pname}_{lim['postfix']}")
        if lim['postfix'] == 'limits':
            if not (isinstance(b, tuple) and len(b) == 2 and _num(b[0]) and _num(b[1]) and _num(w)):
                return 'unclear'
            if not b[0] <= w <= b[1]:
                verdict = 'violated'
        else:
            if not (_num(b) and _num(w)):
                return 'unclear'
            if (lim['postfix'] == 'min' and w < b) or (lim['postfix'] == 'max' and w > b):
                verdict = 'violated'
    lo, hi = cache.get(pname + '_min'), cache.get(pname + '_max')
    if _num(lo) and _num(hi) and lo > hi:
        verdict = 'violated'
    return verdict


def hooks_verdict(md, pname, w, cache):
    """user hooks of pname in MRO order on value w: 'ok' | 'range' | 'py' (first hook that raises; a hook returning True
    ends the chain, as the check_ protocol documents)"""
    for c in checks_for(md, pname):
        if c[0] != 'user':
            continue
        h = next(h for h in md['hooks'] if h['id'] == c[1])
        cond = h['cond']
        if cond[0] == 'never':
            continue
        if cond[0] == 'gt':
            q = cache.get(cond[1])
            if not (_num(q) and _num(w)):
                return 'unclear'
            if not w > q:
                continue
        if h['act'] == 'stop':
            return 'ok-stopped'
        return h['act']
    return 'ok'


def auto_skipped(md, pname, w, cache):
    """a user hook that returns True for w stands before the generated limit check in the chain"""
    for c in checks_for(md, pname):
        if c[0] == 'auto':
            return False
        h = next(h for h in md['hooks'] if h['id'] == c[1])
        cond = h['cond']
        hit = cond[0] == 'always' or (cond[0] == 'gt' and _num(cache.get(cond[1])) and _num(w) and w > cache.get(cond[1]))
        if hit and h['act'] == 'stop':
            return True
        if hit:
            return False
    return False


def auto_present(md, pname):
    return any(c[0] == 'auto' for c in checks_for(md, pname))


def oracle(case, obs):
    if is_conc(case):
        return oracle_conc(case, obs)
    return oracle_seq(case, obs)


def oracle_seq(case, obs):
    from harness.props import C01
    md = case['mod']
    fails = []

    def fail(i, cls, what, **kw):
        fails.append(dict({'class': cls, 'what': f'request {i} ({_show(case["reqs"][i])}): {what}', 'req': i}, **kw))

    if not obs['names_ok']:
        fails.append({'class': 'export-map', 'what': f'wire names {obs["real_names"]} differ from the described ones'})
    if len(obs['steps']) != len(case['reqs']):
        fails.append({'class': 'reply-count', 'what': f'{len(obs["steps"])} replies for {len(case["reqs"])} requests'})
        return fails
    params = {n: (e, d, ro, const, wr) for n, e, d, ro, const, wr in all_params(md)}
    by_export = {e: n for n, (e, *_r) in params.items() if e is not None}
    cmds = {c['name']: c for c in md['cmds']}
    cmd_by_export = {}
    for c in md['cmds']:
        e = export_name('cmd', c['name'], c['export']) if md['export'] else None
        if e is not None:
            cmd_by_export[e] = c['name']
    before_t = obs['init']
    for i, (r, st) in enumerate(zip(case['reqs'], obs['steps'])):
        before = {n: _rebuild(params[n][1], t) for n, t in before_t}
        after_t = st['cache']
        untouched = _same_cache(before_t, after_t) and not st['upd']
        j = G.untag(r['data'])
        spec = r['mod'] if r['acc'] is None else f"{r['mod']}:{r['acc']}"
        # reply frame: one reply, echoing the specifier, error_<action> for errors
        if st['rs'] != spec or st['ra'] not in (('changed', 'error_change') if r['act'] == 'change' else ('done', 'error_do')):
            fail(i, 'reply-frame', f'reply {st["ra"]} {st["rs"]!r}')
        iserr = st['reply'] != 'ok'
        if any(not u[2] for u in st['upd']):
            fail(i, 'update-inconsistent', f'update message does not carry the cached value: {st["upd"]}')
        if r['act'] == 'change':
            ename = r['acc'] if r['acc'] is not None else 'target'
            pname = by_export.get(ename) if r['mod'] == md['name'] else None
            if pname is None:
                want = ['NoSuchModule'] if r['mod'] != md['name'] else ['NoSuchParameter']
                _refused(fail, i, st, untouched, want, 'no such exported parameter')
                before_t = after_t
                continue
            e, d, ro, const, wr = params[pname]
            if ro or const:
                _refused(fail, i, st, untouched, ['ReadOnly'], 'parameter is readonly/constant')
                before_t = after_t
                continue
            prev = before.get(pname)
            writes = [c for c in st['drv'] if c[0] == 'write']
            if len(st['drv']) != len(writes) or len(writes) > 1 or any(c[1] != pname for c in writes):
                fail(i, 'wrong-driver-call', f'driver calls {st["drv"]}')
                before_t = after_t
                continue
            accepted = bool(writes) or (not iserr and not wr)
            if accepted:
                # what reached the driver (or, without write method, the cache) must be the valid, checked value
                wt = writes[0][2] if writes else dict((n, t) for n, t in after_t)[pname]
                w = _rebuild(d, wt)
                why = []
                if not C01.in_set(d, w, why):
                    fail(i, 'invalid-value-reached-driver', f'value {w!r} is outside the datainfo: {why[:1]}')
                why = []
                if not C01.denotes(d, j, w, prev, 'wire', why):
                    fail(i, 'other-value-reached-driver', f'value {w!r} is not the requested one: {why[:1]}')
                lv = limits_verdict(md, pname, w, before)
                if lv == 'violated' and auto_present(md, pname) and not auto_skipped(md, pname, w, before):
                    fail(i, 'limit-violated', f'value {w!r} accepted against the limits in {_lims(md, pname, before)}')
                hv = hooks_verdict(md, pname, w, before)
                if hv in ('range', 'py'):
                    fail(i, 'hook-ignored', f'value {w!r} accepted although check_{pname} refuses it')
                if len(writes) == 1 and not wr:
                    fail(i, 'wrong-driver-call', 'write call without write method')
                # after the driver: success => cache holds the driver's word (or the value), exactly one update
                if not iserr:
                    newv = dict((n, t) for n, t in after_t)[pname]
                    others_same = _same_cache([x for x in before_t if x[0] != pname], [x for x in after_t if x[0] != pname])
                    if not others_same:
                        fail(i, 'foreign-cache-change', 'another parameter changed')
                    if r['drv'][0] == 'done' and wr:
                        if not untouched:
                            fail(i, 'done-changed-cache', 'driver returned Done but cache/updates changed')
                    else:
                        if [u[:2] for u in st['upd']] != [[pname, newv]]:
                            fail(i, 'update-missing', f'updates {st["upd"]} for new value {newv}')
                        if (r['drv'][0] == 'none' or not wr) and not C01._py_equal(newv, wt):
                            fail(i, 'cache-not-written-value', f'cache {newv} after writing {wt}')
                    if st['rv'] is not None and st['exp'] is not None and not C01._py_equal(st['rv'], st['exp']):
                        fail(i, 'reply-not-cache', f'reply carries {st["rv"]}, cache exports {st["exp"]}')
                elif not untouched:
                    fail(i, 'failed-write-changed-cache', 'error reply but cache/updates changed')
            else:
                # refused before the driver
                if not iserr:
                    fail(i, 'accepted-without-driver', 'success reply but write method not called')
                elif not untouched:
                    fail(i, 'refusal-not-clean', f'refused ({st["reply"]}) but cache/updates changed')
                cv = clearly_valid(d, j)
                ci = clearly_invalid(d, j, True)
                scalar = not isinstance(j, (dict, list))
                lv = limits_verdict(md, pname, _expected(d, j), before) if cv and scalar else 'unclear'
                hv = hooks_verdict(md, pname, _expected(d, j), before) if cv and scalar else 'unclear'
                if not scalar and cv and not checks_for(md, pname):
                    lv = hv = 'ok'
                py_possible = any(h['param'] == pname and h['act'] == 'py' and h['cond'][0] != 'never' for h in md['hooks'])
                if iserr:
                    if cv and lv == 'ok' and hv in ('ok', 'ok-stopped') and _limits_usable(md, pname, before):
                        fail(i, 'valid-request-refused', f'valid request answered {st["reply"]}')
                    elif st['reply'] in BADVALUE:
                        if cv and st['reply'] != 'RangeError' and (lv == 'violated' or hv == 'range'):
                            fail(i, 'unfitting-error-class', f'limit/hook refusal answered {st["reply"]}')
                    elif ci:
                        fail(i, 'unfitting-error-class', f'invalid payload answered {st["reply"]}')
                    elif not py_possible:
                        fail(i, 'unfitting-error-class', f'refusal answered {st["reply"]}')
        else:
            cname = cmd_by_export.get(r['acc']) if (r['mod'] == md['name'] and r['acc'] is not None) else None
            if not untouched:
                fail(i, 'do-changed-cache', 'a do request changed cache/updates')
            if cname is None:
                want = ['NoSuchModule'] if r['mod'] != md['name'] else ['NoSuchCommand']
                if r['acc'] is None:
                    want = ['ProtocolError', 'NoSuchModule', 'NoSuchCommand']
                _refused(fail, i, st, untouched, want, 'no such exported command')
                before_t = after_t
                continue
            c = cmds[cname]
            calls = [x for x in st['drv'] if x[0] == 'call']
            if len(st['drv']) != len(calls) or len(calls) > 1 or any(x[1] != cname for x in calls):
                fail(i, 'wrong-driver-call', f'driver calls {st["drv"]}')
                before_t = after_t
                continue
            if calls:
                if c['arg'] is None:
                    if j is not None or calls[0][2] != ['tuple', []]:
                        fail(i, 'invalid-value-reached-driver', f'argument {j!r} for a command without argument')
                else:
                    a = _rebuild(c['arg'], calls[0][2])
                    why = []
                    if j is None or not C01.in_set(c['arg'], a, why):
                        fail(i, 'invalid-value-reached-driver', f'argument {a!r} is outside the datainfo: {why[:1]}')
                    why = []
                    if j is not None and not C01.denotes(c['arg'], j, a, None, 'wire', why):
                        fail(i, 'other-value-reached-driver', f'argument {a!r} is not the requested one: {why[:1]}')
            else:
                if not iserr:
                    fail(i, 'accepted-without-driver', 'success reply but command function not called')
                valid = (j is None) if c['arg'] is None else (j is not None and clearly_valid(c['arg'], j))
                if iserr and valid:
                    fail(i, 'valid-request-refused', f'valid request answered {st["reply"]}')
                elif iserr and st['reply'] not in BADVALUE:
                    fail(i, 'unfitting-error-class', f'refused argument answered {st["reply"]}')
        before_t = after_t
    return fails


def _refused(fail, i, st, untouched, want, why):
    if st['drv']:
        fail(i, 'forbidden-request-reached-driver', f'{why}, but driver calls {st["drv"]}')
    if st['reply'] == 'ok':
        fail(i, 'forbidden-request-accepted', f'{why}, but success reply')
    elif st['reply'] not in want:
        fail(i, 'unfitting-error-class', f'{why}: answered {st["reply"]}, fitting {want}')
    if not untouched:
        fail(i, 'refusal-not-clean', f'{why}: cache/updates changed')


def _expected(d, j):
    """internal number a clearly valid scalar transport value denotes (for the limit/hook verdicts)"""
    if d['t'] == 'scaled':
        return j * G.dec_float(d['scale'])
    if d['t'] == 'float':
        return float(j)
    return j


def _limits_usable(md, pname, cache):
    """all limit values of pname are numbers (so that the limit verdict is meaningful)"""
    return limits_verdict(md, pname, 0, cache) != 'unclear'


def _lims(md, pname, cache):
    return {k: v for k, v in cache.items() if k.startswith(pname + '_')}


def _same_cache(a, b):
    from harness.props import C01
    return len(a) == len(b) and all(x[0] == y[0] and (x[1] == y[1] or C01._py_equal(x[1], y[1])) for x, y in zip(a, b))


def _show(r):
    spec = r['mod'] if r['acc'] is None else f"{r['mod']}:{r['acc']}"
    return f"{r['act']} {spec} {G.untag(r['data'])!r}"


# ------------------------------------------------------------------ known finding classes
# none open: do-specifier-without-colon (fixed 8821998), nested-optional-struct-stored-then-error (fixed 45926fd) and
# command-argument-not-validated-value (fixed 1c127f9) are repaired; their corpus cases stay and must pass the oracle
FINDING_CLASSIFIERS = {}


# ------------------------------------------------------------------ bookkeeping
def nontrivial_key(case, obs):
    if is_conc(case):
        if any(ev[1] in ('drv', 'hook', 'auto') for ev in obs['events']):
            return repr((case['mod'], case['threads'], obs['decisions']))
        return None
    for st in obs['steps']:
        if st['drv'] or st['hooks'] or st['reply'] in BADVALUE or (st['reply'] == 'ok'):
            return repr((case['mod'], case['reqs']))
    return None


def outcome_labels(case, obs):
    if is_conc(case):
        return conc_labels(case, obs)
    labs = set()
    for r, st in zip(case['reqs'], obs['steps']):
        labs.add(f"{r['act']}:{st['reply']}")
        if st['drv']:
            labs.add('driver-called')
        if st['hooks']:
            labs.add('hook-called')
        if st['drv'] and st['reply'] != 'ok':
            labs.add('driver-called-then-error')
    for lim in case['mod']['limits']:
        labs.add('limit:' + lim['postfix'])
    for p in case['mod']['params']:
        labs.add('type:' + p['d']['t'])
    return sorted(labs)


def sample_repr(case, obs):
    if is_conc(case):
        return {'module': case['mod'], 'threads': [[_show_op(o) for o in ops] for ops in case['threads']],
                'schedule': obs['decisions'], 'events': [ev[:4] for ev in obs['events']]}
    return {'module': case['mod'], 'requests': [_show(r) + ' drv=' + str(r['drv'][0]) for r in case['reqs']],
            'replies': [[st['reply'], st['drv'], st['upd']] for st in obs['steps']]}


# ------------------------------------------------------------------ generators
def sanitize(j):
    """any python value -> JSON kinds"""
    if isinstance(j, G.Opaque):
        return None
    if isinstance(j, bytes):
        return j.decode('latin-1')
    if isinstance(j, (list, tuple)):
        return [sanitize(x) for x in j]
    if isinstance(j, dict):
        return {str(k): sanitize(x) for k, x in j.items()}
    return j


def clean(d, j, wire=True):
    """candidate -> JSON kinds (wire) / builtin kinds (driver read-back); numbers for scaled types kept below 1e30
    (value/scale stays representable, see validate_guard of C01)"""
    t = d['t']
    j = sanitize(j) if wire else (None if isinstance(j, (G.Opaque, bytes)) else j)
    if t in ('array', 'tuple') and isinstance(j, (list, tuple)):
        subs = [d['elem']] * len(j) if t == 'array' else list(d['elems']) + [d['elems'][-1]] * len(j)
        out = [clean(dd, x, wire) for dd, x in zip(subs, j)]
        return out if wire or isinstance(j, list) else tuple(out)
    if t == 'struct' and isinstance(j, dict):
        m = dict(d['members'])
        return {k: (clean(m[k], x, wire) if k in m else sanitize(x)) for k, x in j.items()}
    if t == 'scaled':
        if isinstance(j, float) and j == j and abs(j) > 1e30:
            return 1e30 if j > 0 else -1e30
        if isinstance(j, int) and not isinstance(j, bool) and abs(j) > 10 ** 30:
            return 10 ** 30 if j > 0 else -10 ** 30
    return j


def fix_type(d, top=True):
    t = d['t']
    if t == 'blob':
        return {'t': 'string', 'min': 0, 'max': 10, 'utf8': True}
    if t == 'string' and d['max'] > 1000:
        return dict(d, max=d['min'] + 12)
    if t == 'array':
        e = fix_type(d['elem'], False)
        return dict(d, elem=e)
    if t == 'tuple':
        return {'t': 'tuple', 'elems': [fix_type(x, False) for x in d['elems']]}
    if t == 'struct':
        names = [n for n, _ in d['members'] if n.isidentifier() and n.isascii()]
        members = [[n, fix_type(x, False)] for n, x in d['members'] if n in names]
        if not members:
            members = [['a', {'t': 'int', 'min': 0, 'max': 10}]]
            names = ['a']
        return {'t': 'struct', 'members': members, 'optional': [n for n in d['optional'] if n in names], 'client': False}
    return d


_I5 = {'t': 'int', 'min': 0, 'max': 5}
NESTED_OPTIONAL_TYPES = [
    {'t': 'array', 'elem': {'t': 'struct', 'members': [['p', _I5], ['q', _I5]], 'optional': ['q'], 'client': False}, 'min': 0, 'max': 3},
    {'t': 'struct', 'members': [['s', {'t': 'struct', 'members': [['x', _I5]], 'optional': ['x'], 'client': False}], ['n', _I5]],
     'optional': [], 'client': False},
    {'t': 'tuple', 'elems': [_I5, {'t': 'struct', 'members': [['x', _I5], ['y', {'t': 'bool'}]], 'optional': ['x', 'y'], 'client': False}]},
]
NUMERIC_TYPES = [
    {'t': 'int', 'min': 0, 'max': 10}, {'t': 'int', 'min': -5, 'max': 5}, {'t': 'int', 'min': 0, 'max': 100},
    {'t': 'float', 'min': G.enc_float(0.0), 'max': G.enc_float(10.0)},
    {'t': 'float', 'min': G.enc_float(-1.0), 'max': G.enc_float(1.0), 'abs': G.enc_float(0.0), 'rel': G.enc_float(0.0)},
    {'t': 'float', 'min': G.enc_float(0.0), 'max': G.enc_float(100.0), 'abs': G.enc_float(0.5)},
    {'t': 'scaled', 'scale': G.enc_float(0.5), 'min': G.enc_float(0.0), 'max': G.enc_float(10.0)},
    {'t': 'scaled', 'scale': G.enc_float(0.1), 'min': G.enc_float(-1.0), 'max': G.enc_float(1.0)},
]


def num_range(d):
    return (d['min'], d['max']) if d['t'] == 'int' else (G.dec_float(d['min']), G.dec_float(d['max']))


def rand_internal(rng, d):
    """a valid internal value (python object) of d, as a driver or a default would give it"""
    from harness.props import C01
    return complete(rng, d, C01._valid_internal(rng, d))


def complete(rng, d, v):
    """fill in the optional members rand_valid left out (a cached value holds every member)"""
    from harness.props import C01
    t = d['t']
    if t == 'struct':
        m = dict(d['members'])
        return {n: complete(rng, m[n], v[n]) if n in v else complete(rng, m[n], C01._valid_internal(rng, m[n]))
                for n, _ in d['members']}
    if t == 'array':
        return tuple(complete(rng, d['elem'], x) for x in v)
    if t == 'tuple':
        return tuple(complete(rng, dd, x) for dd, x in zip(d['elems'], v))
    return v


def num_value(rng, d, wire):
    """a number in or slightly around the range of a numeric type; transport form when wire"""
    lo, hi = num_range(d)
    if d['t'] == 'int':
        return rng.randint(lo - 2, hi + 2)
    if d['t'] == 'scaled':
        s = G.dec_float(d['scale'])
        k = rng.randint(round(lo / s) - 2, round(hi / s) + 2)
        return k if wire else k * s
    r = rng.random()
    if r < 0.5 and abs(lo) < 1e15 and abs(hi) < 1e15:
        return float(rng.randint(int(lo) - 1, int(hi) + 1))
    if r < 0.8 and abs(lo) < 1e300 and abs(hi) < 1e300:
        return rng.uniform(lo, hi)
    return G.near(rng, rng.choice([lo, hi]))


def in_range_value(rng, d):
    lo, hi = num_range(d)
    if d['t'] == 'int':
        return rng.randint(lo, hi)
    if d['t'] == 'scaled':
        s = G.dec_float(d['scale'])
        return rng.randint(round(lo / s), max(round(lo / s), round(hi / s))) * s
    if abs(lo) > 1e15 or abs(hi) > 1e15 or math.ceil(lo) > math.floor(hi):
        return rng.choice([lo, hi])
    return float(rng.randint(math.ceil(lo), math.floor(hi)))


PNAMES = ['a', 'b', 'c', 'd', 'target']
CNAMES = ['k', 'go', 'run']


def rand_export(rng):
    r = rng.random()
    return True if r < 0.75 else False if r < 0.9 else 'x' + str(rng.randrange(3))


def rand_module(rng, depth):
    limits_module = rng.random() < 0.55
    names = rng.sample(PNAMES, rng.randint(1, 4))
    params, limits, hooks, cmds = [], [], [], []
    used_exports = set()
    for idx, n in enumerate(names):
        if limits_module and idx < 2:
            d = rng.choice(NUMERIC_TYPES)
        elif rng.random() < 0.05:
            d = rng.choice(NESTED_OPTIONAL_TYPES)
        else:
            d = fix_type(G.rand_type(rng, rng.randint(0, depth)))
        exp = rand_export(rng)
        if exp not in (True, False):
            if exp in used_exports:
                exp = True
            used_exports.add(exp)
        r = rng.random()
        readonly = r < 0.12
        constant = None
        if 0.12 <= r < 0.2:
            constant = G.tag(rand_internal(rng, d))
        default = None
        if rng.random() < 0.85:
            dv = rand_internal(rng, d)
            default = G.tag(dv)
        params.append({'name': n, 'export': exp, 'd': d, 'readonly': readonly, 'constant': constant,
                       'write': rng.random() < 0.75, 'default': default})
    hid = 0
    for p in params:
        numeric = p['d']['t'] in ('int', 'float', 'scaled')
        if numeric and limits_module and rng.random() < 0.8:
            r = rng.random()
            if r < 0.25:
                kinds = ['limits']
            elif r < 0.45:
                kinds = rng.choice([['limits', 'min'], ['limits', 'max'], ['limits', 'min', 'max']])
            else:
                kinds = rng.choice([['min'], ['max'], ['min', 'max'], ['min', 'max']])
            for k in kinds:
                init = None
                if rng.random() < 0.6:
                    if k == 'limits':
                        x, y = in_range_value(rng, p['d']), in_range_value(rng, p['d'])
                        if rng.random() < 0.85 and x > y:
                            x, y = y, x
                        init = G.tag((x, y))
                    else:
                        init = G.tag(in_range_value(rng, p['d']))
                limits.append({'base': p['name'], 'postfix': k, 'level': rng.randrange(2),
                               'export': True if rng.random() < 0.9 else f"y{p['name']}{k}", 'init': init})
        if rng.random() < (0.45 if limits_module else 0.25):
            for level in rng.choice([[0], [1], [0, 1]]):
                r = rng.random()
                cond = ['never'] if r < 0.2 else ['always'] if r < 0.45 else None
                if cond is None:
                    qs = [q['name'] for q in params if q['d']['t'] in ('int', 'float', 'scaled')]
                    cond = ['gt', rng.choice(qs)] if (numeric and qs) else ['always']
                hooks.append({'id': hid, 'param': p['name'], 'level': level, 'cond': cond,
                              'act': rng.choice(['range', 'range', 'stop', 'py'])})
                hid += 1
    for n in rng.sample(CNAMES, rng.choice([0, 1, 1, 2])):
        r = rng.random()
        if r < 0.2:
            arg = None
        elif r < 0.5:
            arg = rng.choice(NUMERIC_TYPES)
        elif r < 0.7:
            arg = {'t': 'tuple', 'elems': [fix_type(G.rand_type(rng, 0), False) for _ in range(rng.randint(1, 3))]}
        elif r < 0.85:
            arg = fix_type({'t': 'struct', 'members': [[m, G.rand_type(rng, 0)] for m in rng.sample(['p', 'q', 'r'], rng.randint(1, 3))],
                            'optional': [], 'client': False})
            arg['optional'] = [m for m, _ in arg['members'] if rng.random() < 0.4]
            # Command.__call__ takes the optional list from the signature: mandatory first, then optional
            arg['optional'] = [m for m, _ in arg['members'] if m in arg['optional']]
        else:
            arg = fix_type(G.rand_type(rng, 1))
        res = None if rng.random() < 0.5 else fix_type(G.rand_type(rng, 0))
        exp = rand_export(rng)
        if exp not in (True, False):
            if exp in used_exports:
                exp = True
            used_exports.add(exp)
        cmds.append({'name': n, 'export': exp, 'arg': arg, 'res': res})
    return {'name': 'm', 'export': rng.random() < 0.93, 'params': params, 'limits': limits, 'cmds': cmds, 'hooks': hooks}


def rand_payload(rng, d, limits_near=False):
    r = rng.random()
    try:
        if limits_near and d['t'] in ('int', 'float', 'scaled') and r < 0.7:
            j = num_value(rng, d, True)
        elif r < 0.45:
            j = G.rand_valid(rng, d, True)
        elif r < 0.8:
            j = G.mutate(rng, d, G.rand_valid(rng, d, True), True)
        else:
            j = G.rand_any(rng, 1)
    except (ValueError, IndexError, OverflowError):
        j = None
    return clean(d, j, True)


def rand_drv(rng, d):
    r = rng.random()
    if r < 0.55 or d is None and r < 0.7:
        return ['none']
    if r < 0.65 and d is not None:
        return ['done']
    if r < 0.88:
        if d is None:
            return ['val', G.tag(sanitize(G.rand_any(rng, 0)))]
        try:
            v = rand_internal(rng, d) if rng.random() < 0.7 else G.mutate(rng, d, G.rand_valid(rng, d, False), False)
        except (ValueError, IndexError, OverflowError):
            v = None
        v = clean(d, v, False)
        t = G.tag(v)
        if 'enum' in repr(t) or 'opaque' in repr(t):
            return ['none']
        return ['val', t]
    return ['raise', rng.choice(['hw', 'range', 'py'])]


def rand_requests(rng, md):
    reqs = []
    params = all_params(md)
    limit_names = {f"{lim['base']}_{lim['postfix']}" for lim in md['limits']}
    limited = {lim['base'] for lim in md['limits']} | {h['param'] for h in md['hooks']}
    cmds = md['cmds']
    for _ in range(rng.randint(3, 9)):
        r = rng.random()
        if r < 0.72 or not cmds:
            # change
            rr = rng.random()
            n, e, d, ro, const, wr = rng.choice(params)
            if rr < 0.8:
                acc = e if e is not None else rng.choice(['_' + n, n])
            elif rr < 0.86:
                acc = n                                     # attribute name instead of wire name
            elif rr < 0.9:
                acc = rng.choice(['zz', '_zz', '', 'a:b', '_' + n + ':x'])
            elif rr < 0.95 and cmds:
                c = rng.choice(cmds)
                acc = export_name('cmd', c['name'], c['export']) or c['name']
            else:
                acc = None
            mod = md['name'] if rng.random() < 0.95 else rng.choice(['q', 'M', 'm2'])
            near = n in limited or n in limit_names
            reqs.append({'act': 'change', 'mod': mod, 'acc': acc, 'data': G.tag(rand_payload(rng, d, near)),
                         'drv': rand_drv(rng, d)})
        else:
            c = rng.choice(cmds)
            rr = rng.random()
            e = export_name('cmd', c['name'], c['export'])
            if rr < 0.82:
                acc = e if e is not None else c['name']
            elif rr < 0.88:
                acc = rng.choice(['zz', c['name'] + 'x', ''])
            elif rr < 0.94:
                n, e2, *_ = rng.choice(params)
                acc = e2 or n
            else:
                acc = None
            mod = md['name'] if rng.random() < 0.95 else 'q'
            if c['arg'] is None:
                data = None if rng.random() < 0.7 else sanitize(G.rand_any(rng, 0))
            else:
                data = rand_payload(rng, c['arg'], True) if rng.random() < 0.93 else None
            reqs.append({'act': 'do', 'mod': mod, 'acc': acc, 'data': G.tag(data), 'drv': rand_drv(rng, c['res'])})
    return reqs


def rand_case(rng, depth):
    md = rand_module(rng, depth)
    return {'mod': md, 'reqs': rand_requests(rng, md)}


def exhaustive_cases():
    """small scope: one int parameter a in 0..10 with every subset of limit parameters / hook layouts, all payloads -1..11
    after every limit move"""
    d = {'t': 'int', 'min': 0, 'max': 10}
    layouts = [[], ['min'], ['max'], ['min', 'max'], ['limits'], ['limits', 'min'], ['limits', 'min', 'max']]
    hooksets = [[], [[0, ['always'], 'stop']], [[1, ['gt', 'b'], 'range']], [[0, ['never'], 'range'], [1, ['always'], 'stop']]]
    for lay in layouts:
        for hs in hooksets:
            for level in (0, 1):
                md = {'name': 'm', 'export': True, 'cmds': [], 'params': [
                    {'name': 'a', 'export': True, 'd': d, 'readonly': False, 'constant': None, 'write': True, 'default': G.tag(5)},
                    {'name': 'b', 'export': True, 'd': d, 'readonly': False, 'constant': None, 'write': False, 'default': G.tag(7)}],
                    'limits': [{'base': 'a', 'postfix': k, 'level': level, 'export': True, 'init': None} for k in lay],
                    'hooks': [{'id': n, 'param': 'a', 'level': lv, 'cond': c, 'act': a} for n, (lv, c, a) in enumerate(hs)]}
                moves = [[]]
                for k in lay:
                    if k == 'limits':
                        moves += [[['_a_limits', [3, 6]]], [['_a_limits', [6, 3]]]]
                    else:
                        moves += [[['_a_' + k, 4]], [['_a_' + k, 8]]]
                if 'min' in lay and 'max' in lay:
                    moves.append([['_a_min', 8], ['_a_max', 4]])
                if 'limits' in lay and 'min' in lay:
                    moves.append([['_a_limits', [2, 9]], ['_a_min', 5]])
                for mv in moves:
                    reqs = [{'act': 'change', 'mod': 'm', 'acc': acc, 'data': G.tag(v), 'drv': ['none']} for acc, v in mv]
                    reqs += [{'act': 'change', 'mod': 'm', 'acc': '_a', 'data': G.tag(v), 'drv': ['none']} for v in range(-1, 12)]
                    yield {'mod': md, 'reqs': reqs}


def gen_cases(seed, tier):
    rng = random.Random(seed * 104729 + 4)
    n = {'quick': 2000, 'thorough': 30000, 'search': 20000}[tier]
    depth = 1 if tier == 'quick' else 2
    cases = [rand_case(rng, depth) for _ in range(n)]
    ex = list(exhaustive_cases())
    if tier == 'quick':
        ex = ex[::3]
    return cases + ex + gen_conc(seed, tier)


def search_cases(seed, mismatching):
    """obligations are broken and no generated case failed the oracle: the concurrent scenarios with more schedules first
    (a broken lock discipline only shows under an interleaving), then the thorough sequential budget"""
    return gen_conc(seed + 7919, 'search') + gen_cases(seed + 7919, 'thorough')


def shrink(case):
    if is_conc(case):
        yield from shrink_conc(case)
        return
    reqs = case['reqs']
    for i in range(len(reqs) - 1, -1, -1):
        yield dict(case, reqs=reqs[:i] + reqs[i + 1:])
    md = case['mod']
    for key in ('hooks', 'cmds', 'limits'):
        for i in range(len(md[key])):
            yield dict(case, mod=dict(md, **{key: md[key][:i] + md[key][i + 1:]}))
    for i in range(len(md['params'])):
        n = md['params'][i]['name']
        if any(lim['base'] == n for lim in md['limits']) or any(h['param'] == n or h['cond'][-1] == n for h in md['hooks']):
            continue
        yield dict(case, mod=dict(md, params=md['params'][:i] + md['params'][i + 1:]))


# ====================================================================== concurrent cases (real threads under harness/dsched.py)
# case = {'kind': 'conc', 'mod': <module descriptor>, 'threads': [[op, ...], ...], 'sched': {...}}
#   op = {'k': 'req', 'mod', 'acc', 'data', 'drv'}       change request through Dispatcher.handle_request (connection thread)
#      | {'k': 'write', 'attr', 'value', 'drv'}           direct call m.write_<attr>(value)             (internal thread)
#   sched = {'kind': 'choices', 'choices': [i0, i1, ...]}  step n runs enabled[i_n % len(enabled)], afterwards non-preemptive
#         | {'kind': 'explicit', 'decisions': [names]}     thread name per step (from dsched.explore); a named thread that is
#                                                          not enabled is replaced by the non-preemptive choice
MAX_EVENTS = 400


def is_conc(case):
    return case.get('kind') == 'conc'


class _LoggedLock:
    """a scheduler RLock (acquire = synchronisation point) that reports every outermost acquisition after it took effect"""

    def __init__(self, sched, name, on_acquire, reentrant=True):
        self.l = sched.RLock() if reentrant else sched.Lock()
        self.l.name = name
        self.depth = 0
        self.on_acquire = on_acquire
        self.contended = 0          # acquisitions that found the lock held by another thread (the caller had to wait)

    def acquire(self, blocking=True, timeout=-1):
        if self.l.owner is not None and self.l.owner is not self.l.s.current:
            self.contended += 1
        ok = self.l.acquire(blocking, timeout)
        if ok:
            self.depth += 1
            if self.depth == 1:
                self.on_acquire()
        return ok

    def release(self):
        self.depth -= 1
        self.l.release()

    def __enter__(self):
        return self.acquire()

    def __exit__(self, *a):
        self.release()


class _CRec(_Rec):
    """recorder of a concurrent run: one global event list (only one thread runs at a time)"""

    def __init__(self, sched):
        super().__init__()
        self.sched = sched
        self.events = []
        self.curd = {}
        self.snapshot = lambda: []

    def tid(self):
        n = getattr(self.sched.current, 'name', '')
        return int(n[1:]) if n[:1] == 'w' and n[1:].isdigit() else -1

    def log(self, kind, *data):
        if len(self.events) < MAX_EVENTS:
            self.events.append([self.tid(), kind, *data])

    def behave(self):
        self.cur = self.curd.get(self.tid()) or ['none']
        return super().behave()


class _Follow:
    """explicit schedule that cannot diverge: the named thread if it is enabled, else (and afterwards) non-preemptive -
    a replay recorded on another tree stays executable (e.g. the named thread now waits for a lock)"""

    def __init__(self, decisions):
        self.decisions = list(decisions)

    def __call__(self, n, enabled, current):
        if n < len(self.decisions) and self.decisions[n] in enabled:
            return self.decisions[n]
        return current if current in enabled else enabled[0]


def _policy(spec):
    from harness import dsched
    if spec['kind'] == 'explicit':
        return _Follow(spec['decisions'])
    return dsched.Preempt({i: c for i, c in enumerate(spec['choices'])})


def _run_conc(case, want_result=False):
    from frappy.errors import SECoPError
    from frappy.protocol.dispatcher import Dispatcher
    from frappy.secnode import SecNode
    from harness import dsched
    md = case['mod']
    s = dsched.Scheduler(_policy(case['sched']), max_steps=1500)
    rec = _CRec(s)
    cls = build_class(md, rec)

    class Srv:
        restart = shutdown = None
        module_cfg = {}
        detailed_errors = False

        def __init__(self):
            self.log = _Log()
            self.secnode = SecNode('node', _Log(), {}, self)
            self.dispatcher = Dispatcher('dispatcher', _Log(), {}, self)

    srv = Srv()
    m = cls(md['name'], _Log(), {'description': 'x', 'export': bool(md['export'])}, srv)
    srv.secnode.add_module(m, md['name'])
    for lim in md['limits']:
        if lim['init'] is not None:
            setattr(m, f"{lim['base']}_{lim['postfix']}", G.untag(lim['init']))
    rec.snapshot = lambda: sorted([n, G.tag(p.value)] for n, p in m.parameters.items())

    # the two locks of the request path become scheduler locks; updateLock stays a real RLock: nothing inside
    # announceUpdate is a switch point, so it is never held while another thread runs
    # (only a real RLock is replaced: if the code under test made one of them something else, e.g. a dummy context
    # manager, it is left alone and the missing exclusion shows at the check/driver switch points)
    import threading
    kinds = {type(threading.RLock()): True, type(threading.Lock()): False}     # a plain Lock would block for real
    if type(m.accessLock) in kinds:
        m.accessLock = _LoggedLock(s, 'accessLock', lambda: rec.log('acq'), kinds[type(m.accessLock)])
    if type(srv.dispatcher._lock) in kinds:
        srv.dispatcher._lock = _LoggedLock(s, 'dispatcherLock', lambda: rec.log('req'), kinds[type(srv.dispatcher._lock)])
    orig_check_limits = m.checkLimits

    def check_limits(value, pname='target'):
        s.switch('checkLimits:' + pname)
        rec.log('auto', pname, G.tag(value))
        return orig_check_limits(value, pname)
    m.checkLimits = check_limits          # the generated lambda calls self.checkLimits(value, pname)

    class Conn:
        def send_reply(self, msg):
            modname, _, ename = msg[1].partition(':')
            attr = m.accessiblename2attr.get(ename)
            pobj = m.parameters.get(attr)
            if msg[0] != 'update' or pobj is None:
                rec.log('bad', str(msg[0]))
                return
            consistent = modname == md['name'] and _jeq(msg[2][0], pobj.datatype.export_value(pobj.value))
            rec.log('upd', attr, G.tag(pobj.value), bool(consistent))
    conn = Conn()
    srv.dispatcher._active_connections.add(conn)

    names = all_params(md)
    real_names = dict(m.accessiblename2attr)
    want_names = {e: n for n, e, *_ in names if e is not None}
    gd = {n: G.gal_dtype(d, m.parameters[n].datatype) for n, _e, d, *_ in names}
    init = rec.snapshot()
    threads = case['threads']

    def worker(ti):
        for op in threads[ti]:
            rec.curd[ti] = op['drv']
            try:
                if op['k'] == 'req':
                    spec = op['mod'] if op['acc'] is None else f"{op['mod']}:{op['acc']}"
                    srv.dispatcher.handle_request(conn, ('change', spec, G.untag(op['data'])))
                else:
                    getattr(m, 'write_' + op['attr'])(G.untag(op['value']))
                res = 'ok'
            except SECoPError as e:
                res = e.name
            except Exception:
                res = 'InternalError'
            rec.log('end', res)

    def main():
        hs = [s.spawn(worker, f'w{ti}', ti) for ti in range(len(threads))]
        for h in hs:
            h.join()
    res = s.run(main)
    if want_result:
        return res
    if res.thread_errors or res.error:
        raise RuntimeError(f'harness thread died: {res.thread_errors} {res.error}')
    return {'status': res.status, 'decisions': list(res.decisions), 'events': rec.events, 'init': init,
            'final': rec.snapshot(), 'gd': gd, 'names_ok': real_names == want_names,
            'real_names': sorted(real_names.items()),
            'blocked': getattr(res, 'blocked_at_end', {}) if res.status != 'ok' else {},
            'contended': [getattr(m.accessLock, 'contended', 0), getattr(srv.dispatcher._lock, 'contended', 0)],
            'env': G.pyenv_for([op['data'] for ops in threads for op in ops if op['k'] == 'req'])}


# ------------------------------------------------------------------ encoding
def enc_cop(op):
    if op['k'] == 'req':
        return f'(CReq {enc_req(dict(op, act="change"))})'
    return f'(CWrite {gs(op["attr"])} {G.gal_val(op["value"])} {enc_drv(op["drv"])})'


def enc_event(ev):
    tid, kind = ev[0], ev[1]
    t = gal.nat(tid if isinstance(tid, int) and 0 <= tid < 100 else 999)
    e = 'OBad'
    if kind == 'req':
        e = 'OReq'
    elif kind == 'acq':
        e = 'OAcq'
    elif kind == 'hook':
        e = f'(OHook {gal.nat(ev[2])} {G.gal_val(ev[3])})'
    elif kind == 'auto':
        e = f'(OAuto {G.gal_val(ev[3])})'
    elif kind == 'drv':
        e = f'(ODrv {gs(ev[2])} {G.gal_val(ev[3])} {enc_cache(ev[4])})'
    elif kind == 'upd' and ev[4]:
        e = f'(OUpd {gs(ev[2])} {G.gal_val(ev[3])})'
    elif kind == 'end':
        if ev[2] == 'ok':
            e = '(OEnd None)'
        elif ev[2] in ERR_CLASSES:
            e = f'(OEnd (Some {ev[2]}))'
    return f'({t}, {e})'


def enc_conc(case, obs, wrap=True):
    body = ('{| cc_env := %s; cc_md := %s; cc_hooks := %s; cc_init := %s; cc_progs := %s; cc_events := %s; cc_final := %s |}' % (
        G.gal_pyenv(obs['env']), enc_md(case['mod'], obs['gd']), gal.lst(case['mod']['hooks'], enc_hook),
        enc_cache(obs['init']), gal.lst(case['threads'], lambda ops: gal.lst(ops, enc_cop)),
        gal.lst(obs['events'], enc_event), enc_cache(obs['final'])))
    return f'(XConc {body})' if wrap else body


# ------------------------------------------------------------------ oracle (the property on the observed events)
def _show_op(op):
    if op['k'] == 'req':
        return _show(dict(op, act='change')) + ' drv=' + str(op['drv'][0])
    return f"write_{op['attr']}({G.untag(op['value'])!r}) drv={op['drv'][0]}"


def oracle_conc(case, obs):
    """whenever the driver's write_<p>(v) is invoked: v lies in the datainfo, denotes the requested value, satisfies the
    dynamic limits and the check hooks AS THE MODULE HOLDS THEM AT THAT MOMENT (the cache recorded inside the driver call);
    at most one driver call per operation; a refused/failed operation emits no update; a successful one exactly one"""
    from harness.props import C01
    md = case['mod']
    fails = []

    def fail(cls, what, **kw):
        fails.append(dict({'class': cls, 'what': what}, **kw))

    if obs['status'] != 'ok':
        fail('run-' + obs['status'], f"the threads did not finish: {obs.get('blocked')}")
        return fails
    if not obs['names_ok']:
        fail('export-map', f'wire names {obs["real_names"]} differ from the described ones')
    params = {n: (e, d, ro, const, wr) for n, e, d, ro, const, wr in all_params(md)}
    by_export = {e: n for n, (e, *_r) in params.items() if e is not None}
    nthreads = len(case['threads'])
    done = [[] for _ in range(nthreads)]
    cur = [[] for _ in range(nthreads)]
    for ev in obs['events']:
        tid, kind = ev[0], ev[1]
        if not (isinstance(tid, int) and 0 <= tid < nthreads) or kind == 'bad':
            fail('foreign-event', f'event {ev[:3]} outside the threads of the case')
            continue
        if kind == 'upd' and not ev[4]:
            fail('update-inconsistent', f'update message of {ev[2]} does not carry the cached value')
        cur[tid].append(ev)
        if kind == 'end':
            done[tid].append(cur[tid])
            cur[tid] = []
    for ti, ops in enumerate(case['threads']):
        if len(done[ti]) != len(ops) or cur[ti]:
            fail('op-count', f'thread {ti}: {len(done[ti])} finished operations for {len(ops)}')
            continue
        for oi, (op, evs) in enumerate(zip(ops, done[ti])):
            where = f'thread {ti} op {oi} ({_show_op(op)})'
            res = evs[-1][2]
            drvs = [e for e in evs if e[1] == 'drv']
            upds = [e for e in evs if e[1] == 'upd']
            if op['k'] == 'req':
                ename = op['acc'] if op['acc'] is not None else 'target'
                pname = by_export.get(ename) if op['mod'] == md['name'] else None
                refuse = None
                if pname is None:
                    refuse = ['NoSuchModule'] if op['mod'] != md['name'] else ['NoSuchParameter']
                elif params[pname][2] or params[pname][3]:
                    refuse = ['ReadOnly']
                if refuse:
                    if drvs:
                        fail('forbidden-request-reached-driver', f'{where}: driver calls {[e[2:4] for e in drvs]}')
                    if res == 'ok':
                        fail('forbidden-request-accepted', f'{where}: success reply')
                    elif res not in refuse:
                        fail('unfitting-error-class', f'{where}: answered {res}, fitting {refuse}')
                    if upds:
                        fail('refusal-not-clean', f'{where}: update emitted')
                    continue
                offered, mode = G.untag(op['data']), 'wire'
            else:
                pname = op['attr']
                offered, mode = G.untag(op['value']), 'validate'
            _e, d, _ro, _const, wr = params[pname]
            if len(drvs) > 1 or any(e[2] != pname for e in drvs) or (drvs and not wr):
                fail('wrong-driver-call', f'{where}: driver calls {[e[2:4] for e in drvs]}')
                continue
            for e in drvs:
                w = _rebuild(d, e[3])
                now = {n: _rebuild(params[n][1], t) for n, t in e[4]}          # the cache at the moment of the driver call
                why = []
                if not C01.in_set(d, w, why):
                    fail('invalid-value-reached-driver', f'{where}: value {w!r} is outside the datainfo: {why[:1]}')
                why = []
                if not C01.denotes(d, offered, w, None, mode, why):
                    fail('other-value-reached-driver', f'{where}: value {w!r} is not the requested one: {why[:1]}')
                lv = limits_verdict(md, pname, w, now)
                if lv == 'violated' and auto_present(md, pname) and not auto_skipped(md, pname, w, now):
                    fail('limit-violated-at-driver-call',
                         f'{where}: write_{pname}({w!r}) invoked while the module holds {_lims(md, pname, now)}')
                hv = hooks_verdict(md, pname, w, now)
                if hv in ('range', 'py'):
                    fail('hook-ignored-at-driver-call',
                         f'{where}: write_{pname}({w!r}) invoked although check_{pname} refuses it on the current state {now}')
            if res != 'ok':
                if upds:
                    fail('failed-write-announced', f'{where}: answered {res} but an update was emitted')
            else:
                if wr and not drvs:
                    fail('accepted-without-driver', f'{where}: success but write method not called')
                quiet = wr and op['drv'][0] == 'done'
                exported = params[pname][0] is not None
                want = 0 if (quiet or not exported) else 1
                if len(upds) != want or any(u[2] != pname for u in upds):
                    fail('update-missing', f'{where}: updates {[u[2:4] for u in upds]}')
                if upds and (op['drv'][0] == 'none' or not wr):
                    written = drvs[0][3] if drvs else upds[0][3]
                    if not C01._py_equal(upds[0][3], written):
                        fail('cache-not-written-value', f'{where}: announced {upds[0][3]} after writing {written}')
    return fails


def conc_labels(case, obs):
    labs = {'conc', f"conc:threads={len(case['threads'])}", 'conc:sched=' + case['sched']['kind']}
    inside = None
    for ev in obs['events']:
        tid, kind = ev[0], ev[1]
        if kind == 'acq':
            inside = tid
        elif kind == 'end':
            if inside == tid:
                inside = None
            labs.add('conc:end=' + str(ev[2]))
        elif kind == 'drv':
            labs.add('conc:driver-called')
        elif kind in ('hook', 'auto'):
            labs.add('conc:' + kind)
        if inside is not None and tid != inside:
            labs.add('conc:other-thread-ran-while-wrapper-held-lock')
    if obs['contended'][0]:
        labs.add('conc:a-thread-waited-for-accessLock')
    if obs['contended'][1]:
        labs.add('conc:a-thread-waited-for-dispatcher-lock')
    if any(op['k'] == 'req' for ops in case['threads'] for op in ops):
        labs.add('conc:request-thread')
    if any(op['k'] == 'write' for ops in case['threads'] for op in ops):
        labs.add('conc:internal-thread')
    return sorted(labs)


# ------------------------------------------------------------------ generators
def _limit_value(rng, d, postfix, wire):
    if postfix == 'limits':
        x, y = num_value(rng, d, wire), num_value(rng, d, wire)
        if rng.random() < 0.85 and x > y:
            x, y = y, x
        return [x, y] if wire else (x, y)
    return num_value(rng, d, wire)


def rand_conc_case(rng):
    d = rng.choice(NUMERIC_TYPES)
    db = rng.choice(NUMERIC_TYPES)
    pa = {'name': 'a', 'export': True if rng.random() < 0.9 else 'xa', 'd': d, 'readonly': rng.random() < 0.08, 'constant': None,
          'write': rng.random() < 0.85, 'default': G.tag(in_range_value(rng, d))}
    pb = {'name': 'b', 'export': True, 'd': db, 'readonly': False, 'constant': None, 'write': rng.random() < 0.4,
          'default': G.tag(in_range_value(rng, db))}
    limits = []
    kinds = rng.choice([['max'], ['min'], ['min', 'max'], ['limits'], ['limits', 'max'], ['min', 'max'], []])
    for k in kinds:
        init = None
        if rng.random() < 0.75:
            init = G.tag(_limit_value(rng, d, k, False))
        limits.append({'base': 'a', 'postfix': k, 'level': rng.randrange(2), 'export': True, 'init': init})
    hooks = []
    if rng.random() < 0.5:
        for hid, level in enumerate(rng.choice([[0], [1], [0, 1]])):
            r = rng.random()
            cond = ['never'] if r < 0.1 else ['always'] if r < 0.25 else ['gt', 'b']
            hooks.append({'id': hid, 'param': 'a', 'level': level, 'cond': cond, 'act': rng.choice(['range', 'range', 'stop', 'py'])})
    md = {'name': 'm', 'export': True, 'params': [pa, pb], 'limits': limits, 'cmds': [], 'hooks': hooks}
    params = all_params(md)
    targets = [('a', 5)] + [(f"a_{k}", 4) for k in kinds] + [('b', 2 if hooks else 1)]
    threads = []
    for _ in range(rng.choice([2, 2, 2, 3])):
        ops = []
        for _ in range(rng.choice([1, 1, 2])):
            attr = rng.choices([t for t, _ in targets], [w for _, w in targets])[0]
            n, e, dd, ro, _const, wr = next(p for p in params if p[0] == attr)
            base_d = d if attr != 'b' else db
            postfix = attr[2:] if attr.startswith('a_') else None
            has_wrapper = wr or not ro
            if rng.random() < 0.55 or not has_wrapper:
                if postfix:
                    j = _limit_value(rng, base_d, postfix, True)
                else:
                    j = rand_payload(rng, base_d, True) if rng.random() < 0.2 else num_value(rng, base_d, True)
                acc = e if rng.random() < 0.95 else rng.choice([attr, 'zz'])
                ops.append({'k': 'req', 'mod': 'm' if rng.random() < 0.97 else 'q', 'acc': acc, 'data': G.tag(clean(dd, j, True)),
                            'drv': rand_drv(rng, dd) if wr else ['none']})
            else:
                if postfix:
                    v = _limit_value(rng, base_d, postfix, False)
                else:
                    v = num_value(rng, base_d, False)
                    if rng.random() < 0.06:
                        v = rng.choice(['x', None, 1e40, [1]])
                ops.append({'k': 'write', 'attr': attr, 'value': G.tag(v), 'drv': rand_drv(rng, dd) if wr else ['none']})
        threads.append(ops)
    choices = [rng.randrange(3) for _ in range(rng.choice([12, 30, 50]))]
    return {'kind': 'conc', 'mod': md, 'threads': threads, 'sched': {'kind': 'choices', 'choices': choices}}


def scenario_bases():
    """small scope: a : int 0..10 with one limit layout, b = 7; one thread requests a = 5 while another thread moves a limit
    (or the operand of a hook) so that 5 becomes forbidden - through a request or through an internal write"""
    d = {'t': 'int', 'min': 0, 'max': 10}
    moves = {'max': ('a_max', 2), 'min': ('a_min', 8), 'limits': ('a_limits', (6, 9))}
    for lay, level, mover, extra in [(['max'], 0, 'write', None), (['max'], 1, 'req', None), (['min'], 0, 'write', None),
                                     (['limits'], 1, 'write', None), (['min', 'max'], 0, 'req', None),
                                     (['max'], 0, 'write', 'a'), ([], 0, 'write', 'hook'), (['max'], 1, 'write', 'hook')]:
        md = {'name': 'm', 'export': True, 'cmds': [], 'params': [
            {'name': 'a', 'export': True, 'd': d, 'readonly': False, 'constant': None, 'write': True, 'default': G.tag(1)},
            {'name': 'b', 'export': True, 'd': d, 'readonly': False, 'constant': None, 'write': False, 'default': G.tag(7)}],
            'limits': [{'base': 'a', 'postfix': k, 'level': level, 'export': True, 'init': None} for k in lay],
            'hooks': [{'id': 0, 'param': 'a', 'level': level, 'cond': ['gt', 'b'], 'act': 'range'}] if extra == 'hook' else []}
        first = {'k': 'req', 'mod': 'm', 'acc': '_a', 'data': G.tag(5), 'drv': ['none']}
        if extra == 'hook':
            attr, val = 'b', 3
        else:
            attr, val = moves[lay[-1]]
        if mover == 'req':
            second = [{'k': 'req', 'mod': 'm', 'acc': '_' + attr, 'data': G.tag(list(val) if isinstance(val, tuple) else val),
                       'drv': ['none']}]
        else:
            second = [{'k': 'write', 'attr': attr, 'value': G.tag(val), 'drv': ['none']}]
        if extra == 'a':
            second.append({'k': 'write', 'attr': 'a', 'value': G.tag(1), 'drv': ['none']})
        yield {'kind': 'conc', 'mod': md, 'threads': [[first], second], 'sched': {'kind': 'explicit', 'decisions': []}}


def _explore(base, max_preempt, limit):
    """all schedules of `base` with at most max_preempt preemptions, discovered by running the real code"""
    from harness import dsched
    from frappy.lib import generalConfig
    from frappy.protocol.interface import handler as hmod
    out = []

    def run_fn(policy):
        return _run_conc(dict(base, sched={'kind': 'explicit', 'decisions': list(policy.decisions)}), want_result=True)
    saved = generalConfig._config
    generalConfig.testinit(omit_unchanged_within=0)
    try:
        with contextlib.redirect_stdout(io.StringIO()):
            for _prefix, res in dsched.explore(run_fn, max_preempt, limit):
                if res.status == 'ok':
                    out.append(dict(base, sched={'kind': 'explicit', 'decisions': list(res.decisions)}))
    finally:
        generalConfig._config = saved
    return out


def gen_conc(seed, tier):
    rng = random.Random(f'C04-conc-{seed}-{tier}')
    nrand, lim, nchoice = {'quick': (150, 40, 6), 'thorough': (1500, 200, 30), 'search': (600, 200, 30)}[tier]
    cases = []
    seen = set()
    for base in scenario_bases():
        for c in _explore(base, 1 if tier == 'quick' else 2, lim):
            key = repr((c['mod'], c['threads'], c['sched']))
            if key not in seen:
                seen.add(key)
                cases.append(c)
        for _ in range(nchoice):
            cases.append(dict(base, sched={'kind': 'choices', 'choices': [rng.randrange(3) for _ in range(24)]}))
    cases += [rand_conc_case(rng) for _ in range(nrand)]
    return cases


def shrink_conc(case):
    threads = case['threads']
    if len(threads) > 1:
        for i in range(len(threads)):
            yield dict(case, threads=threads[:i] + threads[i + 1:])
    for i, ops in enumerate(threads):
        if len(ops) > 1:
            for j in range(len(ops)):
                yield dict(case, threads=threads[:i] + [ops[:j] + ops[j + 1:]] + threads[i + 1:])
    md = case['mod']
    used = {op.get('attr') for ops in threads for op in ops} | {(op.get('acc') or '').lstrip('_') for ops in threads for op in ops}
    for i in range(len(md['hooks'])):
        yield dict(case, mod=dict(md, hooks=md['hooks'][:i] + md['hooks'][i + 1:]))
    for i, lim in enumerate(md['limits']):
        if f"{lim['base']}_{lim['postfix']}" not in used:
            yield dict(case, mod=dict(md, limits=md['limits'][:i] + md['limits'][i + 1:]))
    sc = case['sched']
    if sc['kind'] == 'choices':
        ch = sc['choices']
        if ch:
            yield dict(case, sched={'kind': 'choices', 'choices': ch[:len(ch) // 2]})
            yield dict(case, sched={'kind': 'choices', 'choices': ch[:-1]})
        for i, c in enumerate(ch):
            if c:
                yield dict(case, sched={'kind': 'choices', 'choices': ch[:i] + [0] + ch[i + 1:]})
