"""C09 — isolation of module classes, instances and configurations: implementation driver, encoder, direct oracle

A case is a little program: class definitions (module classes and plain mixins, single/multiple inheritance,
overrides by Parameter(), bare value, None, inherit=False; commands cmd() / go(FloatRange) / calc(StructOf(a, b)) with
argument and result datatypes, overridden by Command(...) without signature, by plain methods with other defaults, by
None), instantiations with configuration (parameters and commands), and run-time mutations of one instance (setProperty
on a parameter, on a member datatype, on the argument / result datatype of a command; input registration and enum
growth through the real HasControlledBy.register_input reading the real class attribute inputCallbacks).  After every op
the driver records the full description of every module class and every instance (delta encoded), incl. the registered
inputs; at the end the identity pattern of Parameter / Command / datatype objects.  The Coq case carries the program
twice: for the parameter component (Model.v) and for the command / mixin component (CmdModel.v)."""
import hashlib
import json
import os
import random

from harness import gal

ID = 'C09'
MODEL_TARGETS = ['theories/C09/Run.vo']
PROOF_TARGETS = ['theories/C09/Properties.vo']
PROPERTIES_V = 'theories/C09/Properties.v'
IMPORTS = 'Require Import FV.Gen.C09 FV.C09.Model FV.C09.CmdModel FV.C09.PropModel FV.C09.Run.'
CASE_TYPE = 'case'
CHECK = 'check_case'
SHARD_SIZE = 150
RULE = ('programs of 3..12 ops over {define class (module class or plain mixin; 0..2 bases out of the classes defined '
        'so far, only consistent MROs; per attribute value/p/q/controlled_by/cmd one of Parameter(datatype..), '
        'Parameter(overriding properties incl. datatype properties min/max/unit), inherit=False, bare value, None, '
        'Command, plain method), instantiate (class, configuration overriding parameter and datatype properties, some '
        'invalid), setProperty on one parameter of one instance, HasControlledBy.register_input on one instance}; '
        'commands cmd / go (FloatRange argument) / calc (StructOf(a, b) argument) with optional float result: per class body '
        'Command(signature)(f), Command(description..)(f) without signature, plain method with defaults for none/b/a/a+b '
        '(Command.__call__ marks them optional), None; configuration of a command description; run-time setProperty(min/max) '
        'on the argument / a struct member / the result of a command of one instance; a fixed family of 36 programs '
        '(method override below a struct command with instances before and after; run-time change on one of several '
        'instances; inputs registered on two instances of one / two classes and an instance created afterwards) runs first; '
        'additionally (implementation + oracle only) parameters r (+ Limit r_limits), lim (LimitsType), tup (TupleOf), arr (ArrayOf), '
        'st (StructOf with a nested TupleOf), status (StatusType) with $ units in the members, several instances of one class '
        'with different main units, configuration of member units, setProperty on a MEMBER datatype of one instance; a fixed '
        'family of 96 such programs runs first; '
        'module level PROPERTIES: per class body (module class or plain mixin) gain / level as Property(IntRange, default, '
        'optional value) or bare value, visibility / slowinterval of Module as bare value (any number of levels, through '
        'plain mixins before or after the module class in the bases), configuration of a property per instance, '
        'setProperty(valid / invalid value) on one instance at run time; a fixed family of 11 such programs (one / two / three '
        'levels, mixins, redefinition, instances of every class before and after) runs first; '
        'FRESH-INTERPRETER families (implementation + oracle only, each case runs in `python -m harness.c09_fresh`, every '
        'program and every reference in a child forked from an interpreter that has only imported frappy): (arr) 3..7 steps '
        'over {define a Readable subclass with ArrayOf parameters whose element properties unit/min/max/fmtstr/maxchars are '
        'given through Parameter(...), out of 6 bodies so that literally the same body is defined again later; subclass '
        'overriding one element property; instance with configured element properties / maxlen}: descriptions + enforced '
        'limits (probe values) of every class and instance after every step, compared with the earlier entity made from the '
        'same source, with the state before the step, with the reference made in a fresh interpreter from the own chain '
        'only, and with the properties explicitly given; (cfg) a configuration of 1..3 modules built once from '
        'frappy.config.Mod / Param objects (a Param object may be used by several modules), the node created 1..3 times from '
        'the SAME srv.module_cfg through SecNode.create_modules (= Server.restart()) or directly through the module class: '
        'the configuration must be unchanged, every re-created module equal to the first one, to its twin with the same '
        'configuration, to the one created alone from a deep copy in a fresh interpreter, and must have the configured '
        'value / default / constant; 19 + 10 fixed programs (the scenarios of seeded C09-8 / C09-7 first) + 12 + 12 random; '
        'seeded random plus exhaustive small hierarchies in thorough; after every op the description of every class '
        'and instance is recorded; non-trivial = at least two module classes and one further op; distinct = distinct '
        'op lists')
ASSUMPTIONS = [
    'every Parameter/Command object is written in exactly one class body (no `p = Base.p` re-use of one object in two class bodies)',
    'the parameter model knows flat datatypes only (FloatRange with integral bounds/values, EnumType).  Container and convenience '
    'datatypes of PARAMETERS (TupleOf, ArrayOf, StructOf, LimitsType, Limit parameters, StatusType), `$` units / applyMainUnit and '
    'the order of accessibles are generated and DECIDED BY THE DIRECT ORACLE on the implementation: description comparison '
    '(nested datainfo included) of every class and instance after every op and against the isolated replay, plus a recursive '
    'identity traversal (members / argument / result) that reports every changeable object shared between an instance and a '
    'class or another instance; the deep-copy shape of every DataType.copy override is an obligation on the source (fact '
    'datatype_copy_rebuilds)',
    'class bodies whose definition raises are outside the domain: a generated program ends before the first such definition (it happens when a bare-value override copies an inherited datatype that datatype property overrides made inconsistent)',
    'PARAMETERS of instances are modelled by value (their Parameter and datatype objects are private copies); that no object is '
    'shared between an instance and anything else is checked on the implementation (identity traversal) in every case.  '
    'COMMANDS: argument / result datatype objects of classes and instances are cells of one heap in CmdModel.v (sharing is '
    'expressible, its absence is theorem C09_command_datatypes_isolated); a StructOf argument is ONE cell holding the member '
    'limits and the optional list (sharing of member objects between two struct objects is decided by the identity traversal '
    'of the oracle only); modelled command properties: description, argument, result (group / visibility / export: oracle only)',
    'mixin state: the generated module classes get a per-world stand-in of frappy.mixins.HasControlledBy into their MRO that '
    'carries the REAL register_input / self_controlled / update_target functions and a per-world copy of the REAL class '
    'attribute inputCallbacks; its accessibles (controlled_by, target) are written by the generated programs.  The callbacks '
    'themselves are never called (only the registered names are observed); HasOutputModule has no class level state of its '
    'own (fact mixins_no_mutable_class_attribute) and reaches this state only through output_module.register_input',
    'module PROPERTIES (PropModel.v): Property objects with integral range datatypes; class bodies and configurations hold '
    'valid values only (an invalid bare value makes the class definition raise: outside the domain); mandatory properties, '
    'extname / export and the min <= max rule of checkProperties are not modelled (the oracle compares value and default of '
    'EVERY Property of every class and the effective value of every property of every instance); the instance reads the '
    'propertyDict of the per class wrapper Module.__new__ creates, the model the one of the class (same objects)',
    'process wide state of the datatype classes (class level dicts such as propertyDict of ArrayOf) and the configuration '
    'objects themselves (srv.module_cfg, Param dicts) are NOT in the Gallina model: they are decided by the direct oracle on '
    'the fresh-interpreter families (the Coq case of such a program is the empty program) and by the source obligations '
    'arrayof_getproperties_builds_new_dict, add_accessible_only_reads_cfg, get_module_instance_copies_options',
    'whether Module.__init__ accepts a configuration is decided by the parameter component and handed to the command '
    'component with the op (generated commands always have a description; check_case verifies that an accepted instance '
    'is acceptable for the command component)',
]

NAMES = ['value', 'p', 'q', 'controlled_by']       # modelled parameter names, code = index
# parameters with container / convenience datatypes ($ units in the members); implementation + oracle only
EXTRA = ['r', 'lim', 'tup', 'arr', 'st', 'status']
XUNITS = ['$', '$/min', 'K', '']
ENUM_NAME = 'controlled_by'
CMD = 'cmd'
# modelled commands (CmdModel.v), code = index: cmd takes no argument, go a FloatRange, calc a StructOf(a, b)
CMDS = ['cmd', 'go', 'calc']
MEMBERS = {'a': 1, 'b': 2}            # struct member name -> code
DEFAULTS = [[], ['b'], ['a', 'b'], ['a']]     # parameters of the decorated function that have a default
RUNTIME_OPS = ('setprop', 'grow', 'setmember', 'setarg', 'setpprop')
# modelled module PROPERTIES (PropModel.v), code = index: gain / level are Property objects written by the generated
# classes (IntRange), visibility / slowinterval are the ones of frappy.modulebase.Module; all of them are overridden by
# bare values in class bodies (module classes and plain mixins), configured per instance and set at run time
PNAMES = ['gain', 'level', 'visibility', 'slowinterval']
PRANGE = {'gain': (1, 1000), 'level': (0, 10), 'visibility': (1, 3), 'slowinterval': (1, 120)}
PVALS = {'gain': [1, 10, 100, 999], 'level': [0, 1, 2, 5], 'visibility': [1, 2, 3], 'slowinterval': [1, 30, 60, 120]}
PBAD = {'gain': 0, 'level': 11, 'visibility': 7, 'slowinterval': 121}
PKEYS = {'description': 0, 'group': 1, 'value': 2, 'min': 3, 'max': 4, 'unit': 5}
PROBES = [-100, -7, -3, -1, 0, 1, 2, 3, 5, 7, 10, 100]
CMD_PROBES = [-7, 0, 3, 8, 30, {'a': 1, 'b': 2}, {'a': 1}, {'b': 8}, {}, {'a': 30, 'b': -7}]


# ------------------------------------------------------------------ string <-> code
def s_desc(k):
    if isinstance(k, str):
        return k
    return None if k is None else ('' if k == 0 else f'd{k}')


def s_group(k):
    if isinstance(k, str):
        return k
    return None if k is None else ('' if k == 0 else f'g{k}')


def s_unit(k):
    if isinstance(k, str):
        return k
    return None if k is None else ('' if k == 0 else f'u{k}')


def s_mem(k):
    return f'in{k - 1000}' if k >= 1000 else f'm{k}'


def code(s):
    """'' -> 0, 'd5' -> 5, 'in3' -> 1003, 'm2' -> 2"""
    if s is None:
        return None
    if s == '':
        return 0
    if s.startswith('in'):
        return 1000 + int(s[2:])
    return int(s[1:])


# ------------------------------------------------------------------ implementation driver
class _Log:
    handlers = []

    def __getattr__(self, name):
        return lambda *a, **k: None


class _Dispatcher:
    def announce_update(self, moduleobj, pobj):
        pass


class _Srv:
    def __init__(self):
        self.dispatcher = _Dispatcher()
        self.secnode = None


def _num(v):
    if isinstance(v, bool):
        return v
    if isinstance(v, float) and v == int(v) and abs(v) < 1e15:
        return int(v)
    return v


def _canon(v):
    from frappy.datatypes import DataType
    from frappy.lib.enum import EnumMember
    import sys
    if isinstance(v, DataType):
        return ['DT', _dtexport(v)]
    if isinstance(v, EnumMember):
        return int(v)
    if isinstance(v, float):
        if v == sys.float_info.max:
            return 'MAX'
        if v == -sys.float_info.max:
            return '-MAX'
        return _num(v)
    if isinstance(v, (list, tuple)):
        return [_canon(x) for x in v]
    if isinstance(v, dict):
        return {str(k): _canon(x) for k, x in sorted(v.items(), key=lambda kv: str(kv[0]))}
    if v is None or isinstance(v, (bool, int, str)):
        return v
    return repr(type(v).__name__)


def _dtexport(dt):
    try:
        return _canon(dt.export_datatype())
    except Exception:
        return type(dt).__name__


def _describe_acc(name, o, inst=None):
    from frappy.params import Parameter
    d = {'n': name, 'k': 'P' if isinstance(o, Parameter) else 'C',
         'pv': {k: _canon(v) for k, v in sorted(o.propertyValues.items())}}
    # effective values (what the object answers), the export name normalised the way fixExport does it lazily
    eff = {}
    for k in sorted(o.propertyDict):
        try:
            eff[k] = _canon(getattr(o, k))
        except Exception as e:
            eff[k] = type(e).__name__
    if eff.get('export') is True:
        from frappy.params import PREDEFINED_ACCESSIBLES
        eff['export'] = name if name in PREDEFINED_ACCESSIBLES else '_' + name
    d['eff'] = eff
    d['optional'] = bool(o.optional)
    if d['k'] == 'C':
        d['func'] = getattr(o.func, '__name__', None)
    try:
        d['exp'] = _canon(o.for_export())
    except Exception as e:
        d['exp'] = type(e).__name__
    if inst is not None and d['k'] == 'C':
        # validation behaviour of the command: what its argument datatype says to a few transported values
        pr = []
        arg = o.argument
        for x in ([None] if arg is None else CMD_PROBES):
            try:
                if arg is not None:
                    arg.validate(arg.import_value(x))
                pr.append('ok')
            except Exception as e:
                pr.append(type(e).__name__)
        d['probe'] = pr
    if inst is not None and d['k'] == 'P':
        dt = o.datatype
        pr = []
        for x in PROBES:
            try:
                dt.validate(x)
                pr.append('ok')
            except Exception as e:
                pr.append(type(e).__name__)
        d['probe'] = pr
        d['given'] = bool(getattr(o, 'given', False))
    if os.environ.get('C09_FULL'):
        return d
    # compact form (memory): the raw values the model compares + a digest of everything the oracle compares
    full = {k: v for k, v in d.items() if k != 'pv'}
    c = {'n': name, 'k': d['k'], 'pv': {k: v for k, v in d['pv'].items() if k in ('description', 'group', 'value', 'datatype', 'argument', 'result')},
         'h': hashlib.md5(json.dumps(full, sort_keys=True, default=str).encode()).hexdigest()[:16]}
    if 'given' in d:
        c['given'] = d['given']
    return c


def _inputs(x):
    """names registered in what `x.inputCallbacks` evaluates to (mixin state of HasControlledBy)"""
    try:
        return [str(k) for k in getattr(x, 'inputCallbacks', ())]
    except Exception as e:
        return [type(e).__name__]


def _pval(v):
    from frappy.properties import UNSET
    return 'UNSET' if v is UNSET else _canon(v)


def _digest(x):
    if os.environ.get('C09_FULL'):
        return x
    return hashlib.md5(json.dumps(x, sort_keys=True, default=str).encode()).hexdigest()[:16]


def _class_props(cls):
    """class level Property objects: preset value (or UNSET) and default of every property in propertyDict"""
    pd = cls.propertyDict
    full = [[pn, _pval(po.value), _pval(po.default)] for pn, po in pd.items()]
    pm = [[PNAMES.index(pn), None if _pval(po.value) == 'UNSET' else _pval(po.value), _pval(po.default)]
          for pn, po in pd.items() if pn in PNAMES]
    return _digest(full), pm


def _describe_class(cls):
    props, pm = _class_props(cls)
    return {'acc': [_describe_acc(n, o) for n, o in cls.accessibles.items()], 'inputs': _inputs(cls),
            'props': props, 'pm': pm}


def _inst_eprops(inst):
    """effective value of every module property of an instance (what getattr answers)"""
    out = []
    for pn in inst.propertyDict:
        if pn == 'implementation':
            continue
        try:
            out.append([pn, _pval(getattr(inst, pn))])
        except Exception as e:
            out.append([pn, type(e).__name__])
    return out


def _describe_inst(inst):
    return {'acc': [_describe_acc(n, o, inst) for n, o in inst.accessibles.items()],
            'props': {k: _canon(v) for k, v in sorted(inst.propertyValues.items()) if k != 'implementation'},
            'eprops': _digest(_inst_eprops(inst)),
            'pm': [[PNAMES.index(pn), v] for pn, v in _inst_eprops(inst) if pn in PNAMES],
            'inputs': _inputs(inst)}


class _World:
    """executes ops on the real frappy code"""

    def __init__(self, tag):
        self.tag = tag
        self.classes = []       # python classes (None when the definition raised)
        self.module = []        # is module class
        self.insts = []         # module objects or None
        self.inst_cls = []
        self.pinned = []
        self.ids = {}
        self.own = []           # (class idx, name, Parameter object, original export of its own datatype)
        # the mixin state of frappy.mixins.HasControlledBy: a stand-in class per world carrying the REAL methods and
        # (a per-world copy of) the REAL class attribute `inputCallbacks`; every generated module class has it in its
        # MRO.  The accessibles of the mixin (controlled_by, target) are written by the generated programs instead,
        # because the real Parameter objects of the mixin would be merged in place (known finding) across cases.
        import copy
        from frappy.mixins import HasControlledBy
        ns = {k: v for k, v in HasControlledBy.__dict__.items()
              if k in ('register_input', 'self_controlled', 'update_target')}
        ns['inputCallbacks'] = copy.copy(HasControlledBy.__dict__.get('inputCallbacks', ()))
        self.hcb = type(tag + 'HasControlledBy', (), ns)

    def reg(self, o):
        from frappy.datatypes import ValueType
        if o is None or isinstance(o, ValueType):
            return -1
        k = id(o)
        if k not in self.ids:
            self.ids[k] = len(self.ids)
            self.pinned.append(o)
        return self.ids[k]

    def mk_dt(self, spec):
        from frappy.datatypes import FloatRange, EnumType
        if spec[0] == 'float':
            kw = {}
            if spec[3]:
                kw['unit'] = s_unit(spec[3])
            return FloatRange(spec[1], spec[2], **kw)
        return EnumType(members={s_mem(n): v for n, v in spec[1]})

    def mk_cdt(self, spec):
        """argument / result datatype of a command"""
        from frappy.datatypes import FloatRange, StructOf
        if spec is None:
            return None
        if spec[0] == 'float':
            return FloatRange(spec[1], spec[2])
        return StructOf(**{m: FloatRange(lo, hi) for m, lo, hi in spec[1]})

    def mk_func(self, attr, defaults, doc):
        """the function a Command decorates / the plain method overriding a command: cmd(self), go(self, value),
        calc(self, a, b) with defaults for the listed parameters"""
        defaults = sorted(defaults or [])
        if attr == 'calc':
            if defaults == ['a', 'b']:
                def f(self, a=0, b=1):
                    return None
            elif defaults == ['b']:
                def f(self, a, b=1):
                    return None
            elif defaults == ['a']:
                def f(self, b, a=0):
                    return None
            else:
                def f(self, a, b):
                    return None
        elif attr == 'go':
            def f(self, value):
                return None
        else:
            def f(self):
                return None
        f.__name__ = attr
        if doc is not None:
            f.__doc__ = doc if isinstance(doc, str) else f'doc{doc}'
        return f

    def mk_xdt(self, kind, unit):
        from frappy.datatypes import FloatRange, IntRange, StringType, BoolType, TupleOf, ArrayOf, StructOf, \
            LimitsType, StatusType
        if kind == 'r':
            return FloatRange(0, 100, unit=unit)
        if kind == 'lim':
            return LimitsType(FloatRange(0, 50, unit=unit))
        if kind == 'tup':
            return TupleOf(FloatRange(unit=unit), StringType(), IntRange(0, 5))
        if kind == 'arr':
            return ArrayOf(FloatRange(-1, 1, unit=unit), 0, 4)
        if kind == 'st':
            return StructOf(a=FloatRange(unit=unit), b=TupleOf(FloatRange(0, 9, unit=unit), BoolType()))
        return StatusType('IDLE', 'BUSY', 'ERROR')

    def define(self, idx, c):
        from frappy.modules import Module
        from frappy.params import Parameter, Command, Limit
        body = {}
        created = []
        for attr, e in c['dict']:
            kind = e[0]
            if kind == 'pnew':
                # a module level Property written in the class body
                from frappy.properties import Property
                from frappy.datatypes import IntRange
                s = e[1]
                kw = {} if s.get('value') is None else {'value': s['value']}
                body[attr] = Property(f'property {attr}', IntRange(s['lo'], s['hi']), default=s['default'],
                                      extname=attr, **kw)
                continue
            if kind == 'pbare':
                body[attr] = e[1]
                continue
            if kind == 'xparam':
                s = e[1]
                kw = {}
                if s.get('group') is not None:
                    kw['group'] = s_group(s['group'])
                body[attr] = Parameter(s_desc(s.get('desc', 1)), self.mk_xdt(attr, s.get('unit', '')), **kw)
                if attr == 'r':
                    body['r_limits'] = Limit()
                continue
            if kind == 'xover':
                s = e[1]
                kw = {k: v for k, v in (('group', s_group(s.get('group'))), ('unit', s.get('unit'))) if v is not None}
                body[attr] = Parameter(s_desc(s.get('desc')), **kw)
                continue
            if kind == 'param':
                s = e[1]
                kw = {}
                for k in ('group', 'value', 'min', 'max', 'unit'):
                    if s.get(k) is not None:
                        kw[k] = {'group': s_group, 'unit': s_unit}.get(k, lambda x: x)(s[k])
                dt = self.mk_dt(s['dt']) if s.get('dt') else None
                o = Parameter(s_desc(s.get('desc')), dt, inherit=s.get('inherit', True), **kw)
                body[attr] = o
                if dt is not None:
                    created.append((attr, o))
            elif kind == 'value':
                body[attr] = e[1]
            elif kind == 'none':
                body[attr] = None
            elif kind == 'cmd':
                s = e[1]
                f = self.mk_func(attr, s.get('defaults'), s.get('doc'))
                kw = {}
                if s.get('desc') is not None:
                    kw['description'] = s_desc(s['desc'])
                if s.get('group') is not None:
                    kw['group'] = s_group(s['group'])
                sig = s.get('sig')
                if sig:
                    arg, res = self.mk_cdt(sig.get('arg')), self.mk_cdt(sig.get('res'))
                    if arg is not None:
                        body[attr] = Command(arg, result=res, inherit=s.get('inherit', True), **kw)(f)
                    else:
                        body[attr] = Command(result=res, inherit=s.get('inherit', True), **kw)(f)
                else:
                    body[attr] = Command(inherit=s.get('inherit', True), **kw)(f)
            elif kind == 'method':
                s = e[1] if len(e) > 1 else {'doc': 0}
                body[attr] = self.mk_func(attr, s.get('defaults'), s.get('doc'))
        bases = tuple(self.classes[b] for b in c['bases'])
        if c['module'] and not any(self.module[b] for b in c['bases']):
            bases = bases + (self.hcb, Module)
        cls = type(f'{self.tag}C{idx}', bases, body)
        for attr, o in created:
            self.own.append((idx, attr, o, _dtexport(o.ownProperties['datatype'])))
        return cls

    def run_op(self, op):
        """returns info dict; exceptions of the code under test are recorded"""
        kind = op[0]
        info = {'exc': None}
        try:
            if kind == 'class':
                idx = len(self.classes)
                self.classes.append(None)
                self.module.append(bool(op[1]['module']))
                cls = self.define(idx, op[1])
                self.classes[idx] = cls
                info['mro'] = [self.classes.index(b) for b in cls.__mro__ if b in self.classes]
                # the MRO as the property component sees it: 0 = frappy.modulebase.Module, generated class i = i + 1
                from frappy.modules import Module
                info['pmro'] = [0 if b is Module else self.classes.index(b) + 1
                                for b in cls.__mro__ if b is Module or b in self.classes]
                from frappy.params import Accessible
                # names whose entry in the class __dict__ is an accessible object (includes the ones added by setattr
                # when a bare value found in a base was turned into a Parameter)
                info['accnames'] = sorted(n for n, v in cls.__dict__.items() if isinstance(v, Accessible))
            elif kind == 'inst':
                self.insts.append(None)
                self.inst_cls.append(op[1])
                cls = self.classes[op[1]]
                cfg = {'description': 'module'}
                for name, kvs in op[2]:
                    if name in PNAMES:
                        cfg[name] = kvs[0][1]       # a module property: `name = value`
                        continue
                    d = {}
                    for k, v in kvs:
                        d[k] = {'description': s_desc, 'group': s_group, 'unit': s_unit}.get(k, lambda x: x)(v)
                    cfg[name] = d
                if cls is None or not self.module[op[1]]:
                    info['exc'] = 'skip'
                else:
                    self.insts[-1] = cls(f'mod{len(self.insts) - 1}', _Log(), cfg, _Srv())
            elif kind == 'setprop':
                inst = self.insts[op[1]] if op[1] < len(self.insts) else None
                if inst is None or op[2] not in inst.parameters:
                    info['exc'] = 'skip'
                else:
                    v = {'description': s_desc, 'group': s_group, 'unit': s_unit}.get(op[3], lambda x: x)(op[4])
                    inst.parameters[op[2]].setProperty(op[3], v)
            elif kind == 'setpprop':
                # ['setpprop', inst, property, value]: HasProperties.setProperty on ONE instance at run time
                from frappy.errors import BadValueError
                inst = self.insts[op[1]] if op[1] < len(self.insts) else None
                if inst is None or op[2] not in inst.propertyDict:
                    info['exc'] = 'skip'
                else:
                    try:
                        inst.setProperty(op[2], op[3])
                    except BadValueError:
                        info['refused'] = True
            elif kind == 'setmember':
                inst = self.insts[op[1]] if op[1] < len(self.insts) else None
                if inst is None or op[2] not in inst.parameters:
                    info['exc'] = 'skip'
                else:
                    try:
                        dt = inst.parameters[op[2]].datatype
                        for sel in op[3]:
                            dt = dt.members if sel == 'm' else dt.members[sel]
                        dt.setProperty(op[4], op[5])
                    except Exception as e:
                        info['exc'] = 'skip'
                        info['why'] = f'{type(e).__name__}: {str(e)[:100]}'
            elif kind == 'setarg':
                # ['setarg', inst, command, 'argument'|'result', None|member, 'min'|'max', v]: a datatype property of
                # the argument / result of the command of ONE instance is changed at run time
                from frappy.datatypes import FloatRange, StructOf
                inst = self.insts[op[1]] if op[1] < len(self.insts) else None
                cobj = inst.commands.get(op[2]) if inst is not None else None
                dt = getattr(cobj, op[3], None) if cobj is not None else None
                if op[4] is None:
                    target = dt if isinstance(dt, FloatRange) else None
                else:
                    target = dt.members.get(op[4]) if isinstance(dt, StructOf) else None
                if target is None:
                    info['exc'] = 'skip'
                else:
                    target.setProperty(op[5], op[6])
                    cobj.finish()
            elif kind == 'grow':
                from frappy.datatypes import EnumType
                inst = self.insts[op[1]] if op[1] < len(self.insts) else None
                if inst is None or ENUM_NAME not in inst.parameters or \
                        not isinstance(inst.parameters[ENUM_NAME].datatype, EnumType):
                    info['exc'] = 'skip'
                else:
                    # the real HasControlledBy.register_input, bound through the stand-in mixin in the MRO
                    inst.register_input(s_mem(op[2]), lambda *a: None)
        except Exception as e:
            info['exc'] = f'{type(e).__name__}: {str(e)[:200]}'
            if kind == 'class':
                # a class body that raises is outside the domain: the program ends before it (see _exec)
                self.classes.pop()
                self.module.pop()
                info['abort'] = True
        return info

    def snapshot(self):
        snap = {}
        for i, cls in enumerate(self.classes):
            if cls is not None and self.module[i]:
                snap[f'c{i}'] = _describe_class(cls)
        for i, inst in enumerate(self.insts):
            if inst is not None:
                snap[f'i{i}'] = _describe_inst(inst)
        return snap

    def idvector(self):
        """identity of the Parameter and datatype objects reachable from classes and instances"""
        vec = []
        for i, cls in enumerate(self.classes):
            if cls is not None and self.module[i]:
                for n in NAMES:
                    o = cls.accessibles.get(n)
                    if o is not None:
                        vec.append([f'c{i}', n, self.reg(o), self.reg(o.propertyValues.get('datatype')),
                                    self.reg((o.ownProperties or {}).get('datatype'))])
        for i, inst in enumerate(self.insts):
            if inst is not None:
                for n in NAMES:
                    o = inst.accessibles.get(n)
                    if o is not None:
                        vec.append([f'i{i}', n, self.reg(o), self.reg(o.propertyValues.get('datatype')), -1])
        return vec

    def xidvector(self):
        """identity of the Command objects of the classes and of the argument / result datatype objects of classes
        (propertyValues and ownProperties) and instances"""
        from frappy.params import Command
        vec = []
        for i, cls in enumerate(self.classes):
            if cls is not None and self.module[i]:
                for n in CMDS:
                    o = cls.accessibles.get(n)
                    if isinstance(o, Command):
                        pv, own = o.propertyValues, o.ownProperties or {}
                        vec.append([f'c{i}', n, self.reg(o), self.reg(pv.get('argument')), self.reg(pv.get('result')),
                                    self.reg(own.get('argument')), self.reg(own.get('result'))])
        for i, inst in enumerate(self.insts):
            if inst is not None:
                for n in CMDS:
                    o = inst.accessibles.get(n)
                    if isinstance(o, Command):
                        vec.append([f'i{i}', n, self.reg(o.propertyValues.get('argument')),
                                    self.reg(o.propertyValues.get('result'))])
        return vec

    def pidvector(self):
        """identity of the class level Property objects: propertyDict, then the entries of the class __dict__"""
        from frappy.properties import Property
        vec = []
        for i, cls in enumerate(self.classes):
            if cls is not None and self.module[i]:
                row = [self.reg(po) for pn, po in cls.propertyDict.items() if pn in PNAMES]
                row += [self.reg(v) if isinstance(v, Property) else -1 for n, v in cls.__dict__.items() if n in PNAMES]
                vec.append([f'c{i}', '*'] + row)
        return vec

    def own_mutated(self):
        return [[ci, n] for ci, n, o, orig in self.own if _dtexport(o.ownProperties.get('datatype')) != orig]

    def shared_with_instances(self):
        """objects (Parameter / Command objects and, recursively through members / argument / result, datatype
        objects) reachable from an instance AND from a class or another instance.  Only objects that can be changed in
        place are reported (accessibles, datatypes with properties: limits, unit, lengths)"""
        from frappy.datatypes import DataType, ValueType

        def reach(o, acc, path):
            if o is None or isinstance(o, ValueType) or id(o) in acc:
                return
            acc[id(o)] = (o, path)
            if isinstance(o, DataType):
                for a in ('members', 'argument', 'result', 'other', 'types'):
                    m = getattr(o, a, None) if a in getattr(o, '__dict__', {}) else None
                    if isinstance(m, DataType):
                        reach(m, acc, f'{path}.{a}')
                    elif isinstance(m, (list, tuple)):
                        for k, x in enumerate(m):
                            if isinstance(x, DataType):
                                reach(x, acc, f'{path}.{a}[{k}]')
                    elif isinstance(m, dict):
                        for k, x in m.items():
                            if isinstance(x, DataType):
                                reach(x, acc, f'{path}.{a}[{k!r}]')
            else:
                for dn, d in (('propertyValues', o.propertyValues), ('ownProperties', o.ownProperties or {})):
                    for k, v in d.items():
                        if isinstance(v, DataType):
                            reach(v, acc, f'{path}.{dn}[{k!r}]')
        sets = {}
        for i, cls in enumerate(self.classes):
            if cls is not None:
                acc = {}
                for n, v in list(cls.__dict__.items()) + list(getattr(cls, 'accessibles', {}).items()):
                    if hasattr(v, 'propertyValues') and hasattr(v, 'ownProperties'):
                        reach(v, acc, n)
                sets[('c', i)] = acc
        for i, inst in enumerate(self.insts):
            if inst is not None:
                acc = {}
                for n, v in inst.accessibles.items():
                    reach(v, acc, n)
                sets[('i', i)] = acc
        bad = []
        for a in sets:
            if a[0] != 'i':
                continue
            for b in sets:
                if b == a or (b[0] == 'i' and b[1] < a[1]):
                    continue
                for k in set(sets[a]) & set(sets[b]):
                    o, pa = sets[a][k]
                    if isinstance(o, DataType) and not o.propertyDict:
                        continue       # nothing that could be changed in place
                    bad.append([f'{a[0]}{a[1]}', f'{b[0]}{b[1]}', type(o).__name__, pa, sets[b][k][1]])
        return sorted(bad)[:12]


_counter = [0]


def _exec(case, keep_classes=None, keep_inst=None, final_only=False):
    """run the ops (all, or only those of one class chain / one instance) and return (world, per-op infos, deltas)"""
    _counter[0] += 1
    w = _World(f'T{_counter[0]}_')
    infos, deltas, muts = [], [], []
    prev = {}
    cmap, n_inst = {}, 0
    for t, op in enumerate(case['ops']):
        if keep_classes is not None:
            # isolated replay: only the listed classes (renumbered), only the kept instance and its own ops
            if op[0] == 'class':
                ci = sum(1 for o in case['ops'][:t] if o[0] == 'class')
                if ci not in keep_classes:
                    continue
                c = dict(op[1], bases=[cmap[b] for b in op[1]['bases']])
                cmap[ci] = len(cmap)
                op = ['class', c]
            elif op[0] == 'inst':
                ii = sum(1 for o in case['ops'][:t] if o[0] == 'inst')
                if ii != keep_inst:
                    continue
                op = ['inst', cmap[op[1]], op[2]]
            else:
                if op[1] != keep_inst:
                    continue
                op = [op[0], 0] + list(op[2:])
        info = w.run_op(op)
        if info.get('abort'):
            break
        infos.append(info)
        if final_only:
            continue
        snap = w.snapshot()
        deltas.append([[k, v] for k, v in snap.items() if prev.get(k) != v])
        prev = snap
        muts.append(w.own_mutated())
    if final_only:
        prev = w.snapshot()
    return w, infos, deltas, muts, prev, cmap


def run_case(case):
    if 'fresh' in case:
        return fresh_run_case(case)
    w, infos, deltas, muts, final, _ = _exec(case)
    case = {'ops': case['ops'][:len(infos)]}     # truncated where a class definition raised
    obs = {'ops': infos, 'deltas': deltas, 'own_mut': muts, 'ids': w.idvector(), 'xids': w.xidvector(),
           'pids': w.pidvector(),
           'inst_shared': w.shared_with_instances()}
    # the description of every class / instance when only its own chain (and its own ops) exist
    iso = {}
    n_cls = len(w.classes)
    mros = {}
    ci = 0
    for info, op in zip(infos, case['ops']):
        if op[0] == 'class':
            mros[ci] = info.get('mro')
            ci += 1
    for i in range(n_cls):
        if w.classes[i] is None or not w.module[i] or mros.get(i) is None:
            continue
        chain = set(mros[i])
        _, _, _, _, fin, cmap = _exec(case, keep_classes=chain, keep_inst=-1, final_only=True)
        iso[f'c{i}'] = fin.get(f'c{cmap[i]}')
    for k, inst in enumerate(w.insts):
        if inst is None:
            continue
        ci = w.inst_cls[k]
        chain = set(mros[ci])
        _, _, _, _, fin, cmap = _exec(case, keep_classes=chain, keep_inst=k, final_only=True)
        iso[f'i{k}'] = fin.get('i0')
    obs['iso_diff'] = {ent: changed_names(iso.get(ent), desc) for ent, desc in final.items()
                       if strip(iso.get(ent)) != strip(desc)}
    # parameters of a class that have a 'datatype' key in propertyValues in only one of the two worlds (the effective
    # description is the same - the default ValueType - but only with the key the class can be instantiated); read by
    # the classifiers when an instance exists in one world only
    def dtkeys(desc):
        return {a['n'] for a in (desc or {}).get('acc', []) if a['k'] == 'P' and 'datatype' in a['pv']}
    obs['iso_dtkey'] = {ent: sorted(dtkeys(desc) ^ dtkeys(iso.get(ent))) for ent, desc in final.items()
                        if ent[0] == 'c' and iso.get(ent) is not None and dtkeys(desc) != dtkeys(iso.get(ent))}
    # the modelled part of the commands that differ, as they are in the isolated replay (read by a classifier)
    obs['iso_cmd'] = {ent: {n: _cmd_pv(iso.get(ent), n) for n in names if n in CMDS}
                      for ent, names in obs['iso_diff'].items() if any(n in CMDS for n in names)}
    return obs


# ------------------------------------------------------------------ helpers on cases / observations
def class_ops(case):
    return [op[1] for op in case['ops'] if op[0] == 'class']


def mro_of(case, obs):
    res = []
    for info, op in zip(obs['ops'], case['ops']):
        if op[0] == 'class':
            res.append(info.get('mro'))
    return res


def key_chain(case, obs, ci, name):
    """indices of the classes along the MRO of class ci (base first) whose body mentions name"""
    cl = class_ops(case)
    mro = mro_of(case, obs)[ci] or []
    if name == 'r_limits':      # written together with a full definition of r
        return [b for b in reversed(mro) if any(a == 'r' and e[0] == 'xparam' for a, e in cl[b]['dict'])]
    accn = [i.get('accnames') or [] for i, op in zip(obs['ops'], case['ops']) if op[0] == 'class']
    return [b for b in reversed(mro) if any(a == name for a, _ in cl[b]['dict']) or (b < len(accn) and name in accn[b])]


def strip(desc):
    """the description the property speaks about: effective property values, exported description, validation
    behaviour, order of accessibles -- not the raw propertyValues dict (which is normalised lazily, e.g. export)"""
    if desc is None:
        return None
    return dict(desc, acc=[{k: v for k, v in a.items() if k != 'pv'} for a in desc['acc']])


def changed_names(a, b):
    """names of accessibles whose description differs between two entity descriptions (order counts as all)"""
    a, b = strip(a), strip(b)
    if a is None or b is None:
        return ['*']
    da = {x['n']: x for x in a['acc']}
    db = {x['n']: x for x in b['acc']}
    names = [n for n in sorted(set(da) | set(db)) if da.get(n) != db.get(n)]
    if not names and [x['n'] for x in a['acc']] != [x['n'] for x in b['acc']]:
        names = ['*order']
    if not names and (a.get('props') != b.get('props') or a.get('eprops') != b.get('eprops')
                      or a.get('pm') != b.get('pm')):
        names = ['*props']
    if not names and a.get('inputs') != b.get('inputs'):
        names = ['*inputs']
    return names


# ------------------------------------------------------------------ direct oracle (the property on the observations)
def oracle(case, obs):
    if 'fresh' in case:
        return fresh_oracle(case, obs)
    fails = []
    state = {}
    n_cls = n_inst = 0
    for t, (op, info, delta) in enumerate(zip(case['ops'], obs['ops'], obs['deltas'])):
        kind = op[0]
        if kind == 'class':
            new = f'c{n_cls}'
            n_cls += 1
            addressed = {new}
        elif kind == 'inst':
            new = f'i{n_inst}'
            n_inst += 1
            addressed = {new}
        else:
            addressed = {f'i{op[1]}'}
        for ent, desc in delta:
            if ent in state and ent not in addressed and strip(state[ent]) != strip(desc):
                what = {'class': 'defining a class', 'inst': 'creating and configuring an instance',
                        'setprop': 'changing a property of one instance', 'grow': 'extending the enum of one instance',
                        'setmember': 'changing a property of a member datatype of one instance',
                        'setpprop': 'setting a module property of one instance',
                        'setarg': 'changing a datatype property of the argument/result of a command of one instance'}[kind]
                fails.append({'class': ('class' if ent[0] == 'c' else 'instance') + '-changed-by-' + kind,
                              'what': f'op {t} ({what}: {op[1] if kind != "class" else new}) changed the description of '
                                      f'{ent}: accessibles {changed_names(state[ent], desc)}',
                              'entity': ent, 'names': changed_names(state[ent], desc), 'op': t})
            state[ent] = desc
    # a description is a function of the own class chain and own configuration only
    # no changeable object may be reachable from an instance and from anything else: a property change (or the
    # replacement of $ by the main unit) made through one owner would change the other
    seen_pairs = set()
    for a, b, typ, pa, pb in obs['inst_shared']:
        if (a, b) in seen_pairs:
            continue
        seen_pairs.add((a, b))
        fails.append({'class': 'object-shared-between-' + ('instance-and-class' if b[0] == 'c' else 'instances'),
                      'what': f'the {typ} object at {a}:{pa} is the same object as {b}:{pb}: changing it through one of '
                              f'them changes the other',
                      'entity': a, 'names': [pa.split('.')[0]], 'op': len(obs['ops']) - 1})
    for ent, names in sorted(obs['iso_diff'].items()):
        fails.append({'class': ('class' if ent[0] == 'c' else 'instance') + '-depends-on-others',
                      'what': f'the description of {ent} differs from the one obtained when only its own class '
                              f'chain (and its own configuration/mutations) exists: accessibles {names}',
                      'entity': ent, 'names': names, 'op': len(case['ops']) - 1})
    return fails


def _class_of(case, ent):
    if ent[0] == 'c':
        return int(ent[1:])
    k = int(ent[1:])
    insts = [op for op in case['ops'] if op[0] == 'inst']
    return insts[k][1]


def _ids(obs):
    return {(e, n): (p, d, o) for e, n, p, d, o in obs['ids']}


def f_inplace_merge(case, obs, failure):
    """the changed accessible object of the class is also the accessible object of another (later defined) class whose
    chain of class bodies for that name is a different one: the shared object was re-merged in place"""
    ci = _class_of(case, failure['entity'])
    ids = _ids(obs)
    n_cls = len(class_ops(case))
    names = failure['names']
    if not names or any(n.startswith('*') for n in names):
        return False
    for n in names:
        hit = False
        cmd_or_param = n
        for other in range(n_cls):
            if other == ci:
                continue
            if key_chain(case, obs, other, cmd_or_param) == key_chain(case, obs, ci, cmd_or_param):
                continue
            if n in NAMES:
                a, b = ids.get((f'c{ci}', n)), ids.get((f'c{other}', n))
                if a is not None and b is not None and a[0] == b[0]:
                    hit = True
            else:
                # commands are not in the identity vector: same defining class body wins in both
                ka, kb = key_chain(case, obs, ci, n), key_chain(case, obs, other, n)
                if ka and kb and ka[-1] == kb[-1]:
                    hit = True
        if not hit:
            return False
    return True


def f_own_datatype(case, obs, failure):
    """a class body in the chain of the changed accessible holds a Parameter whose own datatype object
    (ownProperties['datatype']) was modified by the definition of a class overriding it by a bare value"""
    ci = _class_of(case, failure['entity'])
    names = failure['names']
    if names == ['*'] and failure['entity'][0] == 'i':
        ent = f'c{ci}'
        names = obs['iso_diff'].get(ent, [])
    if not names or any(n.startswith('*') for n in names):
        return False
    mut = {(c, n) for m in obs['own_mut'] for c, n in m}
    mro = mro_of(case, obs)[ci] or []
    cl = class_ops(case)
    mros = mro_of(case, obs)

    def entries(v, n):
        return [e for b in (mros[v] or []) for a, e in cl[b]['dict'] if a == n]

    def leak_input(b, n):
        """some class below b overrides n by a bare value while inheriting a datatype property override"""
        for v in range(len(cl)):
            if b in (mros[v] or []):
                es = entries(v, n)
                if any(e[0] == 'value' for e in es) and any(
                        e[0] == 'param' and not e[1].get('dt') and any(e[1].get(k) is not None for k in ('min', 'max', 'unit'))
                        for e in es):
                    return True
        return False
    return all(any((b, n) in mut and leak_input(b, n) for b in mro) for n in names)


def _cmd_pv(desc, n):
    for a in (desc or {}).get('acc', []):
        if a['n'] == n and a['k'] == 'C':
            return a['pv']
    return None


def _desc_at(obs, ent, t):
    """description of an entity after op t (None before it exists)"""
    d = None
    for dl in obs['deltas'][:t + 1]:
        for e, x in dl:
            if e == ent:
                d = x
    return d


def _only_optional_differs(p, q):
    """two command descriptions (modelled part) that differ in the optional list of the struct argument only"""
    def core(pv):
        pv = json.loads(json.dumps(pv))
        pv.pop('datatype', None)        # CommandType(argument, result): derived
        arg = pv.get('argument')
        if not arg or not isinstance(arg[1], dict) or arg[1].get('type') != 'struct':
            return pv, None
        return pv, sorted(arg[1].pop('optional', list(arg[1]['members'])))
    if p is None or q is None:
        return False
    (a, oa), (b, ob) = core(p), core(q)
    return a == b and oa is not None and ob is not None and oa != ob


def f_method_reset(case, obs, failure):
    """the changed accessible is a command that a class in the MRO of the entity overrides by a PLAIN METHOD (no class
    nearer to the entity gives a new signature), a subclass of that class was defined, and the descriptions differ in
    the optional list of the struct argument only: the re-merge at the definition of the subclass replaced the
    argument of the method-overridden Command by the one of the base (ownProperties of the clone lack it)"""
    names = failure['names']
    if not names or any(n not in CMDS for n in names):
        return False
    ent = failure['entity']
    ci = _class_of(case, ent)
    cl = class_ops(case)
    mros = mro_of(case, obs)
    mro = mros[ci] or []
    for n in names:
        hit = False
        for pos, m in enumerate(mro):        # most derived first
            es = [e for a, e in cl[m]['dict'] if a == n]
            if not es:
                continue
            if es[0][0] == 'cmd' and es[0][1].get('sig'):
                break
            if es[0][0] == 'method':
                hit = any(v != m and m in (mros[v] or []) for v in range(len(cl)))
                break
        if not hit:
            return False
        if failure['class'].endswith('-depends-on-others'):
            a, b = _cmd_pv(_desc_at(obs, ent, len(obs['deltas'])), n), (obs.get('iso_cmd', {}).get(ent) or {}).get(n)
        else:
            a, b = _cmd_pv(_desc_at(obs, ent, failure['op'] - 1), n), _cmd_pv(_desc_at(obs, ent, failure['op']), n)
        if not _only_optional_differs(a, b):
            return False
    return True


def _normalise(case, obs, failure):
    names = failure['names']
    if names == ['*'] and failure['entity'][0] == 'i':
        # the instance exists in only one of the two worlds: explained iff the description of its class differs
        # between them, in accessibles that a known finding covers
        ent = f'c{_class_of(case, failure["entity"])}'
        names = sorted(set(obs['iso_diff'].get(ent, [])) | set(obs.get('iso_dtkey', {}).get(ent, [])))
        failure = dict(failure, names=names, entity=ent, **{'class': 'class-depends-on-others'})
    if failure['entity'][0] == 'i' and 'value' in names:
        # `$` in the units of other parameters is replaced by the unit of `value` when the instance is created: they
        # differ as a consequence whenever the unit of `value` does
        names = [n for n in names if n not in EXTRA and n != 'r_limits']
        failure = dict(failure, names=names)
    return failure


def _covered(case, obs, failure, n):
    f1 = dict(failure, names=[n])
    return f_inplace_merge(case, obs, f1) or f_own_datatype(case, obs, f1) or f_method_reset(case, obs, f1)


def f_either(case, obs, failure):
    failure = _normalise(case, obs, failure)
    names = failure['names']
    if not names or any(n.startswith('*') for n in names):
        return False
    return all(_covered(case, obs, failure, n) for n in names)


def f_any_reset(case, obs, failure):
    failure = _normalise(case, obs, failure)
    return any(f_method_reset(case, obs, dict(failure, names=[n])) for n in failure['names'])


def f_own_dt(case, obs, failure):
    return f_own_datatype(case, obs, _normalise(case, obs, failure))


def _not_fresh(fn):
    # the fresh-interpreter families (process wide state, configuration objects) are covered by NO known finding
    return lambda c, o, f: 'fresh' not in c and fn(c, o, f)


FINDING_CLASSIFIERS = {
    'inplace_merge_of_shared_accessible':
        _not_fresh(lambda c, o, f: f_either(c, o, f) and not f_own_dt(c, o, f) and not f_any_reset(c, o, f)),
    'value_override_mutates_inherited_own_datatype': _not_fresh(lambda c, o, f: f_own_dt(c, o, f)),
    'method_override_of_command_reset_by_subclass': _not_fresh(lambda c, o, f: f_either(c, o, f) and f_any_reset(c, o, f)),
}


# ------------------------------------------------------------------ encoding into Gallina
def oz(x):
    return gal.option(x, gal.z)


def enc_dtspec(spec):
    if spec is None:
        return 'None'
    if spec[0] == 'float':
        return '(Some (mkdt 1%%nat %s %s %s []))' % (oz(spec[1]), oz(spec[2]), gal.z(spec[3] or 0))
    return '(Some (mkdt 2%%nat None None (0)%%Z %s))' % gal.lst(spec[1], lambda p: gal.pair(p, gal.z, gal.z))


def enc_entry(e):
    if e[0] == 'param':
        s = e[1]
        return ('(EParam (Build_pspec %s %s %s %s %s '
                '%s %s %s))' % (
                    oz(s.get('desc')), enc_dtspec(s.get('dt')), gal.boolean(s.get('inherit', True)), oz(s.get('group')),
                    oz(s.get('value')), oz(s.get('min')), oz(s.get('max')), oz(s.get('unit'))))
    if e[0] == 'value':
        return f'(EValue {gal.z(e[1])})'
    return 'ENone'


def model_acc(a):
    """model level description of one accessible of the full description"""
    pv = a['pv']
    dt = pv.get('datatype')
    kind, mn, mx, unit, mem = 0, None, None, 0, []
    if dt is not None and isinstance(dt[1], dict):
        info = dt[1]
        if info.get('type') == 'double':
            kind = 1
            mn, mx = info.get('min'), info.get('max')
            unit = code(info.get('unit', ''))
        elif info.get('type') == 'enum':
            kind = 2
            mem = sorted(([code(k), v] for k, v in info['members'].items()), key=lambda p: p[1])
        else:
            kind = 9
    return '(%s, Build_acc_desc %s %s %s (mkdt %s %s %s %s %s))' % (
        gal.nat(NAMES.index(a['n'])), oz(code(pv.get('description'))), oz(code(pv.get('group'))),
        oz(pv.get('value') if a.get('given', True) else None), gal.nat(kind), oz(mn), oz(mx), gal.z(unit),
        gal.lst(mem, lambda p: gal.pair(p, gal.z, gal.z)))


def model_desc(desc):
    accs = sorted((a for a in desc['acc'] if a['k'] == 'P' and a['n'] in NAMES), key=lambda a: NAMES.index(a['n']))
    return gal.lst(accs, model_acc)


def enc_ent(ent):
    return ('(EClass %s)' if ent[0] == 'c' else '(EInst %s)') % gal.nat(int(ent[1:]))


def enc_op(op, info):
    k = op[0]
    if k == 'class':
        c = op[1]
        d = [(a, e) for a, e in c['dict'] if a in NAMES and e[0] in ('param', 'value', 'none')]
        if info.get('mro') is None:
            raise ValueError('class definition raised: %s' % info['exc'])
        return '(ODefine (Build_cdef %s %s %s))' % (
            gal.boolean(c['module']), gal.lst(info['mro'], gal.nat),
            gal.lst(d, lambda p: f'({gal.nat(NAMES.index(p[0]))}, {enc_entry(p[1])})'))
    if k in ('setmember', 'setarg', 'setpprop'):
        return '(OSetProp %s 99%%nat 0%%nat (0)%%Z)' % gal.nat(op[1])     # no effect on the part modelled in Model.v
    if k == 'inst':
        cfg = [(n, kvs) for n, kvs in op[2] if n in NAMES]
        return '(OInst %s %s)' % (gal.nat(op[1]), gal.lst(cfg, lambda p: '(%s, %s)' % (
            gal.nat(NAMES.index(p[0]) if p[0] in NAMES else 99),
            gal.lst(p[1], lambda kv: f'({gal.nat(PKEYS[kv[0]])}, {gal.z(kv[1])})'))))
    if k == 'setprop':
        return '(OSetProp %s %s %s %s)' % (gal.nat(op[1]), gal.nat(NAMES.index(op[2])), gal.nat(PKEYS[op[3]]), gal.z(op[4]))
    return '(OGrow %s %s)' % (gal.nat(op[1]), gal.z(op[2]))


# ---- command / mixin component (CmdModel.v)
def xcode(s):
    """description of a command -> code: '' 0, 'd5' 5, 'doc3' 103, 'doc a' 111, 'plain method' 100"""
    if s is None:
        return None
    if s == '':
        return 0
    if s == 'plain method':
        return 100
    if s.startswith('doc '):
        return 111 + ord(s[4]) - ord('a')
    if s.startswith('doc'):
        return 100 + int(s[3:])
    return int(s[1:])


def doc_code(doc):
    if doc is None:
        return None
    return 100 + doc if isinstance(doc, int) else xcode(doc)


def enc_lim(lo, hi):
    return f'({oz(lo)}, {oz(hi)})'


def enc_cdt(spec):
    """a datatype written in a class body (a new StructOf has every member optional until a function is decorated)"""
    if spec[0] == 'float':
        return '(mkcdt 1%%nat %s %s [] [])' % (oz(spec[1]), oz(spec[2]))
    mem = [(MEMBERS[m], lo, hi) for m, lo, hi in spec[1]]
    return '(mkcdt 2%%nat None None %s %s)' % (
        gal.lst(mem, lambda x: f'({gal.z(x[0])}, {enc_lim(x[1], x[2])})'), gal.lst(sorted(x[0] for x in mem), gal.z))


def enc_cdt_obs(x):
    """an observed argument / result datatype (exported description) as option cdt"""
    if x is None:
        return 'None'
    info = x[1]
    if isinstance(info, dict) and info.get('type') == 'double':
        return '(Some (mkcdt 1%%nat %s %s [] []))' % (oz(info.get('min')), oz(info.get('max')))
    if isinstance(info, dict) and info.get('type') == 'struct':
        mem = [(MEMBERS.get(k, 99), v.get('min'), v.get('max')) for k, v in info['members'].items()]
        opt = sorted(MEMBERS.get(k, 99) for k in info.get('optional', list(info['members'])))
        return '(Some (mkcdt 2%%nat None None %s %s))' % (
            gal.lst(mem, lambda m: f'({gal.z(m[0])}, {enc_lim(m[1], m[2])})'), gal.lst(opt, gal.z))
    return '(Some (mkcdt 9%nat None None [] []))'


def enc_defaults(d):
    return gal.lst(sorted(MEMBERS[m] for m in (d or [])), gal.z)


def enc_xentry(name, e):
    if e[0] == 'cmd':
        s = e[1]
        sig = s.get('sig')
        if sig:
            sg = '(Some (%s, %s))' % tuple('None' if sig.get(k) is None else '(Some %s)' % enc_cdt(sig[k])
                                           for k in ('arg', 'res'))
        else:
            sg = 'None'
        return '(XECmd (Build_cspec %s %s %s %s))' % (
            oz(s.get('desc')), sg, oz(doc_code(s.get('doc'))), enc_defaults(s.get('defaults') if name == 'calc' else []))
    if e[0] == 'method':
        s = e[1] if len(e) > 1 else {'doc': 0}
        return '(XEFunc %s %s)' % (oz(doc_code(s.get('doc'))), enc_defaults(s.get('defaults') if name == 'calc' else []))
    return 'XENone'


def enc_xop(op, info):
    k = op[0]
    if k == 'class':
        c = op[1]
        d = [(a, e) for a, e in c['dict'] if a in CMDS and e[0] in ('cmd', 'method', 'none')]
        return '(XDefine (Build_xcdef %s %s %s))' % (
            gal.boolean(c['module']), gal.lst(info['mro'], gal.nat),
            gal.lst(d, lambda p: f'({gal.nat(CMDS.index(p[0]))}, {enc_xentry(p[0], p[1])})'))
    if k == 'inst':
        cfg = [(CMDS.index(n), dict((a, b) for a, b in kvs)['description']) for n, kvs in op[2] if n in CMDS]
        return '(XInst %s %s %s)' % (gal.nat(op[1]), gal.boolean(info['exc'] is None),
                                     gal.lst(cfg, lambda p: f'({gal.nat(p[0])}, {gal.z(p[1])})'))
    if k == 'setarg':
        return '(XSetArg %s %s %s %s %s %s)' % (
            gal.nat(op[1]), gal.nat(CMDS.index(op[2])), gal.boolean(op[3] == 'result'),
            'None' if op[4] is None else f'(Some {gal.z(MEMBERS[op[4]])})', gal.nat(PKEYS[op[5]]), gal.z(op[6]))
    if k == 'grow' and info['exc'] is None:
        return '(XRegister %s %s)' % (gal.nat(op[1]), gal.z(op[2]))
    return 'XNop'


def xmodel_cmd(a):
    pv = a['pv']
    return '(%s, Build_cmd_desc %s %s %s)' % (
        gal.nat(CMDS.index(a['n'])), oz(xcode(pv.get('description'))), enc_cdt_obs(pv.get('argument')),
        enc_cdt_obs(pv.get('result')))


def xmodel_desc(desc):
    cmds = sorted((a for a in desc['acc'] if a['k'] == 'C' and a['n'] in CMDS), key=lambda a: CMDS.index(a['n']))
    return '(%s, %s)' % (gal.lst(cmds, xmodel_cmd), gal.lst(desc.get('inputs', []), lambda s: gal.z(code(s))))


# ---- module property component (PropModel.v)
def enc_pop(op, info):
    k = op[0]
    if k == 'class':
        c = op[1]
        body = []
        for a, e in c['dict']:
            if a in PNAMES and e[0] == 'pnew':
                x = e[1]
                body.append('(%s, PBNew %s %s %s %s)' % (gal.nat(PNAMES.index(a)), gal.z(x['lo']), gal.z(x['hi']),
                                                       gal.z(x['default']), oz(x.get('value'))))
            elif a in PNAMES and e[0] == 'pbare':
                body.append('(%s, PBBare %s)' % (gal.nat(PNAMES.index(a)), gal.z(e[1])))
        return '(PDefine (mkpcdef %s %s [%s]))' % (gal.boolean(c['module']), gal.lst(info['pmro'], gal.nat), '; '.join(body))
    if k == 'inst':
        cfg = [(PNAMES.index(n), kvs[0][1]) for n, kvs in op[2] if n in PNAMES]
        return '(PInst %s %s %s)' % (gal.nat(op[1] + 1), gal.boolean(info['exc'] is None),
                                     gal.lst(cfg, lambda p: f'({gal.nat(p[0])}, {gal.z(p[1])})'))
    if k == 'setpprop' and info['exc'] is None:
        return '(PSetProp %s %s %s)' % (gal.nat(op[1]), gal.nat(PNAMES.index(op[2])), gal.z(op[3]))
    return 'PNop'


def pmodel_desc(desc):
    pm = desc.get('pm', [])
    if pm and len(pm[0]) == 3:       # class: value or UNSET, default
        return gal.lst(pm, lambda x: f'({gal.nat(x[0])}, ({oz(x[1])}, {gal.z(x[2])}))')
    return gal.lst(pm, lambda x: f'({gal.nat(x[0])}, (Some {gal.z(x[1])}, (0)%Z))')


def canon_ids(vec):
    m = {}
    out = []
    for e, n, *xs in vec:
        for x in xs:
            if x < 0:
                out.append(0)
            else:
                out.append(m.setdefault(x, len(m) + 1))
    return out


def encode(case, obs):
    ops, dl, oks, xops, xdl, pops, pdl = [], [], [], [], [], [], []
    last = {}

    def changed(comp, delta, enc):
        """the entities of a delta whose description in this component really differs from the one sent last"""
        out = []
        for ent, desc in delta:
            s = enc(desc)
            if last.get((comp, ent)) != s:
                last[(comp, ent)] = s
                out.append(f'({enc_ent(ent)}, {s})')
        return '[' + '; '.join(out) + ']'
    for op, info, delta in zip(case['ops'], obs['ops'], obs['deltas']):
        if info['exc'] and op[0] in RUNTIME_OPS and info['exc'] != 'skip':
            raise ValueError('run-time op raised: ' + info['exc'])
        ops.append(enc_op(op, info))
        oks.append(gal.boolean(info['exc'] is None))
        dl.append(changed('p', delta, model_desc))
        xops.append(enc_xop(op, info))
        xdl.append(changed('x', delta, xmodel_desc))
        pops.append(enc_pop(op, info))
        pdl.append(changed('m', delta, pmodel_desc))
    return ('(Build_case [%s] [%s] [%s] %s '
            '[%s] [%s] %s [%s] [%s] %s)') % (
        '; '.join(ops), '; '.join(oks), '; '.join(dl), gal.lst(canon_ids(obs['ids']), gal.nat),
        '; '.join(xops), '; '.join(xdl), gal.lst(canon_ids(obs['xids']), gal.nat),
        '; '.join(pops), '; '.join(pdl), gal.lst(canon_ids(obs['pids']), gal.nat))


def model_result_term(case, obs):
    return f'model_result ({encode(case, obs)})'


# ------------------------------------------------------------------ evidence helpers
def nontrivial_key(case, obs):
    if 'fresh' in case:
        return repr(case['fresh'])
    n_mod = sum(1 for c in class_ops(case) if c['module'])
    if n_mod < 2 or len(case['ops']) < 3:
        return None
    return repr(case['ops'])


def outcome_labels(case, obs):
    labs = set()
    if 'fresh' in case:
        labs.add('fresh-interpreter-' + case['fresh']['kind'])
    for op, info in zip(case['ops'], obs['ops']):
        if op[0] == 'class':
            c = op[1]
            labs.add('mixin' if not c['module'] else ('multi-inheritance' if len(c['bases']) > 1 else 'class'))
            for a, e in c['dict']:
                labs.add('entry-' + e[0] + ('-noinherit' if e[0] in ('param', 'cmd') and not e[1].get('inherit', True) else ''))
                if a in CMDS and e[0] in ('cmd', 'method'):
                    labs.add(f'{a}-' + e[0] + ('-signature' if e[0] == 'cmd' and e[1].get('sig') else '')
                             + ('-defaults' if len(e) > 1 and e[1].get('defaults') else ''))
        else:
            labs.add(op[0] + ('' if info['exc'] is None else ('-skipped' if info['exc'] == 'skip' else '-rejected'))
                     + ('-refused' if info.get('refused') else ''))
    if any(obs['own_mut']):
        labs.add('own-datatype-mutated')
    for f in oracle(case, obs):
        labs.add('oracle:' + f['class'])
    return sorted(labs)


def sample_repr(case, obs):
    if 'fresh' in case:
        return {'fresh': case['fresh']}
    return {'ops': case['ops'], 'results': [i['exc'] for i in obs['ops']],
            'changed_entities_per_op': [[e for e, _ in d] for d in obs['deltas']]}


def extra_evidence(cases, obs):
    shared = sum(1 for o in obs if '__harness_error__' not in o and o['inst_shared'])
    return {'cases_with_objects_shared_between_an_instance_and_anything_else': shared}


# ------------------------------------------------------------------ generators
def _mro_ok(bases_of, module):
    """build dummy classes to let python decide whether the hierarchy has a consistent MRO"""
    dummies = []
    root = type('Root', (), {})
    try:
        for bs, m in zip(bases_of, module):
            b = tuple(dummies[i] for i in bs)
            if m and not any(module[i] for i in bs):
                b = b + (root,)
            dummies.append(type('D', b, {}))
    except TypeError:
        return False
    return True


def rand_dt(rng, name):
    if name == ENUM_NAME:
        mem = [[0, 0]] + [[k, k] for k in sorted(rng.sample([1, 2, 3, 4], rng.randint(0, 2)))]
        return ['enum', mem]
    lo = rng.choice([None, -10, -5, 0, 1])
    hi = rng.choice([None, 3, 5, 10, 20])
    return ['float', lo, hi, rng.choice([0, 0, 1, 2])]


def rand_csig(rng, name):
    """signature of a command: cmd() [-> float], go(FloatRange) [-> float], calc(StructOf(a, b)) [-> float]"""
    res = rng.choice([None, None, ['float', 0, 100], ['float', None, None]])
    if name == 'go':
        return {'arg': ['float', rng.choice([None, 0, -5]), rng.choice([None, 10, 20])], 'res': res}
    if name == 'calc':
        return {'arg': ['struct', [['a', rng.choice([None, 0]), rng.choice([None, 10])],
                                   ['b', rng.choice([None, -5]), rng.choice([None, 5, 20])]]], 'res': res}
    return {'arg': None, 'res': res} if res is not None and rng.random() < 0.5 else None


def rand_entry(rng, name, with_dt):
    if name in CMDS:
        r = rng.random()
        defaults = rng.choice(DEFAULTS) if name == 'calc' else []
        if with_dt or r < 0.5:
            s = {'desc': rng.choice([1, 2, 3, None]), 'group': rng.choice([None, None, 1]),
                 'doc': rng.choice([None, 1, 2]), 'defaults': defaults}
            if s['desc'] is None and s['doc'] is None:
                s['doc'] = 3                      # a command always gets a description (else no instance can exist)
            if with_dt or r < 0.25:
                s['sig'] = rand_csig(rng, name)   # else: Command(description=...) overriding without a signature
            return ['cmd', s]
        if r < 0.88:
            return ['method', {'doc': rng.choice([None, 0, 4]), 'defaults': defaults}]
        return ['none']
    r = rng.random()
    if with_dt or r < 0.2:
        s = {'desc': rng.choice([1, 2, 3, None]) if not with_dt else rng.choice([1, 2, 3]),
             'dt': rand_dt(rng, name), 'inherit': rng.random() > 0.1}
        if rng.random() < 0.3:
            s['group'] = rng.choice([0, 1, 2])
        if rng.random() < 0.3:
            s['value'] = 0 if name == ENUM_NAME else rng.choice([0, 1, 2, 4, 7])
        return ['param', s]
    if r < 0.62:
        s = {'inherit': rng.random() > 0.1}
        if rng.random() < 0.4:
            s['desc'] = rng.choice([0, 4, 5, 6])
        if rng.random() < 0.3:
            s['group'] = rng.choice([0, 1, 2, 3])
        if rng.random() < 0.25:
            s['value'] = rng.choice([0, 1, 2, 4, 7])
        if name != ENUM_NAME:
            for k, vals in (('min', [-20, -5, 0, 2]), ('max', [1, 4, 8, 50]), ('unit', [0, 1, 2, 3])):
                if rng.random() < 0.35:
                    s[k] = rng.choice(vals)
        return ['param', s]
    if r < 0.88:
        return ['value', 0 if name == ENUM_NAME else rng.choice([0, 1, 2, 3, 6])]
    return ['none']


class _Gen:
    """tracks, per generated class, which names have a datatype somewhere in the ancestor closure"""

    def __init__(self, rng):
        self.rng = rng
        self.module, self.bases, self.has_dt, self.has_any = [], [], [], []
        self.x_def, self.x_none = [], []      # extra names fully defined / removed somewhere in the ancestor closure
        self.c_def, self.c_none = [], []      # commands defined by Command(...) / removed somewhere in the closure
        self.p_def = []                       # custom properties with a Property object somewhere in the ancestor closure

    def new_class(self):
        rng = self.rng
        n_prev = len(self.module)
        for _ in range(20):
            module = rng.random() < 0.75
            cands = [i for i in range(n_prev) if module or not self.module[i]]
            k = min(len(cands), rng.choice([0, 1, 1, 1, 2, 2]))
            bases = rng.sample(cands, k) if k else []
            if _mro_ok(self.bases + [bases], self.module + [module]):
                break
        else:
            module, bases = True, []
        dt = set().union(*[self.has_dt[b] for b in bases]) if bases else set()
        anyn = set().union(*[self.has_any[b] for b in bases]) if bases else set()
        d = []
        cd = set().union(*[self.c_def[b] for b in bases]) if bases else set()
        cn = set().union(*[self.c_none[b] for b in bases]) if bases else set()
        for name in NAMES + CMDS:
            known = name in dt
            if module:
                p = 0.45 if known else 0.5
            else:
                p = 0.4
            if rng.random() < p:
                if module:
                    with_dt = (not known) and rng.random() < 0.93
                else:
                    with_dt = (not known) and rng.random() < 0.3
                e = rand_entry(rng, name, with_dt)
                d.append([name, e])
                anyn.add(name)
                if e[0] == 'cmd' or (e[0] == 'param' and e[1].get('dt')):
                    dt = dt | {name}
                if name in CMDS and e[0] == 'cmd':
                    cd = cd | {name}
                if name in CMDS and e[0] == 'none':
                    cn = cn | {name}
        xd = set().union(*[self.x_def[b] for b in bases]) if bases else set()
        xn = set().union(*[self.x_none[b] for b in bases]) if bases else set()
        for name in EXTRA:
            if rng.random() >= (0.22 if module else 0.15):
                continue
            r = rng.random()
            if name not in xd or r < 0.2:
                d.append([name, ['xparam', {'desc': rng.choice([1, 2, 3]), 'unit': rng.choice(XUNITS),
                                            'group': rng.choice([None, None, 1])}]])
                xd = xd | {name}
            elif r < 0.8 or name == 'r':
                o = {}
                if rng.random() < 0.6:
                    o['desc'] = rng.choice([4, 5])
                if rng.random() < 0.4:
                    o['group'] = rng.choice([0, 2])
                if name in ('r', 'arr') and rng.random() < 0.5:
                    o['unit'] = rng.choice(XUNITS)
                d.append([name, ['xover', o]])
            else:
                d.append([name, ['none']])
                xn = xn | {name}
        pdef = set().union(*[self.p_def[b] for b in bases]) if bases else set()
        for name in PNAMES:
            if rng.random() >= (0.28 if module else 0.22):
                continue
            custom = name in ('gain', 'level')
            if custom and (name not in pdef and rng.random() < 0.75 or rng.random() < 0.1):
                lo, hi = PRANGE[name]
                d.append([name, ['pnew', {'lo': lo, 'hi': hi, 'default': rng.choice(PVALS[name]),
                                          'value': rng.choice([None, None] + PVALS[name])}]])
                pdef = pdef | {name}
            else:
                d.append([name, ['pbare', rng.choice(PVALS[name])]])
        self.p_def.append(pdef)
        self.module.append(module)
        self.bases.append(bases)
        self.has_dt.append(dt)
        self.has_any.append(anyn)
        self.x_def.append(xd)
        self.x_none.append(xn)
        self.c_def.append(cd)
        self.c_none.append(cn)
        return {'module': module, 'bases': bases, 'dict': d}

    def sure_extras(self, ci):
        return sorted(self.x_def[ci] - self.x_none[ci])

    def sure_props(self, ci):
        return sorted(self.p_def[ci]) + ['visibility', 'slowinterval']

    def sure_cmds(self, ci):
        return sorted(self.c_def[ci] - self.c_none[ci])


MEMBER_PATHS = {'r': [[]], 'r_limits': [[0]], 'lim': [[0], [1]], 'tup': [[0]], 'arr': [['m']], 'st': [['a'], ['b', 0]]}


def rand_xcfg(rng, extras):
    cfg = []
    for name in extras:
        if rng.random() < 0.3:
            if name in ('r', 'arr') and rng.random() < 0.6:
                cfg.append([name, [['unit', rng.choice(XUNITS + ['m$'])]]])
            else:
                cfg.append([name, [rng.choice([['description', 'x7'], ['group', 'xg']])]])
    return cfg


def rand_cfg(rng, names):
    cfg = rand_cfg0(rng, names)
    if 'value' in names and rng.random() < 0.35 and not any(n == 'value' for n, _ in cfg):
        cfg.append(['value', [['unit', rng.choice([4, 5, 6])]]])      # instances with different main units
    return cfg


def rand_cfg0(rng, names):
    cfg = []
    pool = [n for n in NAMES if n in names] or NAMES
    if rng.random() < 0.08:
        pool = NAMES
    for name in rng.sample(pool, min(len(pool), rng.choice([0, 1, 1, 2]))):
        kvs = []
        keys = ['description', 'group', 'value'] + (['min', 'max', 'unit'] * 2 if name != ENUM_NAME or rng.random() < 0.1 else [])
        for k in dict.fromkeys(rng.choice(keys) for _ in range(rng.randint(1, 3))):
            v = {'description': [0, 7, 8], 'group': [0, 4], 'value': [0, 1, 3, 9] if name != ENUM_NAME else [0, 0, 1, 2],
                 'min': [-30, -1, 0, 6], 'max': [2, 9, 60], 'unit': [0, 4, 5]}[k]
            kvs.append([k, rng.choice(v)])
        cfg.append([name, kvs])
    return cfg


def rand_setarg(rng, ii, name):
    which = 'result' if rng.random() < 0.15 else 'argument'
    path = rng.choice(['a', 'b']) if (name == 'calc' and which == 'argument') else None
    key, v = rng.choice([['max', 5], ['max', 7], ['min', 1], ['min', -20], ['max', 50]])
    return ['setarg', ii, name, which, path, key, v]


def rand_case(rng, nops=None):
    nops = nops or rng.randint(3, 12)
    ops = []
    g = _Gen(rng)
    inst_cls = []
    grow = 0
    for t in range(nops):
        n_cls = len(g.module)
        r = rng.random()
        mods = [i for i in range(n_cls) if g.module[i]]
        if n_cls < 2 or r < 0.45 or not mods:
            ops.append(['class', g.new_class()])
        elif r < 0.66 or not inst_cls:
            ci = rng.choice(inst_cls) if inst_cls and rng.random() < 0.45 else rng.choice(mods)
            ccfg = [[n, [['description', rng.choice([7, 8])]]] for n in g.sure_cmds(ci) if rng.random() < 0.12]
            pcfg = [[n, [['value', rng.choice(PVALS[n])]]] for n in g.sure_props(ci) if rng.random() < 0.15]
            ops.append(['inst', ci, rand_cfg(rng, g.has_any[ci]) + rand_xcfg(rng, g.sure_extras(ci)) + ccfg + pcfg])
            inst_cls.append(ci)
        elif r < 0.72 and any(set(g.sure_cmds(c)) & {'go', 'calc'} for c in inst_cls):
            ii = rng.choice([k for k, c in enumerate(inst_cls) if set(g.sure_cmds(c)) & {'go', 'calc'}])
            ops.append(rand_setarg(rng, ii, rng.choice(sorted(set(g.sure_cmds(inst_cls[ii])) & {'go', 'calc'}))))
        elif r < 0.78 and any(g.sure_extras(c) for c in inst_cls):
            ii = rng.choice([k for k, c in enumerate(inst_cls) if g.sure_extras(c)])
            name = rng.choice(g.sure_extras(inst_cls[ii]))
            if name == 'r' and rng.random() < 0.4:
                name = 'r_limits'
            path = rng.choice(MEMBER_PATHS.get(name, [[0]]))
            key, v = rng.choice([['max', 7], ['max', 33], ['unit', 'mV'], ['unit', '$'], ['min', -2]])
            ops.append(['setmember', ii, name, path, key, v])
        elif r < 0.9:
            ii = rng.randrange(len(inst_cls))
            pool = [n for n in NAMES if n in g.has_any[inst_cls[ii]]] or NAMES
            name = rng.choice(pool)
            keys = ['description', 'group'] + (['min', 'max', 'unit'] * 2 if name != ENUM_NAME else [])
            k = rng.choice(keys)
            v = rng.choice({'description': [0, 9], 'group': [0, 5], 'min': [-40, 0, 3], 'max': [0, 6, 70], 'unit': [0, 6, 7]}[k])
            ops.append(['setprop', ii, name, k, v])
        elif r < 0.95:
            ii = rng.randrange(len(inst_cls))
            name = rng.choice(g.sure_props(inst_cls[ii]))
            ops.append(['setpprop', ii, name, PBAD[name] if rng.random() < 0.2 else rng.choice(PVALS[name])])
        else:
            grow += 1
            ops.append(['grow', rng.randrange(len(inst_cls)), 1000 + grow])
    return {'ops': ops}


def exhaustive_cases(limit=None):
    """all three-class hierarchies root / two overriders / joiner over a fixed menu of bodies for attribute p,
    each followed by an instance of every module class and one mutation"""
    root = ['param', {'desc': 1, 'dt': ['float', 0, 10, 0], 'inherit': True, 'value': 1}]
    menu = [None, ['param', {'desc': 4, 'inherit': True}], ['param', {'max': 5, 'inherit': True}],
            ['param', {'unit': 2, 'inherit': True}], ['value', 3], ['none'],
            ['param', {'desc': 2, 'dt': ['float', -5, 5, 1], 'inherit': True}], ['param', {'inherit': False, 'unit': 1}]]
    out = []
    for a in menu:
        for b in menu:
            for c in menu[:6]:
                for shape in (0, 1, 2):
                    ops = [['class', {'module': True, 'bases': [], 'dict': [['p', root]]}]]
                    if shape == 0:      # chain
                        ops.append(['class', {'module': True, 'bases': [0], 'dict': [['p', a]] if a else []}])
                        ops.append(['class', {'module': True, 'bases': [1], 'dict': [['p', b]] if b else []}])
                        ops.append(['class', {'module': True, 'bases': [0], 'dict': [['p', c]] if c else []}])
                    elif shape == 1:    # diamond
                        ops.append(['class', {'module': True, 'bases': [0], 'dict': [['p', a]] if a else []}])
                        ops.append(['class', {'module': True, 'bases': [0], 'dict': [['p', b]] if b else []}])
                        ops.append(['class', {'module': True, 'bases': [1, 2], 'dict': [['p', c]] if c else []}])
                    else:               # plain mixin used twice
                        ops.append(['class', {'module': False, 'bases': [], 'dict': [['p', a]] if a else []}])
                        ops.append(['class', {'module': True, 'bases': [1, 0], 'dict': [['p', b]] if b else []}])
                        ops.append(['class', {'module': True, 'bases': [1, 0], 'dict': [['p', c]] if c else []}])
                    ops.append(['inst', 3, [['p', [['max', 9]]]]])
                    ops.append(['inst', 0, []])
                    ops.append(['setprop', 0, 'p', 'min', -40])
                    out.append({'ops': ops})
    return out[:limit] if limit else out


def nested_cases():
    """one class (optionally a subclass without body) with a main value and one container / convenience parameter with
    a $ unit, two or three instances with different main units, a change of a member datatype property of one"""
    out = []
    val = ['param', {'desc': 1, 'dt': ['float', 0, 10, 1], 'inherit': True}]
    for name in ['r', 'lim', 'tup', 'arr', 'st']:
        for unit in ('$', '$/min'):
            for sub in (False, True):
                for path in MEMBER_PATHS[name] + (MEMBER_PATHS['r_limits'] if name == 'r' else []):
                    target = 'r_limits' if (name == 'r' and path == [0]) else name
                    for key, v in (('max', 7), ('unit', 'mV')):
                        ops = [['class', {'module': True, 'bases': [], 'dict': [['value', val], [name, ['xparam', {'desc': 2, 'unit': unit}]]]}]]
                        ci = 0
                        if sub:
                            ops.append(['class', {'module': True, 'bases': [0], 'dict': []}])
                            ci = 1
                        ops += [['inst', ci, [['value', [['unit', 4]]]]], ['inst', ci, [['value', [['unit', 5]]]]],
                                ['setmember', 0, target, path, key, v], ['inst', ci, []], ['inst', 0, []]]
                        out.append({'ops': ops})
    return out


def cmd_cases():
    """fixed programs about command argument / result datatypes and the mixin state, always run first:
    (A) a command with a struct argument overridden below by a plain method / by Command(...) with other defaults,
        instances of the base class before and after;  (B) a datatype property of the argument / result of ONE
        instance changed at run time, other instances before and after;  (C) inputs registered on two instances of one
        class / of two classes, an instance created afterwards"""
    out = []
    val = ['param', {'desc': 1, 'dt': ['float', 0, 10, 1], 'inherit': True}]
    cby = ['param', {'desc': 2, 'dt': ['enum', [[0, 0]]], 'inherit': True, 'value': 0}]
    calc = ['cmd', {'desc': 1, 'sig': {'arg': ['struct', [['a', None, None], ['b', 0, 10]]], 'res': ['float', None, None]},
                    'defaults': []}]
    go = ['cmd', {'doc': 1, 'sig': {'arg': ['float', 0, 10], 'res': ['float', 0, 100]}}]
    base = ['class', {'module': True, 'bases': [], 'dict': [['value', val], ['go', go], ['calc', calc]]}]
    for defaults in DEFAULTS[1:]:
        for over in (['method', {'doc': None, 'defaults': defaults}], ['method', {'doc': 4, 'defaults': defaults}],
                     ['cmd', {'desc': 2, 'defaults': defaults}]):
            for mid in (False, True):
                ops = [base, ['inst', 0, []]]
                if mid:     # a class in between overriding without a signature
                    ops.append(['class', {'module': True, 'bases': [0], 'dict': [['calc', ['cmd', {'desc': 3, 'defaults': []}]]]}])
                ops.append(['class', {'module': True, 'bases': [len(ops) - 2], 'dict': [['calc', over], ['go', ['method', {'doc': None}]]]}])
                ops += [['inst', 0, []], ['inst', len(ops) - 2, [['calc', [['description', 7]]]]]]
                out.append({'ops': ops})
    for name, which, path in (('go', 'argument', None), ('go', 'result', None), ('calc', 'argument', 'a'),
                              ('calc', 'argument', 'b'), ('calc', 'result', None)):
        for sub in (False, True):
            ops = [base]
            ci = 0
            if sub:
                ops.append(['class', {'module': True, 'bases': [0], 'dict': [[name, ['method', {'doc': 0, 'defaults': ['b']}]]]}])
                ci = 1
            ops += [['inst', ci, []], ['inst', ci, []], ['setarg', 0, name, which, path, 'max', 5], ['inst', ci, []],
                    ['inst', 0, []], ['setarg', 3, name, which, path, 'min', 1]]
            out.append({'ops': ops})
    out0 = ['class', {'module': True, 'bases': [], 'dict': [['value', val], ['controlled_by', cby]]}]
    out1 = ['class', {'module': True, 'bases': [], 'dict': [['value', val], ['controlled_by', cby], ['go', go]]}]
    for second in (0, 1):
        for order in ([0, 1], [1, 0], [0, 0, 1], [1, 0, 1]):
            ops = [out0, out1, ['inst', 0, []], ['inst', second, []]]
            ops += [['grow', i, 1001 + k] for k, i in enumerate(order)]
            ops += [['inst', 0, []], ['grow', 2, 1009], ['inst', second, []]]
            out.append({'ops': ops})
    return out


def prop_cases():
    """fixed programs about module level properties, always run first: a Property written in a base class (with and
    without a preset value), overridden by bare values at one and at two levels, through a plain mixin (before / after the
    module class in the bases), siblings, a class without body; instances of every class before and after the later
    definitions, configured and not; setProperty at run time on one of two instances"""
    out = []
    val = ['param', {'desc': 1, 'dt': ['float', 0, 10, 1], 'inherit': True}]

    def pnew(name, default, value=None):
        lo, hi = PRANGE[name]
        return [name, ['pnew', {'lo': lo, 'hi': hi, 'default': default, 'value': value}]]

    def bare(**kw):
        return [[n, ['pbare', v]] for n, v in kw.items()]
    for preset in (None, 5):
        base = ['class', {'module': True, 'bases': [], 'dict': [['value', val], pnew('gain', 1), pnew('level', 0, preset)]}]
        amp = ['class', {'module': True, 'bases': [0], 'dict': bare(gain=10, level=1, visibility=2, slowinterval=30)}]
        other = ['class', {'module': True, 'bases': [0], 'dict': bare(gain=100, level=2)}]
        big = ['class', {'module': True, 'bases': [1], 'dict': bare(gain=999, level=5, visibility=3, slowinterval=60)}]
        empty = ['class', {'module': True, 'bases': [1], 'dict': []}]
        hidden = ['class', {'module': False, 'bases': [], 'dict': bare(gain=999, level=5, slowinterval=120)}]
        # two levels of bare values, instances of the middle class before and after
        out.append({'ops': [base, amp, other, ['inst', 1, []], ['inst', 1, [['gain', [['value', 100]]]]], big,
                            ['inst', 1, []], ['inst', 3, []], ['inst', 2, []], ['inst', 0, []], empty, ['inst', 4, []]]})
        # a plain mixin with bare values joined with a class that has bare values already
        for order in ([3, 1], [1, 3]):
            out.append({'ops': [base, amp, other, hidden, ['inst', 1, []],
                                ['class', {'module': True, 'bases': order, 'dict': []}], ['inst', 1, []], ['inst', 4, []],
                                ['class', {'module': True, 'bases': [3, 2], 'dict': bare(level=0)}], ['inst', 2, []],
                                ['inst', 5, [['slowinterval', [['value', 1]]]]]]})
        # three levels, the middle one without body; run-time setProperty on one of two instances
        out.append({'ops': [base, amp, empty, ['class', {'module': True, 'bases': [2], 'dict': bare(gain=100, visibility=1)}],
                            ['inst', 2, []], ['inst', 1, []], ['inst', 2, []], ['setpprop', 0, 'gain', 999],
                            ['setpprop', 2, 'visibility', 3], ['setpprop', 2, 'level', 11], ['inst', 2, []], ['inst', 3, []]]})
        # the Property object itself is redefined below a bare value, then overridden again
        out.append({'ops': [base, amp, ['class', {'module': True, 'bases': [1], 'dict': [pnew('gain', 10, 100)]}],
                            ['class', {'module': True, 'bases': [2], 'dict': bare(gain=1)}], ['inst', 2, []], ['inst', 1, []],
                            ['class', {'module': True, 'bases': [2], 'dict': bare(gain=999)}], ['inst', 2, []], ['inst', 3, []]]})
    # a Property object living in a plain mixin
    mix = ['class', {'module': False, 'bases': [], 'dict': [pnew('gain', 10, 100)]}]
    out.append({'ops': [mix, ['class', {'module': True, 'bases': [0], 'dict': [['value', val]]}],
                        ['class', {'module': True, 'bases': [1], 'dict': bare(gain=1)}], ['inst', 1, []],
                        ['class', {'module': True, 'bases': [1], 'dict': bare(gain=999)}],
                        ['class', {'module': True, 'bases': [2], 'dict': bare(gain=10)}], ['inst', 1, []], ['inst', 2, []]]})
    return out


# ------------------------------------------------------------------ fresh-interpreter families (harness/c09_fresh.py)
# Two kinds of state the worker processes cannot show: (arr) process wide class level state of the datatype classes
# (a later class with literally the same body must be described like the earlier one; every class / instance must be
# described as in an interpreter in which only its own chain exists), (cfg) the configuration objects themselves
# (creating a module must not change the configuration it was created from: a module created again from the same
# configuration - Server.restart() - or a second module using the same Param object gets the same values).
# case = {'ops': [], 'fresh': prog}; the Coq case is the empty program (nothing of this is in the Gallina model, the
# decision is made by the direct oracle and the two source obligations arrayof_getproperties_builds_new_dict and
# add_accessible_only_reads_cfg).
VERIF_DIR = os.path.dirname(os.path.dirname(os.path.dirname(os.path.abspath(__file__))))


def _fresh_exec(progs):
    import subprocess
    import sys
    import frappy
    repo = os.path.dirname(os.path.dirname(os.path.abspath(frappy.__file__)))
    env = dict(os.environ, PYTHONPATH=f'{VERIF_DIR}{os.pathsep}{repo}', PYTHONHASHSEED='0', PYTHONDONTWRITEBYTECODE='1')
    p = subprocess.run([sys.executable, '-m', 'harness.c09_fresh'], input=json.dumps({'runs': progs}), env=env,
                       stdout=subprocess.PIPE, stderr=subprocess.PIPE, text=True, timeout=300, cwd=VERIF_DIR)
    if p.returncode != 0:
        raise RuntimeError('c09_fresh failed: ' + p.stderr[-500:])
    return json.loads(p.stdout)


def _arr_chain(steps, ci):
    """indices (among the class steps) of the chain of class ci, base first"""
    cl = [s[1] for s in steps if s[0] == 'class']
    chain = []
    while ci is not None:
        chain.append(ci)
        ci = cl[ci].get('base')
    return chain[::-1]


def _arr_iso_prog(steps, ci, inst=None):
    cl = [s[1] for s in steps if s[0] == 'class']
    chain = _arr_chain(steps, ci)
    cmap = {c: k for k, c in enumerate(chain)}
    out = [['class', dict(cl[c], base=None if cl[c].get('base') is None else cmap[cl[c]['base']])] for c in chain]
    if inst is not None:
        out.append(['inst', cmap[ci], inst])
    return {'kind': 'arr', 'steps': out}


def _cfg_iso_prog(prog, k):
    """only module k, created once, from its own copy of the configuration"""
    name, ci, params, props = prog['mods'][k]
    pool, pmap = [], {}
    for pn, pi in params.items():
        pmap[pn] = len(pool)
        pool.append(json.loads(json.dumps(prog['pool'][pi])))
    return {'kind': 'cfg', 'classes': prog['classes'], 'pool': pool, 'mods': [[name, ci, pmap, dict(props)]],
            'rounds': 1, 'direct': prog.get('direct', False)}


def fresh_run_case(case):
    prog = case['fresh']
    progs = [prog]
    ents = []
    if prog['kind'] == 'arr':
        nc = ni = 0
        for s in prog['steps']:
            if s[0] == 'class':
                ents.append(f'c{nc}')
                progs.append(_arr_iso_prog(prog['steps'], nc))
                nc += 1
            else:
                ents.append(f'i{ni}')
                progs.append(_arr_iso_prog(prog['steps'], s[1], s[2]))
                ni += 1
    else:
        for k, m in enumerate(prog['mods']):
            ents.append(m[0])
            progs.append(_cfg_iso_prog(prog, k))
    res = _fresh_exec(progs)
    iso = {}
    blank = {'ops': [], 'deltas': [], 'own_mut': [], 'ids': [], 'xids': [], 'pids': [], 'inst_shared': [], 'iso_diff': {}}
    if 'error' in res[0]:
        # the program raised outside the recorded steps (frappy code called by the driver while describing / setting up)
        return dict(blank, fresh=res[0], fresh_iso={})
    for ent, r in zip(ents, res[1:]):
        if 'error' in r:
            iso[ent] = {'error': r['error']}
        elif prog['kind'] == 'arr':
            last = r['snaps'][-1]
            key = f'i0' if ent[0] == 'i' else f'c{len([k for k in last if k[0] == "c"]) - 1}'
            iso[ent] = last.get(key)
        else:
            iso[ent] = r['rounds'][0]['mods'].get(ent)
    return dict(blank, fresh=res[0], fresh_iso=iso)


def _fresh_names(a, b):
    if a is None or b is None or 'acc' not in a or 'acc' not in b:
        return ['*']
    da = {x['n']: x for x in a['acc']}
    db = {x['n']: x for x in b['acc']}
    names = [n for n in sorted(set(da) | set(db)) if da.get(n) != db.get(n)]
    if not names and a != b:
        names = ['*module']
    return names


ELEM_KEYS = ('min', 'max', 'unit', 'fmtstr', 'maxchars')


def _arr_expected(steps, ci, cfg=None):
    """the properties explicitly given for the elements (and the length limits) of every array parameter of class ci:
    Parameter(..., ArrayOf(elem, minlen, maxlen), key=...) in the class that introduces it, Parameter(key=...) in a
    subclass, then the configuration - the last one wins (this is what frappy documents: datatype properties given to
    the Parameter are applied to the datatype, for an array to its elements)"""
    cl = [s[1] for s in steps if s[0] == 'class']
    exp = {}
    for c in _arr_chain(steps, ci):
        for name, (kind, sp) in cl[c]['dict']:
            if kind == 'arr':
                exp[name] = {'minlen': sp.get('minlen', 0), 'maxlen': sp.get('maxlen', 16)}
                e = sp['elem']
                if e[0] in ('float', 'int'):
                    for k, v in (('min', e[1]), ('max', e[2])):
                        if v is not None:
                            exp[name][k] = v
                    if e[0] == 'float' and len(e) > 3 and e[3]:
                        exp[name]['unit'] = e[3]
                elif len(e) > 1 and e[1] is not None:
                    exp[name]['maxchars'] = e[1]
                exp[name].update({k: v for k, v in (sp.get('kw') or {}).items() if k in ELEM_KEYS + ('minlen', 'maxlen')})
            elif kind == 'scal':
                exp.pop(name, None)
            elif kind == 'over' and name in exp:
                exp[name].update({k: v for k, v in sp.items() if k in ELEM_KEYS + ('minlen', 'maxlen')})
    for name, d in (cfg or {}).items():
        if name in exp and isinstance(d, dict):
            exp[name].update({k: v for k, v in d.items() if k in ELEM_KEYS + ('minlen', 'maxlen')})
    return exp


def _arr_effective_failures(steps, ent, ci, desc, cfg, t):
    fails = []
    got = {a['n']: a['export'].get('datainfo', {}) for a in desc['acc']}
    for name, exp in _arr_expected(steps, ci, cfg).items():
        di = got.get(name) or {}
        mem = di.get('members') or {}
        bad = [k for k, v in exp.items() if (di if k in ('minlen', 'maxlen') else mem).get(k) != v]
        if bad:
            fails.append({'class': 'given-element-property-not-effective',
                          'what': f'{ent}: array parameter {name!r}: the properties {bad} given through Parameter(...) / a '
                                  f'subclass override / the configuration ({ {k: exp[k] for k in bad} }) are not in the '
                                  f'description of the elements: datainfo {di}',
                          'entity': ent, 'names': [name], 'op': t})
    return fails


def fresh_oracle(case, obs):
    prog, full, iso = case['fresh'], obs['fresh'], obs['fresh_iso']
    fails = []
    if 'error' in full:
        # never on correct code: defining the classes, building the configuration and describing classes / modules
        # (for_export, validate of probe values are guarded) do not raise
        return [{'class': 'program-raised-unexpectedly', 'what': 'the program raised outside the recorded steps: ' + full['error'],
                 'entity': '*', 'names': ['*'], 'op': 0}]
    if prog['kind'] == 'arr':
        steps = prog['steps']
        state = {}
        src = {}          # entity -> source (bodies along the chain, configuration)
        cls_of = {}
        nc = ni = 0
        cl = [s[1] for s in steps if s[0] == 'class']
        for t, (s, info, snap) in enumerate(zip(steps, full['infos'], full['snaps'])):
            if s[0] == 'class':
                new = f'c{nc}'
                cls_of[new] = nc
                src[new] = json.dumps([cl[c]['dict'] for c in _arr_chain(steps, nc)], sort_keys=True)
                nc += 1
            else:
                new = f'i{ni}'
                cls_of[new] = s[1]
                src[new] = json.dumps([src[f'c{s[1]}'], s[2]], sort_keys=True)
                ni += 1
            for ent, desc in snap.items():
                if ent in state and ent != new and state[ent] != desc:
                    fails.append({'class': ('class' if ent[0] == 'c' else 'instance') + '-changed-by-later-' + s[0],
                                  'what': f'step {t} ({s[0]} {new}) changed the description of {ent}: accessibles '
                                          f'{_fresh_names(state[ent], desc)}',
                                  'entity': ent, 'names': _fresh_names(state[ent], desc), 'op': t})
                state[ent] = desc
            if new in snap:
                fails += _arr_effective_failures(steps, new, cls_of[new], snap[new], s[2] if s[0] == 'inst' else None, t)
        final = full['snaps'][-1] if full['snaps'] else {}
        ents = sorted(final, key=lambda e: (e[0], int(e[1:])))
        for a in ents:
            for b in ents:
                if a[0] == b[0] and int(a[1:]) < int(b[1:]) and src[a] == src[b] and final[a] != final[b]:
                    fails.append({'class': 'same-source-defined-later-described-differently',
                                  'what': f'{b} was made from literally the same class bodies'
                                          f'{" and configuration" if a[0] == "i" else ""} as {a}, later in the same '
                                          f'process, but is described differently: accessibles {_fresh_names(final[a], final[b])}',
                                  'entity': b, 'names': _fresh_names(final[a], final[b]), 'op': len(steps) - 1})
        for ent in set(iso) | set(final):
            if iso.get(ent) != final.get(ent):
                fails.append({'class': ('class' if ent[0] == 'c' else 'instance') + '-depends-on-process-history',
                              'what': f'the description of {ent} differs from the one obtained in a fresh interpreter in '
                                      f'which only its own class chain (and its own configuration) exists: accessibles '
                                      f'{_fresh_names(iso.get(ent), final.get(ent))}',
                              'entity': ent, 'names': _fresh_names(iso.get(ent), final.get(ent)), 'op': len(steps) - 1})
        return fails
    # ---- cfg
    cfgs, rounds = full['cfgs'], full['rounds']
    for k in range(1, len(cfgs)):
        if cfgs[k] != cfgs[0]:
            diff = sorted(m for m in set(cfgs[0]) | set(cfgs[k]) if cfgs[0].get(m) != cfgs[k].get(m))
            fails.append({'class': 'configuration-changed-by-creating-modules',
                          'what': f'creating the modules (round {k}) changed the configuration they were created from: '
                                  f'modules {diff}: before {[cfgs[0].get(m) for m in diff]}, after {[cfgs[k].get(m) for m in diff]}',
                          'entity': diff[0] if diff else '*', 'names': diff, 'op': k})
            break
    for k in range(1, len(rounds)):
        for name in sorted(set(rounds[0]['mods']) | set(rounds[k]['mods'])):
            a, b = rounds[0]['mods'].get(name), rounds[k]['mods'].get(name)
            if a != b:
                fails.append({'class': 'module-created-again-from-same-configuration-differs',
                              'what': f'module {name} created again (round {k + 1}, as after Server.restart()) from the same '
                                      f'configuration differs from the one created first: {_fresh_names(a, b)}',
                              'entity': name, 'names': _fresh_names(a, b), 'op': k})
        if rounds[k].get('errors') != rounds[0].get('errors') or rounds[k].get('exc') != rounds[0].get('exc'):
            fails.append({'class': 'module-created-again-from-same-configuration-differs',
                          'what': f'round {k + 1}: errors {rounds[k].get("errors")} / {rounds[k].get("exc")}, first round: '
                                  f'{rounds[0].get("errors")} / {rounds[0].get("exc")}',
                          'entity': '*', 'names': ['*'], 'op': k})
    for k, rnd in enumerate(rounds):
        mods = prog['mods']
        for i, (n1, c1, p1, q1) in enumerate(mods):
            for n2, c2, p2, q2 in mods[i + 1:]:
                same = c1 == c2 and q1 == q2 and sorted(p1) == sorted(p2) and \
                    all(prog['pool'][p1[x]] == prog['pool'][p2[x]] for x in p1)
                a, b = rnd['mods'].get(n1), rnd['mods'].get(n2)
                if same and a != b:
                    fails.append({'class': 'modules-with-equal-configuration-differ',
                                  'what': f'round {k + 1}: {n1} and {n2} have the same class and the same configuration '
                                          f'(sharing Param objects: {sorted(x for x in p1 if p1[x] == p2[x])}) but differ: '
                                          f'{_fresh_names(a, b)}',
                                  'entity': n2, 'names': _fresh_names(a, b), 'op': k})
        for name, ci, params, props in mods:
            got = rnd['mods'].get(name)
            if got != iso.get(name):
                fails.append({'class': 'module-depends-on-earlier-instantiations',
                              'what': f'round {k + 1}: module {name} differs from the one created alone, in a fresh interpreter, '
                                      f'from its own copy of the configuration: {_fresh_names(iso.get(name), got)}',
                              'entity': name, 'names': _fresh_names(iso.get(name), got), 'op': k})
            if got and 'acc' in got:
                acc = {a['n']: a for a in got['acc']}
                for pn, pi in params.items():
                    for key in ('value', 'default', 'constant'):
                        want = prog['pool'][pi].get(key)
                        if want is not None and pn in acc and acc[pn].get(key) != want:
                            fails.append({'class': 'configured-value-not-applied',
                                          'what': f'round {k + 1}: module {name} was created without error from a configuration '
                                                  f'with {pn}.{key} = {want!r}, but has {pn}.{key} = {acc[pn].get(key)!r}',
                                          'entity': name, 'names': [pn], 'op': k})
    return fails


def fresh_shrink(case):
    prog = case['fresh']
    if prog['kind'] == 'arr':
        steps = prog['steps']
        for i in range(len(steps) - 1, -1, -1):
            s = steps[i]
            if s[0] == 'class':
                ci = sum(1 for x in steps[:i] if x[0] == 'class')
                used = any((x[0] == 'class' and x[1].get('base') == ci) or (x[0] == 'inst' and x[1] == ci) for x in steps[i + 1:])
                if used:
                    continue
                rest = []
                for x in steps[i + 1:]:
                    if x[0] == 'class' and x[1].get('base') is not None and x[1]['base'] > ci:
                        x = ['class', dict(x[1], base=x[1]['base'] - 1)]
                    elif x[0] == 'inst' and x[1] > ci:
                        x = ['inst', x[1] - 1, x[2]]
                    rest.append(x)
                yield {'ops': [], 'fresh': dict(prog, steps=steps[:i] + rest)}
            else:
                yield {'ops': [], 'fresh': dict(prog, steps=steps[:i] + steps[i + 1:])}
                for pn in s[2]:
                    yield {'ops': [], 'fresh': dict(prog, steps=steps[:i] + [['inst', s[1], {k: v for k, v in s[2].items() if k != pn}]]
                                                    + steps[i + 1:])}
        return
    if prog.get('rounds', 1) > 1:
        yield {'ops': [], 'fresh': dict(prog, rounds=prog['rounds'] - 1)}
    mods = prog['mods']
    for i in range(len(mods) - 1, -1, -1):
        if len(mods) > 1:
            yield {'ops': [], 'fresh': dict(prog, mods=mods[:i] + mods[i + 1:])}
        name, ci, params, props = mods[i]
        for pn in params:
            yield {'ops': [], 'fresh': dict(prog, mods=mods[:i] + [[name, ci, {k: v for k, v in params.items() if k != pn}, props]]
                                            + mods[i + 1:])}
        if props:
            yield {'ops': [], 'fresh': dict(prog, mods=mods[:i] + [[name, ci, params, {}]] + mods[i + 1:])}
    if not prog.get('direct'):
        yield {'ops': [], 'fresh': dict(prog, direct=True)}


ARR_BODIES = [
    # the class of seeded/C09-8/demo.py: element properties given through the Parameter
    [['value', ['arr', {'elem': ['float', None, None, None], 'maxlen': 16,
                        'kw': {'unit': 'K', 'min': 0, 'max': 300, 'fmtstr': '%.3f'}}]],
     ['labels', ['arr', {'elem': ['str', None], 'maxlen': 16, 'kw': {'maxchars': 8}}]]],
    # an unrelated class with an array parameter whose elements are complete already
    [['value', ['scal', {'dt': ['float', None, None, None]}]],
     ['history', ['arr', {'elem': ['float', None, None, 'V'], 'maxlen': 100}]]],
    [['value', ['arr', {'elem': ['float', -10, 10, 'mm'], 'maxlen': 4, 'kw': {'max': 5}}]]],
    [['value', ['scal', {'dt': ['float', 0, 100, 'K']}]],
     ['counts', ['arr', {'elem': ['int', 0, 1000], 'maxlen': 8, 'kw': {'max': 100}}]]],
    [['value', ['scal', {'dt': ['float', None, None, None]}]],
     ['curve', ['arr', {'elem': ['float', None, None, None], 'minlen': 1, 'maxlen': 8, 'kw': {'unit': 'V', 'min': -10}}]]],
    [['value', ['arr', {'elem': ['float', None, None, None], 'maxlen': 16}]]],
]
ARR_OVERS = {'value': [{'max': 100}, {'unit': 'mK'}, {'min': 1, 'max': 4}], 'labels': [{'maxchars': 4}],
             'history': [{'max': 7}, {'unit': 'mV'}], 'counts': [{'max': 50}, {'min': 5}], 'curve': [{'max': 3}, {'maxlen': 4}]}
ARR_CFGS = {'value': [{'max': 250, 'maxlen': 8}, {'max': 3}, {'unit': 'C'}, {'min': 1}], 'labels': [{'maxchars': 6}],
            'history': [{'max': 5}, {'min': -1, 'max': 1}], 'counts': [{'max': 20}], 'curve': [{'max': 5, 'maxlen': 2}, {'unit': 'A'}]}


def _arr_names(body):
    return [n for n, (k, _) in body if k == 'arr']


def arr_fixed_cases():
    out = []
    b0, b1 = ARR_BODIES[0], ARR_BODIES[1]
    cfg = {'value': {'max': 250, 'maxlen': 8}}
    # seeded/C09-8/demo.py: the same body twice, an unrelated class with an array in between, instances, a subclass
    out.append([['class', {'base': None, 'dict': b0}], ['inst', 0, cfg], ['class', {'base': None, 'dict': b1}],
                ['class', {'base': None, 'dict': b0}], ['inst', 2, cfg], ['inst', 0, cfg],
                ['class', {'base': 0, 'dict': [['value', ['over', {'max': 100}]]]}]])
    # the smallest ones: the same body twice; one class and a configured instance; one class and an overriding subclass
    for b in ARR_BODIES:
        out.append([['class', {'base': None, 'dict': b}], ['class', {'base': None, 'dict': b}]])
        an = _arr_names(b)[0]
        out.append([['class', {'base': None, 'dict': b}], ['inst', 0, {an: ARR_CFGS[an][0]}], ['inst', 0, {}]])
        out.append([['class', {'base': None, 'dict': b}], ['class', {'base': 0, 'dict': [[an, ['over', ARR_OVERS[an][0]]]]}],
                    ['class', {'base': None, 'dict': b}], ['class', {'base': 2, 'dict': [[an, ['over', ARR_OVERS[an][0]]]]}]])
    return [{'ops': [], 'fresh': {'kind': 'arr', 'steps': s}} for s in out]


def rand_arr_case(rng):
    steps, bodies = [], []          # bodies[i] = array parameter names of class i
    pool = rng.sample(ARR_BODIES, rng.choice([1, 2, 2, 3]))
    for _ in range(rng.randint(3, 7)):
        r = rng.random()
        if not bodies or r < 0.4:
            b = rng.choice(pool)
            steps.append(['class', {'base': None, 'dict': b}])
            bodies.append(_arr_names(b))
        elif r < 0.6:
            ci = rng.randrange(len(bodies))
            an = rng.choice(bodies[ci])
            steps.append(['class', {'base': ci, 'dict': [[an, ['over', rng.choice(ARR_OVERS[an])]]]}])
            bodies.append(bodies[ci])
        else:
            ci = rng.randrange(len(bodies))
            cfg = {}
            if rng.random() < 0.75:
                an = rng.choice(bodies[ci])
                cfg[an] = rng.choice(ARR_CFGS[an])
            steps.append(['inst', ci, cfg])
    return {'ops': [], 'fresh': {'kind': 'arr', 'steps': steps}}


CFG_CLASS = {'base': None, 'dict': [
    ['value', ['scal', {'dt': ['float', None, None, 'mm']}]],
    ['target', ['scal', {'dt': ['float', 0, 100, 'mm'], 'readonly': False, 'wr': True}]],
    ['speed', ['scal', {'dt': ['float', 0, 50, 'mm/s'], 'readonly': False, 'default': 1, 'wr': True}]],
    ['axis', ['scal', {'dt': ['int', 0, 9]}]],
    ['curve', ['arr', {'elem': ['float', None, None, None], 'maxlen': 8, 'kw': {'unit': 'V'}, 'readonly': False, 'wr': True}]]]}
CFG_SUB = {'base': 0, 'dict': [['speed', ['over', {'max': 30}]]]}
CFG_PARAMS = {
    'target': [{'default': 20, 'max': 80}, {'value': 30}, {'max': 50}, {'value': 10, 'min': 5, 'max': 60}],
    'speed': [{'value': 5, 'max': 10}, {'value': 7, 'max': 20}, {'default': 2}, {'value': 3, 'description': 'configured speed'}],
    'axis': [{'constant': 3}, {'constant': 1}, {'value': 2}, {'default': 4}],
    'curve': [{'max': 250, 'maxlen': 4}, {'unit': 'A'}, {'value': [1, 2], 'max': 50}],
}


def cfg_fixed_cases():
    out = []
    # seeded/C09-7/demo.py scenario 1: restart
    out.append({'kind': 'cfg', 'classes': [CFG_CLASS], 'pool': [{'default': 20, 'max': 80}, {'value': 5, 'max': 10}, {'constant': 3}],
                'mods': [['mot', 0, {'target': 0, 'speed': 1, 'axis': 2}, {}]], 'rounds': 2})
    # scenario 2: the same Param object used by two modules
    out.append({'kind': 'cfg', 'classes': [CFG_CLASS], 'pool': [{'value': 7, 'max': 20}, {'constant': 1}, {'constant': 1}],
                'mods': [['x', 0, {'speed': 0, 'axis': 1}, {}], ['y', 0, {'speed': 0, 'axis': 2}, {}]], 'rounds': 1})
    for direct in (False, True):
        for pn, lst in CFG_PARAMS.items():
            out.append({'kind': 'cfg', 'classes': [CFG_CLASS, CFG_SUB], 'pool': [lst[0], lst[-1]],
                        'mods': [['a', 0, {pn: 0}, {}], ['b', 1, {pn: 0}, {'visibility': 2}], ['c', 0, {pn: 1}, {}]],
                        'rounds': 2, 'direct': direct})
    return [{'ops': [], 'fresh': p} for p in out]


def rand_cfg_case(rng):
    pool, mods = [], []
    for k in range(rng.randint(1, 3)):
        params = {}
        for pn in rng.sample(sorted(CFG_PARAMS), rng.randint(1, 3)):
            shared = [i for m in mods for x, i in m[2].items() if x == pn]
            if shared and rng.random() < 0.5:
                params[pn] = rng.choice(shared)          # the very same Param object as another module
            else:
                params[pn] = len(pool)
                pool.append(rng.choice(CFG_PARAMS[pn]))
        mods.append([f'm{k}', rng.choice([0, 0, 1]), params, rng.choice([{}, {}, {'visibility': 2}])])
    return {'ops': [], 'fresh': {'kind': 'cfg', 'classes': [CFG_CLASS, CFG_SUB], 'pool': pool, 'mods': mods,
                                 'rounds': rng.choice([1, 2, 2, 3]), 'direct': rng.random() < 0.3}}


def fresh_cases(seed, tier):
    rng = random.Random(seed * 7919 + 17)
    n = {'quick': 12, 'thorough': 150, 'search': 150}[tier]
    return (arr_fixed_cases() + cfg_fixed_cases() + [rand_arr_case(rng) for _ in range(n)]
            + [rand_cfg_case(rng) for _ in range(n)])


def gen_cases(seed, tier):
    rng = random.Random(seed * 1000003 + 9)
    n = {'quick': 2000, 'thorough': 14000, 'search': 14000}[tier]
    cases = [rand_case(rng) for _ in range(n)]
    ex = exhaustive_cases()
    if tier == 'quick':
        rng2 = random.Random(seed + 99)
        ex = rng2.sample(ex, 200)
    return fresh_cases(seed, tier) + prop_cases() + cmd_cases() + nested_cases() + cases + ex


def shrink(case):
    if 'fresh' in case:
        yield from fresh_shrink(case)
        return
    ops = case['ops']
    for i in range(len(ops) - 1, -1, -1):
        op = ops[i]
        if op[0] == 'class':
            ci = sum(1 for o in ops[:i] if o[0] == 'class')
            used = any((o[0] == 'class' and ci in o[1]['bases']) or (o[0] == 'inst' and o[1] == ci) for o in ops[i + 1:])
            if used:
                # try to drop one attribute instead
                for j in range(len(op[1]['dict'])):
                    c2 = dict(op[1], dict=op[1]['dict'][:j] + op[1]['dict'][j + 1:])
                    yield {'ops': ops[:i] + [['class', c2]] + ops[i + 1:]}
                continue
            rest = []
            for o in ops[i + 1:]:
                if o[0] == 'class':
                    o = ['class', dict(o[1], bases=[b - 1 if b > ci else b for b in o[1]['bases']])]
                elif o[0] == 'inst':
                    o = ['inst', o[1] - 1 if o[1] > ci else o[1], o[2]]
                rest.append(o)
            yield {'ops': ops[:i] + rest}
        elif op[0] == 'inst':
            ii = sum(1 for o in ops[:i] if o[0] == 'inst')
            if any(o[0] in RUNTIME_OPS and o[1] == ii for o in ops[i + 1:]):
                continue
            rest = []
            for o in ops[i + 1:]:
                if o[0] in RUNTIME_OPS and o[1] > ii:
                    o = [o[0], o[1] - 1] + list(o[2:])
                rest.append(o)
            yield {'ops': ops[:i] + rest}
            if op[2]:
                yield {'ops': ops[:i] + [['inst', op[1], []]] + ops[i + 1:]}
        else:
            yield {'ops': ops[:i] + ops[i + 1:]}
