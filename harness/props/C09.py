"""C09 — isolation of module classes, instances and configurations: implementation driver, encoder, direct oracle

A case is a little program: class definitions (module classes and plain mixins, single/multiple inheritance,
overrides by Parameter(), bare value, None, inherit=False, commands overridden by plain methods), instantiations
with configuration, and run-time mutations of one instance (setProperty on a parameter, enum growth through the
real HasControlledBy.register_input).  After every op the driver records the full description of every module
class and every instance (delta encoded)."""
import hashlib
import json
import os
import random

from harness import gal

ID = 'C09'
MODEL_TARGETS = ['theories/C09/Run.vo']
PROOF_TARGETS = ['theories/C09/Properties.vo']
PROPERTIES_V = 'theories/C09/Properties.v'
IMPORTS = 'Require Import FV.Gen.C09 FV.C09.Model FV.C09.Run.'
CASE_TYPE = 'case'
CHECK = 'check_case'
SHARD_SIZE = 250
RULE = ('programs of 3..12 ops over {define class (module class or plain mixin; 0..2 bases out of the classes defined '
        'so far, only consistent MROs; per attribute value/p/q/controlled_by/cmd one of Parameter(datatype..), '
        'Parameter(overriding properties incl. datatype properties min/max/unit), inherit=False, bare value, None, '
        'Command, plain method), instantiate (class, configuration overriding parameter and datatype properties, some '
        'invalid), setProperty on one parameter of one instance, HasControlledBy.register_input on one instance}; '
        'additionally (implementation + oracle only) parameters r (+ Limit r_limits), lim (LimitsType), tup (TupleOf), arr (ArrayOf), '
        'st (StructOf with a nested TupleOf), status (StatusType) with $ units in the members, several instances of one class '
        'with different main units, configuration of member units, setProperty on a MEMBER datatype of one instance; a fixed '
        'family of 96 such programs runs first; '
        'seeded random plus exhaustive small hierarchies in thorough; after every op the description of every class '
        'and instance is recorded; non-trivial = at least two module classes and one further op; distinct = distinct '
        'op lists')
ASSUMPTIONS = [
    'every Parameter/Command object is written in exactly one class body (no `p = Base.p` re-use of one object in two class bodies)',
    'the Coq model knows flat datatypes only (FloatRange with integral bounds/values, EnumType).  Container and convenience '
    'datatypes (TupleOf, ArrayOf, StructOf, LimitsType, Limit parameters, StatusType), `$` units / applyMainUnit, Commands and '
    'the order of accessibles are generated and DECIDED BY THE DIRECT ORACLE on the implementation: description comparison '
    '(nested datainfo included) of every class and instance after every op and against the isolated replay, plus a recursive '
    'identity traversal (members / argument / result) that reports every changeable object shared between an instance and a '
    'class or another instance; the deep-copy shape of every DataType.copy override is an obligation on the source (fact '
    'datatype_copy_rebuilds)',
    'class bodies whose definition raises are outside the domain: a generated program ends before the first such definition (it happens when a bare-value override copies an inherited datatype that datatype property overrides made inconsistent)',
    'instances are modelled by value (their Parameter and datatype objects are private copies); that no object is '
    'shared between an instance and anything else is checked on the implementation (identity traversal) in every case',
]

NAMES = ['value', 'p', 'q', 'controlled_by']       # modelled parameter names, code = index
# parameters with container / convenience datatypes ($ units in the members); implementation + oracle only
EXTRA = ['r', 'lim', 'tup', 'arr', 'st', 'status']
XUNITS = ['$', '$/min', 'K', '']
ENUM_NAME = 'controlled_by'
CMD = 'cmd'
PKEYS = {'description': 0, 'group': 1, 'value': 2, 'min': 3, 'max': 4, 'unit': 5}
PROBES = [-100, -7, -3, -1, 0, 1, 2, 3, 5, 7, 10, 100]


# ------------------------------------------------------------------ string <-> code
def s_desc(k):
    if isinstance(k, str):
        return k
    return None if k is None else ('' if k == 0 else f'd{k}')


def s_group(k):
    if isinstance(k, str):
        return k
    return None if k is None else ('' if k == 0 else f'g{k}')


def s_unit(k):
    if isinstance(k, str):
        return k
    return None if k is None else ('' if k == 0 else f'u{k}')


def s_mem(k):
    return f'in{k - 1000}' if k >= 1000 else f'm{k}'


def code(s):
    """'' -> 0, 'd5' -> 5, 'in3' -> 1003, 'm2' -> 2"""
    if s is None:
        return None
    if s == '':
        return 0
    if s.startswith('in'):
        return 1000 + int(s[2:])
    return int(s[1:])


# ------------------------------------------------------------------ implementation driver
class _Log:
    handlers = []

    def __getattr__(self, name):
        return lambda *a, **k: None


class _Dispatcher:
    def announce_update(self, moduleobj, pobj):
        pass


class _Srv:
    def __init__(self):
        self.dispatcher = _Dispatcher()
        self.secnode = None


def _num(v):
    if isinstance(v, bool):
        return v
    if isinstance(v, float) and v == int(v) and abs(v) < 1e15:
        return int(v)
    return v


def _canon(v):
    from frappy.datatypes import DataType
    from frappy.lib.enum import EnumMember
    import sys
    if isinstance(v, DataType):
        return ['DT', _dtexport(v)]
    if isinstance(v, EnumMember):
        return int(v)
    if isinstance(v, float):
        if v == sys.float_info.max:
            return 'MAX'
        if v == -sys.float_info.max:
            return '-MAX'
        return _num(v)
    if isinstance(v, (list, tuple)):
        return [_canon(x) for x in v]
    if isinstance(v, dict):
        return {str(k): _canon(x) for k, x in sorted(v.items(), key=lambda kv: str(kv[0]))}
    if v is None or isinstance(v, (bool, int, str)):
        return v
    return repr(type(v).__name__)


def _dtexport(dt):
    try:
        return _canon(dt.export_datatype())
    except Exception:
        return type(dt).__name__


def _describe_acc(name, o, inst=None):
    from frappy.params import Parameter
    d = {'n': name, 'k': 'P' if isinstance(o, Parameter) else 'C',
         'pv': {k: _canon(v) for k, v in sorted(o.propertyValues.items())}}
    # effective values (what the object answers), the export name normalised the way fixExport does it lazily
    eff = {}
    for k in sorted(o.propertyDict):
        try:
            eff[k] = _canon(getattr(o, k))
        except Exception as e:
            eff[k] = type(e).__name__
    if eff.get('export') is True:
        from frappy.params import PREDEFINED_ACCESSIBLES
        eff['export'] = name if name in PREDEFINED_ACCESSIBLES else '_' + name
    d['eff'] = eff
    d['optional'] = bool(o.optional)
    if d['k'] == 'C':
        d['func'] = getattr(o.func, '__name__', None)
    try:
        d['exp'] = _canon(o.for_export())
    except Exception as e:
        d['exp'] = type(e).__name__
    if inst is not None and d['k'] == 'P':
        dt = o.datatype
        pr = []
        for x in PROBES:
            try:
                dt.validate(x)
                pr.append('ok')
            except Exception as e:
                pr.append(type(e).__name__)
        d['probe'] = pr
        d['given'] = bool(getattr(o, 'given', False))
    if os.environ.get('C09_FULL'):
        return d
    # compact form (memory): the raw values the model compares + a digest of everything the oracle compares
    full = {k: v for k, v in d.items() if k != 'pv'}
    c = {'n': name, 'k': d['k'], 'pv': {k: v for k, v in d['pv'].items() if k in ('description', 'group', 'value', 'datatype')},
         'h': hashlib.md5(json.dumps(full, sort_keys=True, default=str).encode()).hexdigest()[:16]}
    if 'given' in d:
        c['given'] = d['given']
    return c


def _describe_class(cls):
    return {'acc': [_describe_acc(n, o) for n, o in cls.accessibles.items()]}


def _describe_inst(inst):
    return {'acc': [_describe_acc(n, o, inst) for n, o in inst.accessibles.items()],
            'props': {k: _canon(v) for k, v in sorted(inst.propertyValues.items()) if k != 'implementation'}}


class _World:
    """executes ops on the real frappy code"""

    def __init__(self, tag):
        self.tag = tag
        self.classes = []       # python classes (None when the definition raised)
        self.module = []        # is module class
        self.insts = []         # module objects or None
        self.inst_cls = []
        self.pinned = []
        self.ids = {}
        self.own = []           # (class idx, name, Parameter object, original export of its own datatype)

    def reg(self, o):
        from frappy.datatypes import ValueType
        if o is None or isinstance(o, ValueType):
            return -1
        k = id(o)
        if k not in self.ids:
            self.ids[k] = len(self.ids)
            self.pinned.append(o)
        return self.ids[k]

    def mk_dt(self, spec):
        from frappy.datatypes import FloatRange, EnumType
        if spec[0] == 'float':
            kw = {}
            if spec[3]:
                kw['unit'] = s_unit(spec[3])
            return FloatRange(spec[1], spec[2], **kw)
        return EnumType(members={s_mem(n): v for n, v in spec[1]})

    def mk_xdt(self, kind, unit):
        from frappy.datatypes import FloatRange, IntRange, StringType, BoolType, TupleOf, ArrayOf, StructOf, \
            LimitsType, StatusType
        if kind == 'r':
            return FloatRange(0, 100, unit=unit)
        if kind == 'lim':
            return LimitsType(FloatRange(0, 50, unit=unit))
        if kind == 'tup':
            return TupleOf(FloatRange(unit=unit), StringType(), IntRange(0, 5))
        if kind == 'arr':
            return ArrayOf(FloatRange(-1, 1, unit=unit), 0, 4)
        if kind == 'st':
            return StructOf(a=FloatRange(unit=unit), b=TupleOf(FloatRange(0, 9, unit=unit), BoolType()))
        return StatusType('IDLE', 'BUSY', 'ERROR')

    def define(self, idx, c):
        from frappy.modules import Module
        from frappy.params import Parameter, Command, Limit
        body = {}
        created = []
        for attr, e in c['dict']:
            kind = e[0]
            if kind == 'xparam':
                s = e[1]
                kw = {}
                if s.get('group') is not None:
                    kw['group'] = s_group(s['group'])
                body[attr] = Parameter(s_desc(s.get('desc', 1)), self.mk_xdt(attr, s.get('unit', '')), **kw)
                if attr == 'r':
                    body['r_limits'] = Limit()
                continue
            if kind == 'xover':
                s = e[1]
                kw = {k: v for k, v in (('group', s_group(s.get('group'))), ('unit', s.get('unit'))) if v is not None}
                body[attr] = Parameter(s_desc(s.get('desc')), **kw)
                continue
            if kind == 'param':
                s = e[1]
                kw = {}
                for k in ('group', 'value', 'min', 'max', 'unit'):
                    if s.get(k) is not None:
                        kw[k] = {'group': s_group, 'unit': s_unit}.get(k, lambda x: x)(s[k])
                dt = self.mk_dt(s['dt']) if s.get('dt') else None
                o = Parameter(s_desc(s.get('desc')), dt, inherit=s.get('inherit', True), **kw)
                body[attr] = o
                if dt is not None:
                    created.append((attr, o))
            elif kind == 'value':
                body[attr] = e[1]
            elif kind == 'none':
                body[attr] = None
            elif kind == 'cmd':
                s = e[1]

                def f(self):
                    return None
                f.__name__ = attr
                if s.get('doc'):
                    f.__doc__ = s['doc']
                kw = {}
                if s.get('desc') is not None:
                    kw['description'] = s_desc(s['desc'])
                if s.get('group') is not None:
                    kw['group'] = s_group(s['group'])
                body[attr] = Command(inherit=s.get('inherit', True), **kw)(f)
            elif kind == 'method':
                def g(self):
                    """plain method"""
                    return None
                g.__name__ = attr
                body[attr] = g
        bases = tuple(self.classes[b] for b in c['bases'])
        if c['module'] and not any(self.module[b] for b in c['bases']):
            bases = bases + (Module,)
        cls = type(f'{self.tag}C{idx}', bases, body)
        for attr, o in created:
            self.own.append((idx, attr, o, _dtexport(o.ownProperties['datatype'])))
        return cls

    def run_op(self, op):
        """returns info dict; exceptions of the code under test are recorded"""
        kind = op[0]
        info = {'exc': None}
        try:
            if kind == 'class':
                idx = len(self.classes)
                self.classes.append(None)
                self.module.append(bool(op[1]['module']))
                cls = self.define(idx, op[1])
                self.classes[idx] = cls
                info['mro'] = [self.classes.index(b) for b in cls.__mro__ if b in self.classes]
                from frappy.params import Accessible
                # names whose entry in the class __dict__ is an accessible object (includes the ones added by setattr
                # when a bare value found in a base was turned into a Parameter)
                info['accnames'] = sorted(n for n, v in cls.__dict__.items() if isinstance(v, Accessible))
            elif kind == 'inst':
                self.insts.append(None)
                self.inst_cls.append(op[1])
                cls = self.classes[op[1]]
                cfg = {'description': 'module'}
                for name, kvs in op[2]:
                    d = {}
                    for k, v in kvs:
                        d[k] = {'description': s_desc, 'group': s_group, 'unit': s_unit}.get(k, lambda x: x)(v)
                    cfg[name] = d
                if cls is None or not self.module[op[1]]:
                    info['exc'] = 'skip'
                else:
                    self.insts[-1] = cls(f'mod{len(self.insts) - 1}', _Log(), cfg, _Srv())
            elif kind == 'setprop':
                inst = self.insts[op[1]] if op[1] < len(self.insts) else None
                if inst is None or op[2] not in inst.parameters:
                    info['exc'] = 'skip'
                else:
                    v = {'description': s_desc, 'group': s_group, 'unit': s_unit}.get(op[3], lambda x: x)(op[4])
                    inst.parameters[op[2]].setProperty(op[3], v)
            elif kind == 'setmember':
                inst = self.insts[op[1]] if op[1] < len(self.insts) else None
                if inst is None or op[2] not in inst.parameters:
                    info['exc'] = 'skip'
                else:
                    try:
                        dt = inst.parameters[op[2]].datatype
                        for sel in op[3]:
                            dt = dt.members if sel == 'm' else dt.members[sel]
                        dt.setProperty(op[4], op[5])
                    except Exception as e:
                        info['exc'] = 'skip'
                        info['why'] = f'{type(e).__name__}: {str(e)[:100]}'
            elif kind == 'grow':
                from frappy.mixins import HasControlledBy
                from frappy.datatypes import EnumType
                inst = self.insts[op[1]] if op[1] < len(self.insts) else None
                if inst is None or ENUM_NAME not in inst.parameters or \
                        not isinstance(inst.parameters[ENUM_NAME].datatype, EnumType):
                    info['exc'] = 'skip'
                else:
                    if not hasattr(inst, 'inputCallbacks'):
                        inst.inputCallbacks = ()     # class attribute of the mixin; here on the one instance only
                    HasControlledBy.register_input(inst, s_mem(op[2]), lambda *a: None)
        except Exception as e:
            info['exc'] = f'{type(e).__name__}: {str(e)[:200]}'
            if kind == 'class':
                # a class body that raises is outside the domain: the program ends before it (see _exec)
                self.classes.pop()
                self.module.pop()
                info['abort'] = True
        return info

    def snapshot(self):
        snap = {}
        for i, cls in enumerate(self.classes):
            if cls is not None and self.module[i]:
                snap[f'c{i}'] = _describe_class(cls)
        for i, inst in enumerate(self.insts):
            if inst is not None:
                snap[f'i{i}'] = _describe_inst(inst)
        return snap

    def idvector(self):
        """identity of the Parameter and datatype objects reachable from classes and instances"""
        vec = []
        for i, cls in enumerate(self.classes):
            if cls is not None and self.module[i]:
                for n in NAMES:
                    o = cls.accessibles.get(n)
                    if o is not None:
                        vec.append([f'c{i}', n, self.reg(o), self.reg(o.propertyValues.get('datatype')),
                                    self.reg((o.ownProperties or {}).get('datatype'))])
        for i, inst in enumerate(self.insts):
            if inst is not None:
                for n in NAMES:
                    o = inst.accessibles.get(n)
                    if o is not None:
                        vec.append([f'i{i}', n, self.reg(o), self.reg(o.propertyValues.get('datatype')), -1])
        return vec

    def own_mutated(self):
        return [[ci, n] for ci, n, o, orig in self.own if _dtexport(o.ownProperties.get('datatype')) != orig]

    def shared_with_instances(self):
        """objects (Parameter / Command objects and, recursively through members / argument / result, datatype
        objects) reachable from an instance AND from a class or another instance.  Only objects that can be changed in
        place are reported (accessibles, datatypes with properties: limits, unit, lengths)"""
        from frappy.datatypes import DataType, ValueType

        def reach(o, acc, path):
            if o is None or isinstance(o, ValueType) or id(o) in acc:
                return
            acc[id(o)] = (o, path)
            if isinstance(o, DataType):
                for a in ('members', 'argument', 'result', 'other', 'types'):
                    m = getattr(o, a, None) if a in getattr(o, '__dict__', {}) else None
                    if isinstance(m, DataType):
                        reach(m, acc, f'{path}.{a}')
                    elif isinstance(m, (list, tuple)):
                        for k, x in enumerate(m):
                            if isinstance(x, DataType):
                                reach(x, acc, f'{path}.{a}[{k}]')
                    elif isinstance(m, dict):
                        for k, x in m.items():
                            if isinstance(x, DataType):
                                reach(x, acc, f'{path}.{a}[{k!r}]')
            else:
                for dn, d in (('propertyValues', o.propertyValues), ('ownProperties', o.ownProperties or {})):
                    for k, v in d.items():
                        if isinstance(v, DataType):
                            reach(v, acc, f'{path}.{dn}[{k!r}]')
        sets = {}
        for i, cls in enumerate(self.classes):
            if cls is not None:
                acc = {}
                for n, v in list(cls.__dict__.items()) + list(getattr(cls, 'accessibles', {}).items()):
                    if hasattr(v, 'propertyValues') and hasattr(v, 'ownProperties'):
                        reach(v, acc, n)
                sets[('c', i)] = acc
        for i, inst in enumerate(self.insts):
            if inst is not None:
                acc = {}
                for n, v in inst.accessibles.items():
                    reach(v, acc, n)
                sets[('i', i)] = acc
        bad = []
        for a in sets:
            if a[0] != 'i':
                continue
            for b in sets:
                if b == a or (b[0] == 'i' and b[1] < a[1]):
                    continue
                for k in set(sets[a]) & set(sets[b]):
                    o, pa = sets[a][k]
                    if isinstance(o, DataType) and not o.propertyDict:
                        continue       # nothing that could be changed in place
                    bad.append([f'{a[0]}{a[1]}', f'{b[0]}{b[1]}', type(o).__name__, pa, sets[b][k][1]])
        return sorted(bad)[:12]


_counter = [0]


def _exec(case, keep_classes=None, keep_inst=None):
    """run the ops (all, or only those of one class chain / one instance) and return (world, per-op infos, deltas)"""
    _counter[0] += 1
    w = _World(f'T{_counter[0]}_')
    infos, deltas, muts = [], [], []
    prev = {}
    cmap, n_inst = {}, 0
    for t, op in enumerate(case['ops']):
        if keep_classes is not None:
            # isolated replay: only the listed classes (renumbered), only the kept instance and its own ops
            if op[0] == 'class':
                ci = sum(1 for o in case['ops'][:t] if o[0] == 'class')
                if ci not in keep_classes:
                    continue
                c = dict(op[1], bases=[cmap[b] for b in op[1]['bases']])
                cmap[ci] = len(cmap)
                op = ['class', c]
            elif op[0] == 'inst':
                ii = sum(1 for o in case['ops'][:t] if o[0] == 'inst')
                if ii != keep_inst:
                    continue
                op = ['inst', cmap[op[1]], op[2]]
            else:
                if op[1] != keep_inst:
                    continue
                op = [op[0], 0] + list(op[2:])
        info = w.run_op(op)
        if info.get('abort'):
            break
        snap = w.snapshot()
        deltas.append([[k, v] for k, v in snap.items() if prev.get(k) != v])
        prev = snap
        infos.append(info)
        muts.append(w.own_mutated())
    return w, infos, deltas, muts, prev, cmap


def run_case(case):
    w, infos, deltas, muts, final, _ = _exec(case)
    case = {'ops': case['ops'][:len(infos)]}     # truncated where a class definition raised
    obs = {'ops': infos, 'deltas': deltas, 'own_mut': muts, 'ids': w.idvector(),
           'inst_shared': w.shared_with_instances()}
    # the description of every class / instance when only its own chain (and its own ops) exist
    iso = {}
    n_cls = len(w.classes)
    mros = {}
    ci = 0
    for info, op in zip(infos, case['ops']):
        if op[0] == 'class':
            mros[ci] = info.get('mro')
            ci += 1
    for i in range(n_cls):
        if w.classes[i] is None or not w.module[i] or mros.get(i) is None:
            continue
        chain = set(mros[i])
        _, _, _, _, fin, cmap = _exec(case, keep_classes=chain, keep_inst=-1)
        iso[f'c{i}'] = fin.get(f'c{cmap[i]}')
    for k, inst in enumerate(w.insts):
        if inst is None:
            continue
        ci = w.inst_cls[k]
        chain = set(mros[ci])
        _, _, _, _, fin, cmap = _exec(case, keep_classes=chain, keep_inst=k)
        iso[f'i{k}'] = fin.get('i0')
    obs['iso_diff'] = {ent: changed_names(iso.get(ent), desc) for ent, desc in final.items()
                       if strip(iso.get(ent)) != strip(desc)}
    return obs


# ------------------------------------------------------------------ helpers on cases / observations
def class_ops(case):
    return [op[1] for op in case['ops'] if op[0] == 'class']


def mro_of(case, obs):
    res = []
    for info, op in zip(obs['ops'], case['ops']):
        if op[0] == 'class':
            res.append(info.get('mro'))
    return res


def key_chain(case, obs, ci, name):
    """indices of the classes along the MRO of class ci (base first) whose body mentions name"""
    cl = class_ops(case)
    mro = mro_of(case, obs)[ci] or []
    if name == 'r_limits':      # written together with a full definition of r
        return [b for b in reversed(mro) if any(a == 'r' and e[0] == 'xparam' for a, e in cl[b]['dict'])]
    accn = [i.get('accnames') or [] for i, op in zip(obs['ops'], case['ops']) if op[0] == 'class']
    return [b for b in reversed(mro) if any(a == name for a, _ in cl[b]['dict']) or (b < len(accn) and name in accn[b])]


def strip(desc):
    """the description the property speaks about: effective property values, exported description, validation
    behaviour, order of accessibles -- not the raw propertyValues dict (which is normalised lazily, e.g. export)"""
    if desc is None:
        return None
    return dict(desc, acc=[{k: v for k, v in a.items() if k != 'pv'} for a in desc['acc']])


def changed_names(a, b):
    """names of accessibles whose description differs between two entity descriptions (order counts as all)"""
    a, b = strip(a), strip(b)
    if a is None or b is None:
        return ['*']
    da = {x['n']: x for x in a['acc']}
    db = {x['n']: x for x in b['acc']}
    names = [n for n in sorted(set(da) | set(db)) if da.get(n) != db.get(n)]
    if not names and [x['n'] for x in a['acc']] != [x['n'] for x in b['acc']]:
        names = ['*order']
    if not names and a.get('props') != b.get('props'):
        names = ['*props']
    return names


# ------------------------------------------------------------------ direct oracle (the property on the observations)
def oracle(case, obs):
    fails = []
    state = {}
    n_cls = n_inst = 0
    for t, (op, info, delta) in enumerate(zip(case['ops'], obs['ops'], obs['deltas'])):
        kind = op[0]
        if kind == 'class':
            new = f'c{n_cls}'
            n_cls += 1
            addressed = {new}
        elif kind == 'inst':
            new = f'i{n_inst}'
            n_inst += 1
            addressed = {new}
        else:
            addressed = {f'i{op[1]}'}
        for ent, desc in delta:
            if ent in state and ent not in addressed and strip(state[ent]) != strip(desc):
                what = {'class': 'defining a class', 'inst': 'creating and configuring an instance',
                        'setprop': 'changing a property of one instance', 'grow': 'extending the enum of one instance',
                        'setmember': 'changing a property of a member datatype of one instance'}[kind]
                fails.append({'class': ('class' if ent[0] == 'c' else 'instance') + '-changed-by-' + kind,
                              'what': f'op {t} ({what}: {op[1] if kind != "class" else new}) changed the description of '
                                      f'{ent}: accessibles {changed_names(state[ent], desc)}',
                              'entity': ent, 'names': changed_names(state[ent], desc), 'op': t})
            state[ent] = desc
    # a description is a function of the own class chain and own configuration only
    # no changeable object may be reachable from an instance and from anything else: a property change (or the
    # replacement of $ by the main unit) made through one owner would change the other
    seen_pairs = set()
    for a, b, typ, pa, pb in obs['inst_shared']:
        if (a, b) in seen_pairs:
            continue
        seen_pairs.add((a, b))
        fails.append({'class': 'object-shared-between-' + ('instance-and-class' if b[0] == 'c' else 'instances'),
                      'what': f'the {typ} object at {a}:{pa} is the same object as {b}:{pb}: changing it through one of '
                              f'them changes the other',
                      'entity': a, 'names': [pa.split('.')[0]], 'op': len(obs['ops']) - 1})
    for ent, names in sorted(obs['iso_diff'].items()):
        fails.append({'class': ('class' if ent[0] == 'c' else 'instance') + '-depends-on-others',
                      'what': f'the description of {ent} differs from the one obtained when only its own class '
                              f'chain (and its own configuration/mutations) exists: accessibles {names}',
                      'entity': ent, 'names': names, 'op': len(case['ops']) - 1})
    return fails


def _class_of(case, ent):
    if ent[0] == 'c':
        return int(ent[1:])
    k = int(ent[1:])
    insts = [op for op in case['ops'] if op[0] == 'inst']
    return insts[k][1]


def _ids(obs):
    return {(e, n): (p, d, o) for e, n, p, d, o in obs['ids']}


def f_inplace_merge(case, obs, failure):
    """the changed accessible object of the class is also the accessible object of another (later defined) class whose
    chain of class bodies for that name is a different one: the shared object was re-merged in place"""
    ci = _class_of(case, failure['entity'])
    ids = _ids(obs)
    n_cls = len(class_ops(case))
    names = failure['names']
    if not names or any(n.startswith('*') for n in names):
        return False
    for n in names:
        hit = False
        cmd_or_param = n
        for other in range(n_cls):
            if other == ci:
                continue
            if key_chain(case, obs, other, cmd_or_param) == key_chain(case, obs, ci, cmd_or_param):
                continue
            if n in NAMES:
                a, b = ids.get((f'c{ci}', n)), ids.get((f'c{other}', n))
                if a is not None and b is not None and a[0] == b[0]:
                    hit = True
            else:
                # commands are not in the identity vector: same defining class body wins in both
                ka, kb = key_chain(case, obs, ci, n), key_chain(case, obs, other, n)
                if ka and kb and ka[-1] == kb[-1]:
                    hit = True
        if not hit:
            return False
    return True


def f_own_datatype(case, obs, failure):
    """a class body in the chain of the changed accessible holds a Parameter whose own datatype object
    (ownProperties['datatype']) was modified by the definition of a class overriding it by a bare value"""
    ci = _class_of(case, failure['entity'])
    names = failure['names']
    if names == ['*'] and failure['entity'][0] == 'i':
        ent = f'c{ci}'
        names = obs['iso_diff'].get(ent, [])
    if not names or any(n.startswith('*') for n in names):
        return False
    mut = {(c, n) for m in obs['own_mut'] for c, n in m}
    mro = mro_of(case, obs)[ci] or []
    cl = class_ops(case)
    mros = mro_of(case, obs)

    def entries(v, n):
        return [e for b in (mros[v] or []) for a, e in cl[b]['dict'] if a == n]

    def leak_input(b, n):
        """some class below b overrides n by a bare value while inheriting a datatype property override"""
        for v in range(len(cl)):
            if b in (mros[v] or []):
                es = entries(v, n)
                if any(e[0] == 'value' for e in es) and any(
                        e[0] == 'param' and not e[1].get('dt') and any(e[1].get(k) is not None for k in ('min', 'max', 'unit'))
                        for e in es):
                    return True
        return False
    return all(any((b, n) in mut and leak_input(b, n) for b in mro) for n in names)


def f_either(case, obs, failure):
    names = failure['names']
    if names == ['*'] and failure['entity'][0] == 'i':
        # the instance exists in only one of the two worlds: explained iff the description of its class differs
        # between them, in accessibles that a known finding covers
        ent = f'c{_class_of(case, failure["entity"])}'
        names = obs['iso_diff'].get(ent, [])
        failure = dict(failure, names=names)
    if not names or any(n.startswith('*') for n in names):
        return False
    return all(f_inplace_merge(case, obs, dict(failure, names=[n])) or f_own_datatype(case, obs, dict(failure, names=[n]))
               for n in names)


FINDING_CLASSIFIERS = {
    'inplace_merge_of_shared_accessible': lambda c, o, f: f_either(c, o, f) and not f_own_datatype(c, o, f),
    'value_override_mutates_inherited_own_datatype': lambda c, o, f: f_own_datatype(c, o, f),
}


# ------------------------------------------------------------------ encoding into Gallina
def oz(x):
    return gal.option(x, gal.z)


def enc_dtspec(spec):
    if spec is None:
        return 'None'
    if spec[0] == 'float':
        return '(Some (mkdt 1%%nat %s %s %s []))' % (oz(spec[1]), oz(spec[2]), gal.z(spec[3] or 0))
    return '(Some (mkdt 2%%nat None None (0)%%Z %s))' % gal.lst(spec[1], lambda p: gal.pair(p, gal.z, gal.z))


def enc_entry(e):
    if e[0] == 'param':
        s = e[1]
        return ('(EParam {| s_desc := %s; s_dt := %s; s_inherit := %s; s_group := %s; s_value := %s; '
                's_min := %s; s_max := %s; s_unit := %s |})' % (
                    oz(s.get('desc')), enc_dtspec(s.get('dt')), gal.boolean(s.get('inherit', True)), oz(s.get('group')),
                    oz(s.get('value')), oz(s.get('min')), oz(s.get('max')), oz(s.get('unit'))))
    if e[0] == 'value':
        return f'(EValue {gal.z(e[1])})'
    return 'ENone'


def model_acc(a):
    """model level description of one accessible of the full description"""
    pv = a['pv']
    dt = pv.get('datatype')
    kind, mn, mx, unit, mem = 0, None, None, 0, []
    if dt is not None and isinstance(dt[1], dict):
        info = dt[1]
        if info.get('type') == 'double':
            kind = 1
            mn, mx = info.get('min'), info.get('max')
            unit = code(info.get('unit', ''))
        elif info.get('type') == 'enum':
            kind = 2
            mem = sorted(([code(k), v] for k, v in info['members'].items()), key=lambda p: p[1])
        else:
            kind = 9
    return '(%s, {| a_desc := %s; a_group := %s; a_value := %s; a_dt := mkdt %s %s %s %s %s |})' % (
        gal.nat(NAMES.index(a['n'])), oz(code(pv.get('description'))), oz(code(pv.get('group'))),
        oz(pv.get('value') if a.get('given', True) else None), gal.nat(kind), oz(mn), oz(mx), gal.z(unit),
        gal.lst(mem, lambda p: gal.pair(p, gal.z, gal.z)))


def model_desc(desc):
    accs = sorted((a for a in desc['acc'] if a['k'] == 'P' and a['n'] in NAMES), key=lambda a: NAMES.index(a['n']))
    return gal.lst(accs, model_acc)


def enc_ent(ent):
    return ('(EClass %s)' if ent[0] == 'c' else '(EInst %s)') % gal.nat(int(ent[1:]))


def enc_op(op, info):
    k = op[0]
    if k == 'class':
        c = op[1]
        d = [(a, e) for a, e in c['dict'] if a in NAMES and e[0] in ('param', 'value', 'none')]
        if info.get('mro') is None:
            raise ValueError('class definition raised: %s' % info['exc'])
        return '(ODefine {| d_module := %s; d_mro := %s; d_dict := %s |})' % (
            gal.boolean(c['module']), gal.lst(info['mro'], gal.nat),
            gal.lst(d, lambda p: f'({gal.nat(NAMES.index(p[0]))}, {enc_entry(p[1])})'))
    if k == 'setmember':
        return '(OSetProp %s 99%%nat 0%%nat (0)%%Z)' % gal.nat(op[1])     # not modelled: no effect on the modelled part
    if k == 'inst':
        cfg = [(n, kvs) for n, kvs in op[2] if n in NAMES]
        return '(OInst %s %s)' % (gal.nat(op[1]), gal.lst(cfg, lambda p: '(%s, %s)' % (
            gal.nat(NAMES.index(p[0]) if p[0] in NAMES else 99),
            gal.lst(p[1], lambda kv: f'({gal.nat(PKEYS[kv[0]])}, {gal.z(kv[1])})'))))
    if k == 'setprop':
        return '(OSetProp %s %s %s %s)' % (gal.nat(op[1]), gal.nat(NAMES.index(op[2])), gal.nat(PKEYS[op[3]]), gal.z(op[4]))
    return '(OGrow %s %s)' % (gal.nat(op[1]), gal.z(op[2]))


def canon_ids(vec):
    m = {}
    out = []
    for e, n, *xs in vec:
        for x in xs:
            if x < 0:
                out.append(0)
            else:
                out.append(m.setdefault(x, len(m) + 1))
    return out


def encode(case, obs):
    ops, dl, oks = [], [], []
    for op, info, delta in zip(case['ops'], obs['ops'], obs['deltas']):
        if info['exc'] and op[0] in ('setprop', 'grow', 'setmember') and info['exc'] != 'skip':
            raise ValueError('run-time op raised: ' + info['exc'])
        ops.append(enc_op(op, info))
        oks.append(gal.boolean(info['exc'] is None))
        dl.append(gal.lst(delta, lambda p: f'({enc_ent(p[0])}, {model_desc(p[1])})'))
    return '{| c_ops := [%s]; c_ok := [%s]; c_deltas := [%s]; c_ids := %s |}' % (
        '; '.join(ops), '; '.join(oks), '; '.join(dl), gal.lst(canon_ids(obs['ids']), gal.nat))


def model_result_term(case, obs):
    return f'model_result ({encode(case, obs)})'


# ------------------------------------------------------------------ evidence helpers
def nontrivial_key(case, obs):
    n_mod = sum(1 for c in class_ops(case) if c['module'])
    if n_mod < 2 or len(case['ops']) < 3:
        return None
    return repr(case['ops'])


def outcome_labels(case, obs):
    labs = set()
    for op, info in zip(case['ops'], obs['ops']):
        if op[0] == 'class':
            c = op[1]
            labs.add('mixin' if not c['module'] else ('multi-inheritance' if len(c['bases']) > 1 else 'class'))
            for a, e in c['dict']:
                labs.add('entry-' + e[0] + ('-noinherit' if e[0] in ('param', 'cmd') and not e[1].get('inherit', True) else ''))
        else:
            labs.add(op[0] + ('' if info['exc'] is None else ('-skipped' if info['exc'] == 'skip' else '-rejected')))
    if any(obs['own_mut']):
        labs.add('own-datatype-mutated')
    for f in oracle(case, obs):
        labs.add('oracle:' + f['class'])
    return sorted(labs)


def sample_repr(case, obs):
    return {'ops': case['ops'], 'results': [i['exc'] for i in obs['ops']],
            'changed_entities_per_op': [[e for e, _ in d] for d in obs['deltas']]}


def extra_evidence(cases, obs):
    shared = sum(1 for o in obs if '__harness_error__' not in o and o['inst_shared'])
    return {'cases_with_objects_shared_between_an_instance_and_anything_else': shared}


# ------------------------------------------------------------------ generators
def _mro_ok(bases_of, module):
    """build dummy classes to let python decide whether the hierarchy has a consistent MRO"""
    dummies = []
    root = type('Root', (), {})
    try:
        for bs, m in zip(bases_of, module):
            b = tuple(dummies[i] for i in bs)
            if m and not any(module[i] for i in bs):
                b = b + (root,)
            dummies.append(type('D', b, {}))
    except TypeError:
        return False
    return True


def rand_dt(rng, name):
    if name == ENUM_NAME:
        mem = [[0, 0]] + [[k, k] for k in sorted(rng.sample([1, 2, 3, 4], rng.randint(0, 2)))]
        return ['enum', mem]
    lo = rng.choice([None, -10, -5, 0, 1])
    hi = rng.choice([None, 3, 5, 10, 20])
    return ['float', lo, hi, rng.choice([0, 0, 1, 2])]


def rand_entry(rng, name, with_dt):
    if name == CMD:
        r = rng.random()
        if with_dt or r < 0.4:
            return ['cmd', {'desc': rng.choice([1, 2, 3]), 'group': rng.choice([None, None, 1]),
                            'doc': rng.choice([None, 'doc a', 'doc b'])}]
        return ['method'] if r < 0.8 else ['none']
    r = rng.random()
    if with_dt or r < 0.2:
        s = {'desc': rng.choice([1, 2, 3, None]) if not with_dt else rng.choice([1, 2, 3]),
             'dt': rand_dt(rng, name), 'inherit': rng.random() > 0.1}
        if rng.random() < 0.3:
            s['group'] = rng.choice([0, 1, 2])
        if rng.random() < 0.3:
            s['value'] = 0 if name == ENUM_NAME else rng.choice([0, 1, 2, 4, 7])
        return ['param', s]
    if r < 0.62:
        s = {'inherit': rng.random() > 0.1}
        if rng.random() < 0.4:
            s['desc'] = rng.choice([0, 4, 5, 6])
        if rng.random() < 0.3:
            s['group'] = rng.choice([0, 1, 2, 3])
        if rng.random() < 0.25:
            s['value'] = rng.choice([0, 1, 2, 4, 7])
        if name != ENUM_NAME:
            for k, vals in (('min', [-20, -5, 0, 2]), ('max', [1, 4, 8, 50]), ('unit', [0, 1, 2, 3])):
                if rng.random() < 0.35:
                    s[k] = rng.choice(vals)
        return ['param', s]
    if r < 0.88:
        return ['value', 0 if name == ENUM_NAME else rng.choice([0, 1, 2, 3, 6])]
    return ['none']


class _Gen:
    """tracks, per generated class, which names have a datatype somewhere in the ancestor closure"""

    def __init__(self, rng):
        self.rng = rng
        self.module, self.bases, self.has_dt, self.has_any = [], [], [], []
        self.x_def, self.x_none = [], []      # extra names fully defined / removed somewhere in the ancestor closure

    def new_class(self):
        rng = self.rng
        n_prev = len(self.module)
        for _ in range(20):
            module = rng.random() < 0.75
            cands = [i for i in range(n_prev) if module or not self.module[i]]
            k = min(len(cands), rng.choice([0, 1, 1, 1, 2, 2]))
            bases = rng.sample(cands, k) if k else []
            if _mro_ok(self.bases + [bases], self.module + [module]):
                break
        else:
            module, bases = True, []
        dt = set().union(*[self.has_dt[b] for b in bases]) if bases else set()
        anyn = set().union(*[self.has_any[b] for b in bases]) if bases else set()
        d = []
        for name in NAMES + [CMD]:
            known = name in dt
            if module:
                p = 0.45 if known else 0.5
            else:
                p = 0.4
            if rng.random() < p:
                if module:
                    with_dt = (not known) and rng.random() < 0.93
                else:
                    with_dt = (not known) and rng.random() < 0.3
                e = rand_entry(rng, name, with_dt)
                d.append([name, e])
                anyn.add(name)
                if e[0] == 'cmd' or (e[0] == 'param' and e[1].get('dt')):
                    dt = dt | {name}
        xd = set().union(*[self.x_def[b] for b in bases]) if bases else set()
        xn = set().union(*[self.x_none[b] for b in bases]) if bases else set()
        for name in EXTRA:
            if rng.random() >= (0.22 if module else 0.15):
                continue
            r = rng.random()
            if name not in xd or r < 0.2:
                d.append([name, ['xparam', {'desc': rng.choice([1, 2, 3]), 'unit': rng.choice(XUNITS),
                                            'group': rng.choice([None, None, 1])}]])
                xd = xd | {name}
            elif r < 0.8 or name == 'r':
                o = {}
                if rng.random() < 0.6:
                    o['desc'] = rng.choice([4, 5])
                if rng.random() < 0.4:
                    o['group'] = rng.choice([0, 2])
                if name in ('r', 'arr') and rng.random() < 0.5:
                    o['unit'] = rng.choice(XUNITS)
                d.append([name, ['xover', o]])
            else:
                d.append([name, ['none']])
                xn = xn | {name}
        self.module.append(module)
        self.bases.append(bases)
        self.has_dt.append(dt)
        self.has_any.append(anyn)
        self.x_def.append(xd)
        self.x_none.append(xn)
        return {'module': module, 'bases': bases, 'dict': d}

    def sure_extras(self, ci):
        return sorted(self.x_def[ci] - self.x_none[ci])


MEMBER_PATHS = {'r': [[]], 'r_limits': [[0]], 'lim': [[0], [1]], 'tup': [[0]], 'arr': [['m']], 'st': [['a'], ['b', 0]]}


def rand_xcfg(rng, extras):
    cfg = []
    for name in extras:
        if rng.random() < 0.3:
            if name in ('r', 'arr') and rng.random() < 0.6:
                cfg.append([name, [['unit', rng.choice(XUNITS + ['m$'])]]])
            else:
                cfg.append([name, [rng.choice([['description', 'x7'], ['group', 'xg']])]])
    return cfg


def rand_cfg(rng, names):
    cfg = rand_cfg0(rng, names)
    if 'value' in names and rng.random() < 0.35 and not any(n == 'value' for n, _ in cfg):
        cfg.append(['value', [['unit', rng.choice([4, 5, 6])]]])      # instances with different main units
    return cfg


def rand_cfg0(rng, names):
    cfg = []
    pool = [n for n in NAMES if n in names] or NAMES
    if rng.random() < 0.08:
        pool = NAMES
    for name in rng.sample(pool, min(len(pool), rng.choice([0, 1, 1, 2]))):
        kvs = []
        keys = ['description', 'group', 'value'] + (['min', 'max', 'unit'] * 2 if name != ENUM_NAME or rng.random() < 0.1 else [])
        for k in dict.fromkeys(rng.choice(keys) for _ in range(rng.randint(1, 3))):
            v = {'description': [0, 7, 8], 'group': [0, 4], 'value': [0, 1, 3, 9] if name != ENUM_NAME else [0, 0, 1, 2],
                 'min': [-30, -1, 0, 6], 'max': [2, 9, 60], 'unit': [0, 4, 5]}[k]
            kvs.append([k, rng.choice(v)])
        cfg.append([name, kvs])
    return cfg


def rand_case(rng, nops=None):
    nops = nops or rng.randint(3, 12)
    ops = []
    g = _Gen(rng)
    inst_cls = []
    grow = 0
    for t in range(nops):
        n_cls = len(g.module)
        r = rng.random()
        mods = [i for i in range(n_cls) if g.module[i]]
        if n_cls < 2 or r < 0.45 or not mods:
            ops.append(['class', g.new_class()])
        elif r < 0.66 or not inst_cls:
            ci = rng.choice(inst_cls) if inst_cls and rng.random() < 0.45 else rng.choice(mods)
            ops.append(['inst', ci, rand_cfg(rng, g.has_any[ci]) + rand_xcfg(rng, g.sure_extras(ci))])
            inst_cls.append(ci)
        elif r < 0.74 and any(g.sure_extras(c) for c in inst_cls):
            ii = rng.choice([k for k, c in enumerate(inst_cls) if g.sure_extras(c)])
            name = rng.choice(g.sure_extras(inst_cls[ii]))
            if name == 'r' and rng.random() < 0.4:
                name = 'r_limits'
            path = rng.choice(MEMBER_PATHS.get(name, [[0]]))
            key, v = rng.choice([['max', 7], ['max', 33], ['unit', 'mV'], ['unit', '$'], ['min', -2]])
            ops.append(['setmember', ii, name, path, key, v])
        elif r < 0.9:
            ii = rng.randrange(len(inst_cls))
            pool = [n for n in NAMES if n in g.has_any[inst_cls[ii]]] or NAMES
            name = rng.choice(pool)
            keys = ['description', 'group'] + (['min', 'max', 'unit'] * 2 if name != ENUM_NAME else [])
            k = rng.choice(keys)
            v = rng.choice({'description': [0, 9], 'group': [0, 5], 'min': [-40, 0, 3], 'max': [0, 6, 70], 'unit': [0, 6, 7]}[k])
            ops.append(['setprop', ii, name, k, v])
        else:
            grow += 1
            ops.append(['grow', rng.randrange(len(inst_cls)), 1000 + grow])
    return {'ops': ops}


def exhaustive_cases(limit=None):
    """all three-class hierarchies root / two overriders / joiner over a fixed menu of bodies for attribute p,
    each followed by an instance of every module class and one mutation"""
    root = ['param', {'desc': 1, 'dt': ['float', 0, 10, 0], 'inherit': True, 'value': 1}]
    menu = [None, ['param', {'desc': 4, 'inherit': True}], ['param', {'max': 5, 'inherit': True}],
            ['param', {'unit': 2, 'inherit': True}], ['value', 3], ['none'],
            ['param', {'desc': 2, 'dt': ['float', -5, 5, 1], 'inherit': True}], ['param', {'inherit': False, 'unit': 1}]]
    out = []
    for a in menu:
        for b in menu:
            for c in menu[:6]:
                for shape in (0, 1, 2):
                    ops = [['class', {'module': True, 'bases': [], 'dict': [['p', root]]}]]
                    if shape == 0:      # chain
                        ops.append(['class', {'module': True, 'bases': [0], 'dict': [['p', a]] if a else []}])
                        ops.append(['class', {'module': True, 'bases': [1], 'dict': [['p', b]] if b else []}])
                        ops.append(['class', {'module': True, 'bases': [0], 'dict': [['p', c]] if c else []}])
                    elif shape == 1:    # diamond
                        ops.append(['class', {'module': True, 'bases': [0], 'dict': [['p', a]] if a else []}])
                        ops.append(['class', {'module': True, 'bases': [0], 'dict': [['p', b]] if b else []}])
                        ops.append(['class', {'module': True, 'bases': [1, 2], 'dict': [['p', c]] if c else []}])
                    else:               # plain mixin used twice
                        ops.append(['class', {'module': False, 'bases': [], 'dict': [['p', a]] if a else []}])
                        ops.append(['class', {'module': True, 'bases': [1, 0], 'dict': [['p', b]] if b else []}])
                        ops.append(['class', {'module': True, 'bases': [1, 0], 'dict': [['p', c]] if c else []}])
                    ops.append(['inst', 3, [['p', [['max', 9]]]]])
                    ops.append(['inst', 0, []])
                    ops.append(['setprop', 0, 'p', 'min', -40])
                    out.append({'ops': ops})
    return out[:limit] if limit else out


def nested_cases():
    """one class (optionally a subclass without body) with a main value and one container / convenience parameter with
    a $ unit, two or three instances with different main units, a change of a member datatype property of one"""
    out = []
    val = ['param', {'desc': 1, 'dt': ['float', 0, 10, 1], 'inherit': True}]
    for name in ['r', 'lim', 'tup', 'arr', 'st']:
        for unit in ('$', '$/min'):
            for sub in (False, True):
                for path in MEMBER_PATHS[name] + (MEMBER_PATHS['r_limits'] if name == 'r' else []):
                    target = 'r_limits' if (name == 'r' and path == [0]) else name
                    for key, v in (('max', 7), ('unit', 'mV')):
                        ops = [['class', {'module': True, 'bases': [], 'dict': [['value', val], [name, ['xparam', {'desc': 2, 'unit': unit}]]]}]]
                        ci = 0
                        if sub:
                            ops.append(['class', {'module': True, 'bases': [0], 'dict': []}])
                            ci = 1
                        ops += [['inst', ci, [['value', [['unit', 4]]]]], ['inst', ci, [['value', [['unit', 5]]]]],
                                ['setmember', 0, target, path, key, v], ['inst', ci, []], ['inst', 0, []]]
                        out.append({'ops': ops})
    return out


def gen_cases(seed, tier):
    rng = random.Random(seed * 1000003 + 9)
    n = {'quick': 3000, 'thorough': 24000, 'search': 24000}[tier]
    cases = [rand_case(rng) for _ in range(n)]
    ex = exhaustive_cases()
    if tier == 'quick':
        rng2 = random.Random(seed + 99)
        ex = rng2.sample(ex, 300)
    return nested_cases() + cases + ex


def shrink(case):
    ops = case['ops']
    for i in range(len(ops) - 1, -1, -1):
        op = ops[i]
        if op[0] == 'class':
            ci = sum(1 for o in ops[:i] if o[0] == 'class')
            used = any((o[0] == 'class' and ci in o[1]['bases']) or (o[0] == 'inst' and o[1] == ci) for o in ops[i + 1:])
            if used:
                # try to drop one attribute instead
                for j in range(len(op[1]['dict'])):
                    c2 = dict(op[1], dict=op[1]['dict'][:j] + op[1]['dict'][j + 1:])
                    yield {'ops': ops[:i] + [['class', c2]] + ops[i + 1:]}
                continue
            rest = []
            for o in ops[i + 1:]:
                if o[0] == 'class':
                    o = ['class', dict(o[1], bases=[b - 1 if b > ci else b for b in o[1]['bases']])]
                elif o[0] == 'inst':
                    o = ['inst', o[1] - 1 if o[1] > ci else o[1], o[2]]
                rest.append(o)
            yield {'ops': ops[:i] + rest}
        elif op[0] == 'inst':
            ii = sum(1 for o in ops[:i] if o[0] == 'inst')
            if any(o[0] in ('setprop', 'grow', 'setmember') and o[1] == ii for o in ops[i + 1:]):
                continue
            rest = []
            for o in ops[i + 1:]:
                if o[0] in ('setprop', 'grow', 'setmember') and o[1] > ii:
                    o = [o[0], o[1] - 1] + list(o[2:])
                rest.append(o)
            yield {'ops': ops[:i] + rest}
            if op[2]:
                yield {'ops': ops[:i] + [['inst', op[1], []]] + ops[i + 1:]}
        else:
            yield {'ops': ops[:i] + ops[i + 1:]}
