"""C02 — valid values survive the wire encoding and the text encoding: implementation driver, encoder,
specification-side oracle, generators"""
import math
import random
import re

from harness import dtgen as G
from harness import gal

ID = 'C02'
COQ_DIRS = ['C01']
MODEL_TARGETS = ['theories/C02/Run.vo']
PROOF_TARGETS = ['theories/C02/Properties.vo']
PROPERTIES_V = 'theories/C02/Properties.v'
IMPORTS = 'Require Import FV.Base.F64 FV.Base.PyVal FV.C01.Model FV.C02.Model FV.C02.Run.'
CASE_TYPE = 'case'
CHECK = 'check_case'
SHARD_SIZE = 150
RULE = ('datatype trees (depth<=2 quick, <=3 thorough; limits from boundary catalogues; scaled grids near and far from '
        'zero; enums; optional struct members; 1-tuples) x values drawn from the specification-side value set of the type '
        '(limits, catalogue values, every enum member, empty/maximal containers, strings with quotes/backslashes/newlines/'
        'non-ASCII, blobs over all byte values, structs with and without optional members) x exporting side (node as in '
        'an update, client as in setParameter).  Per case: export_value -> json.dumps -> strict json.loads -> '
        'import_value+validate on the node type and import_value on get_datatype(json(export_datatype())); '
        'to_string -> from_string -> to_string; str(CacheItem) -> SecopClient.setParameterFromString -> json -> node. '
        'non-trivial = distinct (type, value, side) whose type is not a bare bool')
ASSUMPTIONS = [
    'python float = IEEE-754 binary64 round-to-nearest-even (Flocq BinarySingleNaN 53 1024)',
    'json.loads(json.dumps(x)) == x for the exported forms (checked on every case: field c_j2)',
    'b64encode, "%g" % x, repr and ast.literal_eval of atoms are CPython behaviour, tabulated per case; '
    'ast.literal_eval of a composed text is modelled on the literal syntax tree (a parenthesised single expression is '
    'not a tuple), the tree is rendered and compared with the real text character by character',
    'b64encode(b) is RFC 4648 text and b64decode(b64encode(b), validate=True) == b for the blobs inside the value '
    '(theorem hypotheses b64_text_law C and b64_ok E C d v - per value, a law over all byte strings cannot be met by a '
    'finite table; exercised on every case: is_b64_text of the tabulated encoding in check_case, node import of it)',
    'fmtstr is the default "%g"; unit is empty; generalConfig.lazy_number_validation = False',
    'enum member names carry no leading/trailing white space',
    'setParameterFromString is run on a real SecopClient object whose connect/request are recording stubs; the node '
    'side of it is import_value+validate of the json round trip of the data handed to request(); its outcome is not '
    'judged when the number denoted by a (six digit) float text lies outside the limits of the node type',
]

BAD = ('RangeError', 'WrongTypeError')
UNLIMITED = 1 << 64


# ------------------------------------------------------------------ implementation driver
def _exc_name(e):
    from frappy.errors import RangeError, WrongTypeError
    if isinstance(e, RangeError):
        return 'RangeError'
    if isinstance(e, WrongTypeError):
        return 'WrongTypeError'
    return type(e).__name__


def _try(fn):
    try:
        return ['ok', fn()]
    except Exception as e:  # the code under test may raise anything: recorded as data
        return ['err', _exc_name(e)]


def _tagres(r):
    return ['ok', G.tag(r[1])] if r[0] == 'ok' else r


def _strict_loads(text):
    import json

    def bad(c):
        raise ValueError(c)
    return json.loads(text, parse_constant=bad)


def _client_stub(cdt_info):
    """a real SecopClient whose connection is replaced by a recorder"""
    from frappy.client import SecopClient
    c = SecopClient.__new__(SecopClient)
    c.descriptive_data = {}
    sent = []
    c.connect = lambda *a, **k: None
    c.request = lambda action, ident=None, data=None: sent.append((action, ident, data))
    c.cache = {('m', 'p'): None}
    c._init_descriptive_data({'modules': {'m': {'accessibles': {'p': {'datainfo': cdt_info}}}}})
    return c, sent


def _atoms(t, acc):
    """atoms of a tagged value whose text / base64 the model needs"""
    k = t[0]
    if k in ('float', 'int', 'bool', 'str', 'bytes'):
        acc.append(t)
    elif k == 'enum':
        acc.append(['str', t[1]])
    elif k in ('list', 'tuple'):
        for x in t[1]:
            _atoms(x, acc)
    elif k == 'dict':
        for kk, x in t[1]:
            acc.append(['str', kk])
            _atoms(x, acc)
    return acc


def _tables(tagged_values):
    import ast
    from base64 import b64encode
    atoms = []
    for t in tagged_values:
        _atoms(t, atoms)
    seen = set()
    b64, fmt, rep, lit = [], [], [], {}
    for a in atoms:
        key = repr(a)
        if key in seen:
            continue
        seen.add(key)
        v = G.untag(a)
        if a[0] == 'float':
            text = '%g' % v
            fmt.append([a[1], G.cps(text)])
        elif a[0] == 'int':
            text = f'{v}'
            rep.append([a, G.cps(text)])
        else:
            text = repr(v)
            rep.append([a, G.cps(text)])
        if a[0] == 'bytes':
            b64.append([a[1], G.cps(b64encode(v).decode('ascii'))])
        try:
            lit[text] = G.tag(ast.literal_eval(text))
        except Exception:
            pass
    return {'b64': b64, 'fmt': fmt, 'repr': rep, 'lit': [[G.cps(k), v] for k, v in lit.items()]}


def run_case(case):
    import json
    from frappy.datatypes import get_datatype
    from frappy.client import CacheItem
    d = case['d']
    dt = G.build(d)
    info = None
    try:
        info = json.loads(json.dumps(dt.export_datatype()))
        cdt = get_datatype(info)
    except Exception:
        cdt = None
    side = case['side']
    dx = cdt if side == 'client' and cdt is not None else dt
    v = G.internalise(dx, d, G.untag(case['v']))
    obs = {'gd': G.gal_dtype(d, dt), 'gdc': G.gal_dtype(d, cdt) if cdt is not None else None, 'v': G.tag(v),
           'j2': None, 'json_text': None, 'strict': None, 'wire': None, 'cimp': None, 'back': None, 'text2': None,
           'set': None, 'set_text': None, 'sent': None, 'denoted': None}
    values = [obs['v']]
    envvals = []
    exp = _try(lambda: dx.export_value(v))
    obs['exp'] = _tagres(exp)
    j2 = None
    if exp[0] == 'ok':
        values.append(obs['exp'][1])
        try:
            text = json.dumps(exp[1])
            obs['json_text'] = text
            j2 = json.loads(text)
            obs['j2'] = G.tag(j2)
            envvals.append(obs['j2'])
            try:
                _strict_loads(text)
                obs['strict'] = True
            except ValueError:
                obs['strict'] = False
        except Exception as e:
            obs['json_text'] = 'json.dumps raised ' + type(e).__name__
    iv = None
    if obs['j2'] is not None:
        obs['wire'] = _tagres(_try(lambda: dt.validate(dt.import_value(j2))))
        if cdt is not None:
            r = _try(lambda: cdt.import_value(j2))
            obs['cimp'] = _tagres(r)
            if r[0] == 'ok':
                iv = r[1]
                values.append(obs['cimp'][1])
        if obs['wire'][0] == 'ok':
            values.append(obs['wire'][1])
    # text forms on the exporting type
    t1 = _try(lambda: dx.to_string(v))
    obs['text'] = ['ok', G.cps(t1[1])] if t1[0] == 'ok' and isinstance(t1[1], str) else \
        (['err', 'NotAString'] if t1[0] == 'ok' else t1)
    if obs['text'][0] == 'ok':
        b = _try(lambda: dx.from_string(t1[1]))
        obs['back'] = _tagres(b)
        if b[0] == 'ok':
            values.append(obs['back'][1])
            t2 = _try(lambda: dx.to_string(b[1]))
            obs['text2'] = ['ok', G.cps(t2[1])] if t2[0] == 'ok' and isinstance(t2[1], str) else \
                (['err', 'NotAString'] if t2[0] == 'ok' else t2)
    # str(CacheItem) -> setParameterFromString -> node
    if iv is not None and cdt is not None:
        client, sent = _client_stub(info)
        pdt = client.modules['m']['parameters']['p']['datatype']
        item = CacheItem(iv, 0.0, None, pdt)
        s = _try(lambda: str(item))
        if s[0] == 'ok':
            obs['item_text'] = G.cps(s[1])
            try:                                     # what the text denotes for python (used by the oracle only)
                import ast
                import warnings
                with warnings.catch_warnings():
                    warnings.simplefilter('ignore')
                    obs['denoted'] = G.tag(ast.literal_eval(s[1]))
            except Exception:
                pass
            r = _try(lambda: client.setParameterFromString('m', 'p', s[1]))
            if r[0] == 'err':
                obs['set'] = r
            elif len(sent) != 1:
                obs['set'] = ['err', 'NothingSent']
            else:
                data = sent[0][2]
                try:
                    obs['sent'] = G.tag(data)
                    values.append(obs['sent'])
                except Exception:
                    pass
                jt = _try(lambda: json.loads(json.dumps(data)))
                if jt[0] == 'err':
                    obs['set'] = jt
                else:
                    envvals.append(G.tag(jt[1]))
                    r2 = _try(lambda: dt.validate(dt.import_value(jt[1])))
                    obs['set'] = _tagres(r2)
                    if r2[0] == 'ok':
                        values.append(obs['set'][1])
                        st = _try(lambda: dt.to_string(r2[1]))
                        obs['set_text'] = G.cps(st[1]) if st[0] == 'ok' and isinstance(st[1], str) else None
    obs['env'] = G.pyenv_for(envvals)
    obs['tab'] = _tables(values)
    return obs


EXC = {'RangeError': 'ERange', 'WrongTypeError': 'EWrongType', 'TypeError': 'EType', 'ValueError': 'EValue',
       'OverflowError': 'EOverflow', 'KeyError': 'EKey', 'AttributeError': 'EAttr', 'ZeroDivisionError': 'EZeroDiv'}


def enc_res(r, enc=G.gal_val):
    if r[0] == 'ok':
        return f'(Ok {enc(r[1])})'
    return f'(Err {EXC.get(r[1], "EOther")})'


def enc_opt(r, enc=G.gal_val):
    return 'None' if r is None else f'(Some {enc_res(r, enc)})'


def gal_tables(t):
    b64 = gal.lst(t['b64'], lambda p: f'({G.gal_str(p[0])}, {G.gal_str(p[1])})')
    fmt = gal.lst(t['fmt'], lambda p: f'({G.gal_float(p[0])}, {G.gal_str(p[1])})')
    rep = gal.lst(t['repr'], lambda p: f'({G.gal_val(p[0])}, {G.gal_str(p[1])})')
    lit = gal.lst(t['lit'], lambda p: f'({G.gal_str(p[0])}, {G.gal_val(p[1])})')
    return '{| t_b64 := %s; t_fmt := %s; t_repr := %s; t_lit := %s |}' % (b64, fmt, rep, lit)


def encode(case, obs):
    return ('{| c_env := %s; c_tab := %s; c_d := %s; c_dc := %s; c_side := %s; c_v := %s; c_exp := %s; c_j2 := %s; '
            'c_wire := %s; c_cimp := %s; c_text := %s; c_back := %s; c_text2 := %s; c_set := %s |}' % (
                G.gal_pyenv(obs['env']), gal_tables(obs['tab']), obs['gd'],
                'None' if obs['gdc'] is None else f'(Some {obs["gdc"]})',
                gal.boolean(case['side'] == 'client'), G.gal_val(obs['v']), enc_res(obs['exp']),
                'None' if obs['j2'] is None else f'(Some {G.gal_val(obs["j2"])})',
                enc_opt(obs['wire']), enc_opt(obs['cimp']), enc_res(obs['text'], G.gal_str), enc_opt(obs['back']),
                enc_opt(obs['text2'], G.gal_str), enc_opt(obs['set'])))


def model_result_term(case, obs):
    return f'model_result ({encode(case, obs)})'


# ------------------------------------------------------------------ specification side (written from the property text)
B64_RE = re.compile(r'^(?:[A-Za-z0-9+/]{4})*(?:[A-Za-z0-9+/]{2}==|[A-Za-z0-9+/]{3}=)?$')


def kind_prescribed(d, j, why):
    """j (a python object obtained by a strict JSON parse) has the JSON kind SECoP prescribes for type d"""
    t = d['t']

    def no(msg):
        if not why:
            why.append(f'{t}: {j!r} {msg}')
        return False
    if t == 'float':
        return (type(j) in (int, float) and math.isfinite(j)) or no('is not a JSON number')
    if t in ('int', 'scaled', 'enum'):
        return type(j) is int or no('is not a JSON integer')
    if t == 'bool':
        return type(j) is bool or no('is not a JSON boolean')
    if t == 'string':
        return type(j) is str or no('is not a JSON string')
    if t == 'blob':
        return (type(j) is str and B64_RE.match(j) is not None) or no('is not a base64 string')
    if t == 'array':
        return (type(j) is list or no('is not a JSON list')) and all(kind_prescribed(d['elem'], x, why) for x in j)
    if t == 'tuple':
        return (type(j) is list and len(j) == len(d['elems']) or no('is not a JSON list of the tuple length')) and \
            all(kind_prescribed(dd, x, why) for dd, x in zip(d['elems'], j))
    m = dict(d['members'])
    return (type(j) is dict and set(j) <= set(m) or no('is not a JSON object over the member names')) and \
        all(kind_prescribed(m[k], x, why) for k, x in j.items())


def equal_values(d, a, b, skip_float, why):
    """tagged values a (the original valid value) and b (what came back) are equal in the sense of python ==
    (enum members by name and code, -0.0 == 0.0); float and scaled leaves are skipped when skip_float"""
    t = d['t']

    def no():
        if not why:
            why.append(f'{t}: {_show(a)} became {_show(b)}')
        return False
    if t in ('float', 'scaled'):
        if skip_float:
            return b[0] in ('float', 'int')or no()
        return (a[0] == 'float' and b[0] == 'float' and G.dec_float(a[1]) == G.dec_float(b[1])) or no()
    if t == 'array' or t == 'tuple':
        if a[0] != 'tuple' or b[0] != 'tuple' or len(a[1]) != len(b[1]):
            return no()
        subs = [d['elem']] * len(a[1]) if t == 'array' else d['elems']
        return all(equal_values(dd, x, y, skip_float, why) for dd, x, y in zip(subs, a[1], b[1]))
    if t == 'struct':
        if a[0] != 'dict' or b[0] != 'dict':
            return no()
        da, db = {tuple(k): x for k, x in a[1]}, {tuple(k): x for k, x in b[1]}
        if set(da) != set(db):
            return no()
        m = {tuple(G.cps(n)): dd for n, dd in d['members']}
        return all(k in m and equal_values(m[k], da[k], db[k], skip_float, why) for k in da)
    return a == b or no()


def _show(t):
    try:
        return repr(G.untag(t))
    except Exception:
        return repr(t)


def _floats_within(d, t):
    """every float/scaled leaf of the tagged value t lies within the limits declared by d"""
    for dd, x in _leaves(d, t):
        if dd['t'] in ('float', 'scaled') and x[0] in ('float', 'int'):
            val = G.untag(x)
            if not (G.dec_float(dd['min']) <= val <= G.dec_float(dd['max'])):
                return False
    return True


def _partial_struct(d, t):
    """the tagged value t contains a struct value that lacks one of its (optional) members"""
    k = d['t']
    if k == 'array' and t[0] in ('tuple', 'list'):
        return any(_partial_struct(d['elem'], x) for x in t[1])
    if k == 'tuple' and t[0] in ('tuple', 'list'):
        return any(_partial_struct(dd, x) for dd, x in zip(d['elems'], t[1]))
    if k == 'struct' and t[0] == 'dict':
        m = {tuple(G.cps(n)): dd for n, dd in d['members']}
        present = {tuple(kk) for kk, _ in t[1]}
        return present != set(m) or any(_partial_struct(m[tuple(kk)], x) for kk, x in t[1] if tuple(kk) in m)
    return False


def oracle(case, obs):
    d = case['d']
    v = obs['v']
    side = case['side']
    fails = []

    def fail(cls, what):
        fails.append({'class': cls, 'what': f'{what} [type {d}, value {_show(v)}, exporting side {side}]'})
    if obs['gdc'] is None:
        fail('client-rebuild', 'get_datatype(export_datatype()) raised')
    # --- wire encoding
    if obs['exp'][0] != 'ok':
        fail('export-raises', f'export_value raised {obs["exp"][1]}')
    elif obs['j2'] is None or obs['strict'] is not True:
        fail('not-strict-json', f'the exported form is not strict JSON: {obs["json_text"]!r}')
    else:
        why = []
        if not kind_prescribed(d, G.untag(obs['j2']), why):
            fail('wrong-json-kind', f'exported form {obs["json_text"]!r}: {why[:1]}')
        for who, key in (('node', 'wire'), ('client', 'cimp')):
            r = obs[key]
            if r is None:
                continue
            if r[0] != 'ok':
                fail(f'{who}-import-raises', f'importing {obs["json_text"]!r} on the {who} raised {r[1]}')
                continue
            why = []
            if not equal_values(d, v, r[1], False, why):
                fail(f'{who}-import-changed', f'importing {obs["json_text"]!r} on the {who}: {why[:1]}')
    # --- text encoding
    # (not judged for a struct lacking optional members on the NODE side type: validate() accepts and export_value()
    #  transports such a value, but the node side from_string is __call__, which demands every member for values coming
    #  from the driver; the text form is offered to users through the client side type, where it is judged)
    text = obs['text']
    if side == 'node' and _partial_struct(d, v):
        pass
    elif text[0] != 'ok':
        fail('no-text-form', f'to_string raised {text[1]}')
    else:
        shown = G.from_cps(text[1])
        back = obs['back']
        if back[0] != 'ok':
            fail('text-not-accepted', f'from_string({shown!r}) raised {back[1]}')
        else:
            t2 = obs['text2']
            if t2[0] != 'ok' or t2[1] != text[1]:
                got = G.from_cps(t2[1]) if t2[0] == 'ok' else t2[1]
                fail('text-changed', f'from_string({shown!r}) has the text form {got!r}')
            why = []
            if not equal_values(d, v, back[1], True, why):
                fail('text-value-changed', f'from_string({shown!r}): {why[:1]}')
    # --- str(cache item) as input of setParameterFromString
    # (the text of a float is rounded to six digits: when the number it denotes lies outside the limits of the node's
    # type the node rightly refuses it - the property exempts float leaves from equality - so nothing is demanded then)
    if obs['set'] is not None and (obs['denoted'] is None or _floats_within(d, obs['denoted'])):
        item = G.from_cps(obs.get('item_text', []))
        r = obs['set']
        if r[0] != 'ok':
            fail('setparam-not-accepted', f'setParameterFromString({item!r}) -> {r[1]}')
        else:
            if obs['set_text'] != obs.get('item_text'):
                got = G.from_cps(obs['set_text']) if obs['set_text'] is not None else None
                fail('setparam-changed', f'setParameterFromString({item!r}) set the node to text form {got!r}')
            why = []
            if not equal_values(d, v, r[1], True, why):
                fail('setparam-changed', f'setParameterFromString({item!r}): {why[:1]}')
    return fails


# ------------------------------------------------------------------ known finding classes (narrow)
def _types(d):
    yield d
    if d['t'] == 'array':
        yield from _types(d['elem'])
    elif d['t'] == 'tuple':
        for x in d['elems']:
            yield from _types(x)
    elif d['t'] == 'struct':
        for _, x in d['members']:
            yield from _types(x)


def _leaves(d, t):
    """(leaf descriptor, tagged leaf) pairs of a value shaped like d"""
    k = d['t']
    if k == 'array' and t[0] in ('tuple', 'list'):
        for x in t[1]:
            yield from _leaves(d['elem'], x)
    elif k == 'tuple' and t[0] in ('tuple', 'list'):
        for dd, x in zip(d['elems'], t[1]):
            yield from _leaves(dd, x)
    elif k == 'struct' and t[0] == 'dict':
        m = {tuple(G.cps(n)): dd for n, dd in d['members']}
        for kk, x in t[1]:
            if tuple(kk) in m:
                yield from _leaves(m[tuple(kk)], x)
    else:
        yield d, t


def f_negzero(case, obs, f):
    return (f['class'] in ('text-changed', 'setparam-changed')
            and any(dd['t'] in ('float', 'scaled') and x == ['float', '-0'] for dd, x in _leaves(case['d'], obs['v'])))


def _scaled_k(dd, x):
    from fractions import Fraction
    if dd['t'] != 'scaled' or x[0] != 'float' or not isinstance(x[1], list):
        return 0
    return abs(round(Fraction(G.dec_float(x[1])) / Fraction(G.dec_float(dd['scale']))))


def f_scaled_huge(case, obs, f):
    return (f['class'] in ('node-import-changed', 'client-import-changed', 'text-changed', 'setparam-changed')
            and any(_scaled_k(dd, x) > 2 ** 51 for dd, x in _leaves(case['d'], obs['v'])))


def f_scaled_window(case, obs, f):
    """validate() refuses (RangeError) the lowest / highest grid value of a scaled type whose limit is not a grid
    point and whose grid index exceeds 2^50: min - scale (max + scale) rounds to the value itself"""
    if f['class'] not in ('node-import-raises', 'setparam-not-accepted') or 'RangeError' not in f['what']:
        return False
    for dd, x in _leaves(case['d'], obs['v']):
        k = _scaled_k(dd, x)
        if k <= 2 ** 50:
            continue
        s, val = G.dec_float(dd['scale']), G.dec_float(x[1])
        for lim in (G.dec_float(dd['min']), G.dec_float(dd['max'])):
            try:
                edge = round(lim / s) * s
            except (OverflowError, ValueError):
                continue
            if edge == val and edge != lim and \
                    not G.dec_float(dd['min']) - s < val < G.dec_float(dd['max']) + s:
                return True
    return False


def _regridded_text_differs(dd, x):
    if dd['t'] != 'scaled' or x[0] != 'float' or not isinstance(x[1], list):
        return False
    s, val = G.dec_float(dd['scale']), G.dec_float(x[1])
    text = '%g' % val
    try:
        back = round(float(text) / s) * s
    except (OverflowError, ValueError):
        return False
    return '%g' % back != text


def f_scaled_text_regrid(case, obs, f):
    """the six digit text of a scaled value denotes a number that __call__ puts on a different grid point whose
    text differs (grid coarser than the six digit unit just below a power of ten)"""
    return (f['class'] in ('text-changed', 'setparam-changed')
            and any(_regridded_text_differs(dd, x) for dd, x in _leaves(case['d'], obs['v'])))


FINDING_CLASSIFIERS = {
    'float-negzero-text': f_negzero,
    'scaled-huge-grid': f_scaled_huge,
    'scaled-limit-window': f_scaled_window,
    'scaled-text-regrid': f_scaled_text_regrid,
}


# ------------------------------------------------------------------ bookkeeping
def nontrivial_key(case, obs):
    if case['d']['t'] == 'bool':
        return None
    return repr((case['d'], case['v'], case['side']))


def outcome_labels(case, obs):
    labs = ['side:' + case['side'], 'type:' + case['d']['t']]
    labs.append('export:' + ('ok' if obs['exp'][0] == 'ok' else obs['exp'][1]))
    if obs['back'] is not None:
        labs.append('text-back:' + ('ok' if obs['back'][0] == 'ok' else obs['back'][1]))
    if obs['set'] is not None:
        labs.append('setparam:' + ('ok' if obs['set'][0] == 'ok' else obs['set'][1]))
    return labs


def sample_repr(case, obs):
    return {'datatype': case['d'], 'value': _show(obs['v']), 'side': case['side'], 'json': obs['json_text'],
            'text': G.from_cps(obs['text'][1]) if obs['text'][0] == 'ok' else obs['text'],
            'node': obs['wire'], 'client': obs['cimp'], 'from_string': obs['back'], 'setParameterFromString': obs['set']}


# ------------------------------------------------------------------ generators (values from the value set, not from the code)
STR_ALPHABET = 'abcXYZ 09"\'\\\n\t,:()[]{}#%'
STR_UTF8 = 'éä中€\U0001f600 '
SCALES = [0.1, 1e-3, 0.5, 0.25, 1.0, 2.0, 1 / 3, 1e-5, 10.0, 0.7, 1e-300]


def far_scaled(rng):
    s = rng.choice(SCALES[:9])
    # limits are grid values k * s; indices stay within the proved bound 2^51 (C02_scaled_guard_easy, aligned case)
    base = rng.choice([10 ** 6, 2 ** 24, 2 ** 31, 10 ** 12, 2 ** 40, 2 ** 50, -10 ** 6, -2 ** 31, -10 ** 12, -2 ** 50,
                       2 ** 51 - 1001, -(2 ** 51 - 1)])
    width = rng.choice([0, 1, 10, 1000])
    a, b = base * s, (base + width) * s
    return {'t': 'scaled', 'scale': G.enc_float(s), 'min': G.enc_float(min(a, b)), 'max': G.enc_float(max(a, b))}


def special_type(rng):
    r = rng.random()
    if r < 0.35:
        return far_scaled(rng)
    if r < 0.5:
        return {'t': 'tuple', 'elems': [G.rand_type(rng, 0)]}
    if r < 0.65:
        return {'t': 'enum', 'members': [[n, c] for n, c in zip(rng.sample(G.NAMES + ['on off', 'x-y', '1'], 4),
                                                                 rng.sample(range(-5, 300), 4))]}
    if r < 0.8:
        a = rng.choice([0, 1, 2])
        return {'t': 'string', 'min': a, 'max': rng.choice([a, a + 4, 20, UNLIMITED]), 'utf8': rng.random() < 0.6}
    if r < 0.9:
        return {'t': 'blob', 'min': 0, 'max': rng.choice([1, 16, 300])}
    return {'t': 'array', 'elem': far_scaled(rng), 'min': 0, 'max': 3}


def valid_value(rng, d, client):
    """a value of the specification-side value set of d in its internal form (enum members as codes)"""
    t = d['t']
    if t == 'float':
        a, b = G.dec_float(d['min']), G.dec_float(d['max'])
        c = [a, b] + [x for x in G.FLOAT_CATALOGUE if a <= x <= b]
        x = rng.choice(c)
        r = rng.random()
        if r < 0.2 and a < b:
            y = a + (b - a) * rng.random() if math.isfinite(b - a) else rng.uniform(-1e300, 1e300)
            x = y if a <= y <= b else x
        elif r < 0.3:
            y = math.nextafter(x, rng.choice([-math.inf, math.inf]))
            x = y if a <= y <= b else x
        return float(x)
    if t == 'int':
        c = [d['min'], d['max']] + [x for x in G.INT_CATALOGUE + [-x for x in G.INT_CATALOGUE] if d['min'] <= x <= d['max']]
        return rng.choice(c + [rng.randint(d['min'], d['max'])])
    if t == 'scaled':
        from fractions import Fraction
        s = G.dec_float(d['scale'])
        k1 = round(Fraction(G.dec_float(d['min'])) / Fraction(s))
        k2 = round(Fraction(G.dec_float(d['max'])) / Fraction(s))
        k1, k2 = min(k1, k2), max(k1, k2)
        k = rng.choice([k1, k2, rng.randint(k1, k2), rng.randint(k1, k2)])
        return k * s
    if t == 'bool':
        return rng.random() < 0.5
    if t == 'enum':
        return rng.choice(d['members'])[1]
    if t == 'string':
        hi = min(d['max'], d['min'] + 8)
        n = rng.choice([d['min'], hi, rng.randint(d['min'], hi)])
        alphabet = STR_ALPHABET + (STR_UTF8 if d['utf8'] else '')
        return ''.join(rng.choice(alphabet) for _ in range(n))
    if t == 'blob':
        hi = min(d['max'], d['min'] + 8)
        n = rng.choice([d['min'], hi, rng.randint(d['min'], hi)])
        if d['max'] >= 256 and d['min'] == 0 and rng.random() < 0.1:
            return bytes(range(256))
        return bytes(rng.choice([0, 255, 39, 34, 92, 10, rng.randrange(256), rng.randrange(256)]) for _ in range(n))
    if t == 'array':
        hi = min(d['max'], d['min'] + 3)
        n = rng.choice([d['min'], hi, rng.randint(d['min'], hi)])
        if d['max'] <= 6 and rng.random() < 0.3:
            n = d['max']
        return tuple(valid_value(rng, d['elem'], client) for _ in range(n))
    if t == 'tuple':
        return tuple(valid_value(rng, x, client) for x in d['elems'])
    res = {}
    for n, x in d['members']:
        if n in d['optional'] and rng.random() < (0.5 if client else 0.3):   # also valid on the node (45926fd)
            continue
        res[n] = valid_value(rng, x, client)
    return res


def _strip_client(d):
    """node side descriptors: client flag off everywhere"""
    if d['t'] == 'struct':
        return dict(d, client=False, members=[[n, _strip_client(x)] for n, x in d['members']])
    if d['t'] == 'array':
        return dict(d, elem=_strip_client(d['elem']))
    if d['t'] == 'tuple':
        return dict(d, elems=[_strip_client(x) for x in d['elems']])
    return d


def _wrap(rng, d):
    r = rng.random()
    if r < 0.6:
        return d
    if r < 0.75:
        return {'t': 'array', 'elem': d, 'min': 0, 'max': rng.choice([1, 2, 5])}
    if r < 0.9:
        return {'t': 'tuple', 'elems': [d, G.rand_type(rng, 0)]}
    return {'t': 'struct', 'members': [['a', d], ['b', G.rand_type(rng, 0)]], 'optional': rng.choice([[], ['b'], ['a', 'b']]),
            'client': False}


def gen_cases(seed, tier):
    rng = random.Random(seed * 104729 + 2)
    n = {'quick': 3600, 'thorough': 30000, 'search': 30000}[tier]
    depth = 2 if tier == 'quick' else 3
    cases = []
    while len(cases) < n:
        if rng.random() < 0.3:
            d = _wrap(rng, special_type(rng))
        else:
            d = G.rand_type(rng, rng.randint(0, depth))
        d = _strip_client(d)
        reps = len(d['members']) + 1 if d['t'] == 'enum' else rng.randint(2, 5)
        for i in range(reps):
            side = 'client' if rng.random() < 0.4 else 'node'
            try:
                v = valid_value(rng, d, side == 'client')
                if d['t'] == 'enum' and i < len(d['members']):
                    v = d['members'][i][1]                      # every member
            except (ValueError, IndexError, OverflowError):
                continue
            cases.append({'d': d, 'v': G.tag(v), 'side': side})
    return cases[:n]


def shrink(case):
    d, v = case['d'], case['v']
    if d['t'] == 'array' and v[0] == 'tuple' and len(v[1]) > d['min']:
        for i in range(len(v[1])):
            yield dict(case, v=['tuple', v[1][:i] + v[1][i + 1:]])
    if d['t'] == 'array' and v[0] == 'tuple':
        for x in v[1]:
            yield dict(case, d=d['elem'], v=x)
    if d['t'] == 'tuple' and v[0] == 'tuple' and len(v[1]) == len(d['elems']):
        for dd, x in zip(d['elems'], v[1]):
            yield dict(case, d=dd, v=x)
    if d['t'] == 'struct' and v[0] == 'dict':
        m = {tuple(G.cps(n)): dd for n, dd in d['members']}
        for kk, x in v[1]:
            if tuple(kk) in m:
                yield dict(case, d=m[tuple(kk)], v=x)
