"""C08 — activation / deactivation boundaries under any interleaving: implementation driver (real Dispatcher + SecNode +
Modules + RequestHandler subclasses as fake connections, all threads run under harness/dsched.py), case encoder,
direct oracle, generators"""
import random

from harness import gal

ID = 'C08'
MODEL_TARGETS = ['theories/C08/Run.vo']
PROOF_TARGETS = ['theories/C08/Properties.vo']
PROPERTIES_V = 'theories/C08/Properties.v'
IMPORTS = 'Require Import FV.Gen.C08 FV.C08.Model FV.C08.Run.'
CASE_TYPE = 'case'
CHECK = 'check_case'
SHARD_SIZE = 150
RULE = ('one real Dispatcher + SecNode with 1..3 modules (exported / hidden parameters, optionally a hidden module), '
        '1..3 fake connections (subclasses of the real RequestHandler: setup / handle / finish are the real code) each '
        'running a script of activate / deactivate (global, module, parameter scope, also unknown module / unknown or '
        'hidden parameter / with data) / *IDN? / close, and 0..2 driver threads calling Module.announceUpdate with '
        'globally unique values; all threads run under the deterministic scheduler and are interleaved at every '
        'synchronisation point (dispatcher lock, module updateLock, make_update, send_reply, receive); schedules: '
        'systematic depth-first enumeration with a preemption bound on small scenarios, then seeded random / sticky '
        'random / random preemption points; non-trivial = at least one update message was delivered to a connection; '
        'distinct = distinct (node, scripts, executed step sequence)')
ASSUMPTIONS = [
    'granularity: threads are interleaved at synchronisation points (acquire of Dispatcher._lock / Module.updateLock, '
    'entry of make_update, send_reply and receive of the connection); preemption between two bytecodes of a region '
    'without such a point (line level) is not explored',
    'every announced value differs from the cached one (globally unique values), so the omit_unchanged_within filter '
    'of announceUpdate never drops an update; error updates (readerror) are not generated',
    'connections are RequestHandler subclasses whose send_reply records the message (no socket, no send_lock); a '
    'send never fails',
    'module and parameter sets are fixed after start-up; parameters are FloatRange with a default (no initial '
    'readerror); remote logging is off',
]

MAXC = 3


# ------------------------------------------------------------------ names
def mod_name(mi):
    return f'm{mi}'


def export_name(attr):
    """SECoP rule for the exported name of a parameter (predefined names as they are, custom ones with underscore)"""
    return attr if attr in ('value', 'status', 'target') else '_' + attr


def spec_of(case, scope):
    """the specifier string a client would send for a scope descriptor"""
    k = scope[0]
    if k == 'g':
        return None
    if k == 'm':
        return mod_name(scope[1])
    if k == 'p':
        return f"{mod_name(scope[1])}:{export_name(case['node'][scope[1]]['params'][scope[2]][0])}"
    if k == 'badmod':
        return 'nomod'
    if k == 'badmodpar':
        return 'nomod:value'
    if k == 'badpar':
        return f'{mod_name(scope[1])}:_nopar'
    raise ValueError(scope)


# ------------------------------------------------------------------ implementation driver
_LOG = None


def _logger():
    global _LOG
    if _LOG is None:
        import logging
        from frappy.logging import RemoteLogHandler
        log = logging.getLogger('c08')
        log.addHandler(RemoteLogHandler())
        log.propagate = False
        log.setLevel(100)
        _LOG = log
    return _LOG


def _policy(spec):
    from harness import dsched
    k = spec['kind']
    if k == 'seed':
        return dsched.Seeded(spec['seed'], spec.get('stick', 0.0))
    if k == 'explicit':
        return dsched.Explicit(spec['decisions'])
    if k == 'preempt':
        return dsched.Preempt(spec['points'])
    raise ValueError(k)


def run_case(case, policy=None):
    import frappy.protocol.dispatcher as D
    import frappy.secnode as SN
    from frappy.protocol.interface.handler import RequestHandler, ConnectionClose
    from frappy.modules import Module
    from frappy.params import Parameter
    from frappy.datatypes import FloatRange
    from frappy.lib import generalConfig
    from harness import dsched

    generalConfig.testinit()
    log = _logger()
    s = dsched.Scheduler(policy or _policy(case['sched']), max_steps=4000)
    node = case['node']
    events = []          # global order of everything observable
    orig_make_update = D.make_update
    orig_version = SN.get_version
    SN.get_version = lambda *a, **k: 'verif'
    try:
        class Srv:
            restart = None
            shutdown = None
            detailed_errors = False

        srv = Srv()
        srv.log = log
        srv.secnode = SN.SecNode('node', log, {}, srv)
        srv.dispatcher = disp = D.Dispatcher('dispatcher', log, {}, srv)
        disp._lock = s.RLock()
        disp._lock.name = 'disp'
        mods = []
        where = {}          # (module name, exported name) -> (mi, pi)
        for mi, md in enumerate(node):
            attrs = {}
            for attr, exported in md['params']:
                attrs[attr] = Parameter(attr, FloatRange(), default=0.0, export=bool(exported))
            cls = type(f'Mod{mi}', (Module,), attrs)
            m = cls(mod_name(mi), log, {'description': 'x', 'export': bool(md['export'])}, srv)
            srv.secnode.add_module(m, mod_name(mi))
            srv.secnode.get_module(mod_name(mi))          # earlyInit / initModule happen before the node is active
            m.updateLock = s.RLock()
            m.updateLock.name = f'upd{mi}'
            mods.append(m)
            for pi, (attr, exported) in enumerate(md['params']):
                where[(mod_name(mi), export_name(attr))] = (mi, pi)

                def cb(mi, pi, value, *err):
                    events.append(['store', mi, pi, int(value)])
                m.addCallback(attr, cb, mi, pi)
        # snapshot order as data: modules in export order, accessibles in the order of the instance
        order = []
        for mname in srv.secnode.export:
            mi = int(mname[1:])
            order.append([mi, [pi for a in mods[mi].accessibles for pi, (attr, _) in enumerate(node[mi]['params'])
                               if attr == a]])

        def make_update(modulename, pobj):
            s.switch('build')
            s.annotate(p=list(where.get((modulename, pobj.export), (-1, -1))))
            return orig_make_update(modulename, pobj)
        D.make_update = make_update

        class Conn(RequestHandler):
            def __init__(self, idx, script):
                self.idx = idx
                self.script = script
                self.pos = 0
                self.pend = None
                RequestHandler.__init__(self, None, ('conn', idx), srv)

            def format(self):
                return f'conn{self.idx}'

            def __repr__(self):
                return f'<conn{self.idx}>'

            def receive(self):
                if self.pos >= len(self.script):
                    s.block('recvend', lambda: False)
                    raise ConnectionClose()
                s.switch('recv')
                req = self.script[self.pos]
                self.pos += 1
                if req[0] == 'close':
                    events.append(['close', self.idx])
                    raise ConnectionClose()
                events.append(['req', self.idx, req])
                return req

            def ingest(self, newdata):
                self.pend = newdata

            def next_message(self):
                req, self.pend = self.pend, None
                if req is None:
                    return None
                if req[0] == 'idn':
                    return ('*IDN?', None, None)
                action = {'act': 'activate', 'deact': 'deactivate'}[req[0]]
                return (action, spec_of(case, req[1]), 1 if len(req) > 2 and req[2] else None)

            def send_reply(self, data):
                s.switch('send')
                if data[0] in ('update', 'error_update'):
                    mi, pi = where.get(tuple(data[1].split(':', 1)), (-1, -1))
                    val = data[2][0]
                    item = ['upd', mi, pi, int(val) if data[0] == 'update' and float(val) == int(val) else -1]
                else:
                    err = data[2][0] if data[0].startswith('error_') else None
                    item = ['reply', data[0], data[1], err]
                events.append(['send', self.idx] + item)
                s.annotate(to=self.idx, msg=item)

        conns = [None] * len(case['conns'])

        def conn_thread(i):
            Conn(i, case['conns'][i])       # setup, handle and finish of the real RequestHandler
            events.append(['closed', i])

        def updater(j):
            for mi, pi, v in case['upds'][j]:
                events.append(['ann', j, mi, pi, v])
                mods[mi].announceUpdate(node[mi]['params'][pi][0], float(v))
                events.append(['ann_end', j, mi, pi, v])

        final = {}

        def cid(c):
            return c.idx

        def main():
            ts = [s.spawn(conn_thread, f'c{i}', i) for i in range(len(case['conns']))]
            ts += [s.spawn(updater, f'u{j}', j) for j in range(len(case['upds']))]
            s.wait_until(lambda: all(not t.is_alive() or s.parked_label(t) == 'recvend' for t in ts))
            final['cache'] = [[int(m.parameters[attr].value) for attr, _ in node[mi]['params']]
                              for mi, m in enumerate(mods)]
            final['active'] = sorted(cid(c) for c in disp._active_connections)
            final['subs'] = sorted([k, sorted(cid(c) for c in v)] for k, v in disp._subscriptions.items() if v)
            final['connections'] = sorted(cid(c) for c in disp._connections)
            final['nevents'] = len(events)

        res = s.run(main)
        trace = [[a, b, c] for a, b, c in res.trace if a != 'main']
        return {'status': res.status, 'main_error': res.error, 'thread_errors': res.thread_errors,
                'trace': trace, 'decisions': res.decisions, 'events': events[:final.get('nevents', len(events))],
                'final': final, 'order': order, 'blocked_at_end': res.blocked_at_end,
                'steps': res.steps if case.get('want_steps') else None}
    finally:
        D.make_update = orig_make_update
        SN.get_version = orig_version
