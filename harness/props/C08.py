"""C08 — activation / deactivation boundaries under any interleaving: implementation driver (real Dispatcher + SecNode +
Modules + RequestHandler subclasses as fake connections, all threads run under harness/dsched.py), case encoder,
direct oracle, generators"""
import random

from harness import gal

ID = 'C08'
MODEL_TARGETS = ['theories/C08/Run.vo']
PROOF_TARGETS = ['theories/C08/Properties.vo']
PROPERTIES_V = 'theories/C08/Properties.v'
IMPORTS = 'Require Import FV.Gen.C08 FV.C08.Model FV.C08.Run.'
CASE_TYPE = 'case'
CHECK = 'check_case'
SHARD_SIZE = 150
RULE = ('one real Dispatcher + SecNode with 1..3 modules (exported / hidden parameters, optionally a hidden module), '
        '1..3 fake connections (subclasses of the real RequestHandler: setup / handle / finish are the real code) each '
        'running a script of activate / deactivate (global, module, parameter scope, also unknown module / unknown or '
        'hidden parameter / with data) / *IDN? / the non-SECoP action _ident / close, and 0..2 driver threads calling Module.announceUpdate with '
        'globally unique values; all threads run under the deterministic scheduler and are interleaved at every '
        'synchronisation point (dispatcher lock, module updateLock, make_update, send_reply, receive, and inside '
        'Dispatcher.subscribe / reset_connection before every set.add / set.discard of the connection - hooked through '
        '__hash__ of the fake connections); schedules: '
        'systematic depth-first enumeration with a preemption bound on small scenarios, directed schedules that place '
        'the disconnect / identification of one connection at every switch point of the activation of another one '
        '(and inside its own reset loop), parameter-scope activations followed by the module-wide deactivate on a fresh '
        'subscription table (bare module never activated by anybody) and on control tables, then seeded random / sticky '
        'random / random preemption points; non-trivial = at least one update message was delivered to a connection; '
        'distinct = distinct (node, scripts, executed step sequence)')
ASSUMPTIONS = [
    'granularity: threads are interleaved at synchronisation points (acquire of Dispatcher._lock / Module.updateLock '
    '(driver threads and handle_activate), entry of make_update, send_reply and receive of the connection, and - inside '
    'Dispatcher.subscribe and Dispatcher.reset_connection - before every set operation that hashes the connection: '
    'the add after the lookup-or-create of the per-event set, one discard per event, the discard from the generic '
    'subscribers); the set operations of unsubscribe and the add to the generic subscribers (both under the dispatcher '
    'lock) are not switch points; preemption between two bytecodes of a region without such a point (line level) is '
    'not explored',
    'the hash of a fake connection is a small integer derived from the case (not its address), so that the iteration '
    'order of listener sets is reproducible',
    'every announced value differs from the cached one (globally unique values), so the omit_unchanged_within filter '
    'of announceUpdate never drops an update; error updates (readerror) are not generated',
    'connections are RequestHandler subclasses whose send_reply records the message (no socket, no send_lock); a '
    'send never fails',
    'module and parameter sets are fixed after start-up; parameters are FloatRange with a default (no initial '
    'readerror); remote logging is off',
]

MAXC = 3


# ------------------------------------------------------------------ names
def mod_name(mi):
    return f'm{mi}'


def export_name(attr):
    """SECoP rule for the exported name of a parameter (predefined names as they are, custom ones with underscore)"""
    return attr if attr in ('value', 'status', 'target') else '_' + attr


def spec_of(case, scope):
    """the specifier string a client would send for a scope descriptor"""
    k = scope[0]
    if k == 'g':
        return None
    if k == 'm':
        return mod_name(scope[1])
    if k == 'p':
        return f"{mod_name(scope[1])}:{export_name(case['node'][scope[1]]['params'][scope[2]][0])}"
    if k == 'badmod':
        return 'nomod'
    if k == 'badmodpar':
        return 'nomod:value'
    if k == 'badpar':
        return f'{mod_name(scope[1])}:_nopar'
    raise ValueError(scope)


# ------------------------------------------------------------------ implementation driver
_LOG = None


def _logger():
    global _LOG
    if _LOG is None:
        import logging
        from frappy.logging import RemoteLogHandler
        log = logging.getLogger('c08')
        log.addHandler(RemoteLogHandler())
        log.propagate = False
        log.setLevel(100)
        _LOG = log
    return _LOG


def _policy(spec):
    from harness import dsched
    k = spec['kind']
    if k == 'seed':
        return dsched.Seeded(spec['seed'], spec.get('stick', 0.0))
    if k == 'explicit':
        return dsched.Explicit(spec['decisions'])
    if k == 'preempt':
        return dsched.Preempt(spec['points'])
    if k == 'follow':
        return Follow(spec['decisions'])
    if k == 'segments':
        return Segments(spec['segments'])
    raise ValueError(k)


class Follow:
    """replay of a decision list recorded on an EARLIER version of the code: decisions that name a thread which is
    not enabled any more are skipped (instead of ending the run as 'diverged'); afterwards non-preemptive"""

    def __init__(self, decisions):
        self.decisions = list(decisions)
        self.i = 0

    def __call__(self, n, enabled, current):
        while self.i < len(self.decisions) and self.decisions[self.i] not in enabled:
            self.i += 1
        if self.i < len(self.decisions):
            self.i += 1
            return self.decisions[self.i - 1]
        return current if current in enabled else enabled[0]


class Segments:
    """directed schedule: a list of segments [thread, label, nth] - run `thread` until it is parked at `label` for the
    nth time (label None: until it has finished or is blocked), then go on with the next segment; a segment whose thread
    is not enabled is skipped; after the last segment non-preemptive (creation order).  Used to place the disconnect /
    identification of one connection at every switch point inside the activation of another one (and vice versa)."""

    def __init__(self, segments):
        self.segs = [list(x) for x in segments]
        self.i = 0
        self.count = 0
        self.sched = None          # set by run_case

    def __call__(self, n, enabled, current):
        s = self.sched
        while self.i < len(self.segs):
            th, lab, nth = self.segs[self.i]
            if not any(x.name == th for x in s.threads):      # not spawned yet
                break
            if th not in enabled:
                self.i += 1
                self.count = 0
                continue
            if lab is not None:
                t = next(x for x in s.threads if x.name == th)
                if s.parked_label(t) == lab:
                    self.count += 1
                    if self.count >= nth:
                        self.i += 1
                        self.count = 0
                        continue
            return th
        return current if current in enabled else enabled[0]


def run_case(case, policy=None):
    import frappy.protocol.dispatcher as D
    import frappy.secnode as SN
    from frappy.protocol.interface.handler import RequestHandler, ConnectionClose
    from frappy.modules import Module
    from frappy.params import Parameter
    from frappy.datatypes import FloatRange
    from frappy.lib import generalConfig
    from harness import dsched

    generalConfig.testinit()
    log = _logger()
    policy = policy or _policy(case['sched'])
    s = dsched.Scheduler(policy, max_steps=4000)
    if isinstance(policy, Segments):
        policy.sched = s
    node = case['node']
    events = []          # global order of everything observable
    orig_make_update = D.make_update
    orig_version = SN.get_version
    SN.get_version = lambda *a, **k: 'verif'
    try:
        class Srv:
            restart = None
            shutdown = None
            detailed_errors = False

        srv = Srv()
        srv.log = log
        srv.secnode = SN.SecNode('node', log, {}, srv)
        srv.dispatcher = disp = D.Dispatcher('dispatcher', log, {}, srv)
        disp._lock = s.RLock()
        disp._lock.name = 'disp'
        # switch points inside the table operations: Dispatcher.subscribe (lookup-or-create of the per-event set, then
        # set.add) and Dispatcher.reset_connection (one set.discard per event, then the discard from the generic
        # subscribers) hash the connection object once per set operation, BEFORE the operation takes effect; while a
        # thread is inside one of the two methods (the real code, called through a wrapper on the instance) the
        # __hash__ of the fake connections is a synchronisation point.  set_all_log_levels (remote logging, not
        # modelled) runs with the hook switched off.
        armed = {}
        # hash values of the fake connections: small distinct integers in an order derived from the case, so that the
        # iteration order of the listener sets (= order of the sends of a broadcast) is the same in every process that
        # runs this case (replays are exact) and still varies between cases
        import json
        import zlib
        hashval = list(range(1, len(case['conns']) + 1))
        random.Random(zlib.crc32(json.dumps([node, case['conns'], case['upds']], sort_keys=True).encode())).shuffle(hashval)

        def arm(method, label):
            orig = getattr(disp, method)

            def wrapper(*a, **k):
                me = s.current_thread()
                me = me.name if me is not None else None
                prev = armed.get(me)
                armed[me] = label
                try:
                    return orig(*a, **k)
                finally:
                    armed[me] = prev
            setattr(disp, method, wrapper)
        arm('subscribe', 'add')
        arm('reset_connection', 'discard')
        arm('set_all_log_levels', None)
        mods = []
        where = {}          # (module name, exported name) -> (mi, pi)
        for mi, md in enumerate(node):
            attrs = {}
            for attr, exported in md['params']:
                attrs[attr] = Parameter(attr, FloatRange(), default=0.0, export=bool(exported))
            cls = type(f'Mod{mi}', (Module,), attrs)
            m = cls(mod_name(mi), log, {'description': 'x', 'export': bool(md['export'])}, srv)
            srv.secnode.add_module(m, mod_name(mi))
            srv.secnode.get_module(mod_name(mi))          # earlyInit / initModule happen before the node is active
            m.updateLock = s.RLock()
            m.updateLock.name = f'upd{mi}'
            mods.append(m)
            for pi, (attr, exported) in enumerate(md['params']):
                where[(mod_name(mi), export_name(attr))] = (mi, pi)

                def cb(mi, pi, value, *err):
                    events.append(['store', mi, pi, int(value)])
                m.addCallback(attr, cb, mi, pi)
        # snapshot order as data: modules in export order, accessibles in the order of the instance
        order = []
        for mname in srv.secnode.export:
            mi = int(mname[1:])
            order.append([mi, [pi for a in mods[mi].accessibles for pi, (attr, _) in enumerate(node[mi]['params'])
                               if attr == a]])

        def make_update(modulename, pobj):
            s.switch('build')
            pp = list(where.get((modulename, pobj.export), (-1, -1)))
            s.annotate(p=pp)
            events.append(['build', s.current_thread().name] + pp)
            return orig_make_update(modulename, pobj)
        D.make_update = make_update

        class Conn(RequestHandler):
            def __init__(self, idx, script):
                self.idx = idx
                self.script = script
                self.pos = 0
                self.pend = None
                RequestHandler.__init__(self, None, ('conn', idx), srv)

            def __hash__(self):
                me = s.current_thread()
                lab = armed.get(me.name) if me is not None else None
                if lab:
                    s.switch(lab)
                return hashval[self.idx]

            def __eq__(self, other):
                return self is other

            def format(self):
                return f'conn{self.idx}'

            def __repr__(self):
                return f'<conn{self.idx}>'

            def receive(self):
                if self.pos >= len(self.script):
                    s.block('recvend', lambda: False)
                    raise ConnectionClose()
                s.switch('recv')
                req = self.script[self.pos]
                self.pos += 1
                if req[0] == 'close':
                    events.append(['close', self.idx])
                    raise ConnectionClose()
                events.append(['req', self.idx, req])
                return req

            def ingest(self, newdata):
                self.pend = newdata

            def next_message(self):
                req, self.pend = self.pend, None
                if req is None:
                    return None
                if req[0] == 'idn':
                    return ('*IDN?', None, None)
                if req[0] == 'bogus':          # not a SECoP action: must not reach the identification handler
                    return ('_ident', None, None)
                action = {'act': 'activate', 'deact': 'deactivate'}[req[0]]
                return (action, spec_of(case, req[1]), 1 if len(req) > 2 and req[2] else None)

            def send_reply(self, data):
                s.switch('send')
                if data[0] in ('update', 'error_update'):
                    mi, pi = where.get(tuple(data[1].split(':', 1)), (-1, -1))
                    val = data[2][0]
                    item = ['upd', mi, pi, int(val) if data[0] == 'update' and float(val) == int(val) else -1]
                else:
                    err = data[2][0] if data[0].startswith('error_') else None
                    item = ['reply', data[0], data[1], err]
                events.append(['send', self.idx, s.current_thread().name] + item)
                s.annotate(to=self.idx, msg=item)

        conns = [None] * len(case['conns'])

        def conn_thread(i):
            Conn(i, case['conns'][i])       # setup, handle and finish of the real RequestHandler
            events.append(['closed', i])

        def updater(j):
            for mi, pi, v in case['upds'][j]:
                events.append(['ann', j, mi, pi, v])
                mods[mi].announceUpdate(node[mi]['params'][pi][0], float(v))
                events.append(['ann_end', j, mi, pi, v])

        final = {}

        def cid(c):
            return c.idx

        def main():
            ts = [s.spawn(conn_thread, f'c{i}', i) for i in range(len(case['conns']))]
            ts += [s.spawn(updater, f'u{j}', j) for j in range(len(case['upds']))]
            s.wait_until(lambda: all(not t.is_alive() or s.parked_label(t) == 'recvend' for t in ts))
            final['cache'] = [[int(m.parameters[attr].value) for attr, _ in node[mi]['params']]
                              for mi, m in enumerate(mods)]
            final['active'] = sorted(cid(c) for c in disp._active_connections)
            final['subs'] = sorted([k, sorted(cid(c) for c in v)] for k, v in disp._subscriptions.items() if v)
            final['keys'] = sorted(disp._subscriptions)
            final['connections'] = sorted(cid(c) for c in disp._connections)
            final['nevents'] = len(events)

        res = s.run(main)
        trace = [[a, b, c] for a, b, c in res.trace if a != 'main']
        return {'status': res.status, 'main_error': res.error, 'thread_errors': res.thread_errors,
                'trace': trace, 'decisions': res.decisions, 'events': events[:final.get('nevents', len(events))],
                'final': final, 'order': order, 'blocked_at_end': res.blocked_at_end,
                'steps': res.steps if case.get('want_steps') else None}
    finally:
        D.make_update = orig_make_update
        SN.get_version = orig_version


# ------------------------------------------------------------------ encoding into Gallina
ERRCODE = {'ProtocolError': 0, 'NoSuchModule': 1, 'NoSuchParameter': 2}


def enc_scope(sc):
    k = sc[0]
    if k == 'g':
        return 'SG'
    if k == 'm':
        return f'(SM {gal.nat(sc[1])})'
    if k == 'p':
        return f'(SP {gal.nat(sc[1])} {gal.nat(sc[2])})'
    if k == 'badmod':
        return '(SM 99%nat)'
    if k == 'badmodpar':
        return '(SP 99%nat 0%nat)'
    if k == 'badpar':
        return f'(SP {gal.nat(sc[1])} 99%nat)'
    raise ValueError(sc)


def enc_req(r):
    if r[0] == 'idn':
        return 'RIdn'
    if r[0] == 'close':
        return 'RClose'
    if r[0] == 'bogus':
        return 'RBogus'
    data = gal.boolean(len(r) > 2 and bool(r[2]))
    return f"({'RAct' if r[0] == 'act' else 'RDeact'} {enc_scope(r[1])} {data})"


def enc_pid(mi, pi):
    return f'({gal.nat(mi)}, {gal.nat(pi)})'


def all_scopes(case):
    """scope descriptors with their specifier strings"""
    out = [['g'], ['badmod'], ['badmodpar']]
    for mi, md in enumerate(case['node']):
        out.append(['m', mi])
        out.append(['badpar', mi])
        for pi in range(len(md['params'])):
            out.append(['p', mi, pi])
    return out


def scope_of_spec(case, spec):
    for sc in all_scopes(case):
        if spec_of(case, sc) == spec:
            return sc
    raise ValueError(f'specifier outside the model: {spec!r}')


def enc_reply(case, action, spec, err):
    if action == 'active':
        return f'(RpActive {enc_scope(scope_of_spec(case, spec))})'
    if action == 'inactive':
        return 'RpInactive'
    if action.startswith('ISSE'):
        return 'RpIdent'
    if action.startswith('error_') and err in ERRCODE:
        return f'(RpErr {gal.nat(ERRCODE[err])})'
    raise ValueError(f'reply outside the model: {action} {spec} {err}')


def conn_logs(case, obs):
    """per connection: the entries of its log in order (requests received, messages handed to it, close)"""
    logs = [[] for _ in case['conns']]
    for ev in obs['events']:
        if ev[0] == 'req':
            logs[ev[1]].append(['req', ev[2]])
        elif ev[0] == 'close':
            logs[ev[1]].append(['close'])
        elif ev[0] == 'send':
            logs[ev[1]].append(ev[3:])
    return logs


def enc_entry(case, e):
    if e[0] == 'req':
        return f'(EReq {enc_req(e[1])})'
    if e[0] == 'close':
        return 'EClose'
    if e[0] == 'upd':
        if e[1] < 0 or e[3] < 0:
            raise ValueError(f'update outside the model: {e}')
        return f'(EUpd {enc_pid(e[1], e[2])} {gal.nat(e[3])})'
    return f'(ERep {enc_reply(case, e[1], e[2], e[3])})'


def enc_tid(name):
    return f"({'TC' if name[0] == 'c' else 'TU'} {gal.nat(int(name[1:]))})"


def enc_lab(lab, info):
    if lab == 'start':
        return 'LStart'
    if lab == 'recv':
        return 'LRecv'
    if lab == 'acquire:disp':
        return 'LAcqD'
    if lab.startswith('acquire:upd'):
        return f'(LAcqU {gal.nat(int(lab[11:]))})'
    if lab == 'build':
        return f"(LBuild {enc_pid(*info['p'])})"
    if lab == 'send':
        return f"(LSend {gal.nat(info['to'])})"
    if lab == 'add':
        return 'LAdd'
    if lab == 'discard':
        return 'LDisc'
    raise ValueError(f'label outside the model: {lab}')


def encode(case, obs):
    if obs['status'] != 'ok' or obs['main_error'] or obs['thread_errors']:
        raise ValueError(f"run did not complete: {obs['status']} {obs['main_error']} {obs['thread_errors']}")
    node = case['node']
    natural = [[mi, list(range(len(md['params'])))] for mi, md in enumerate(node) if md['export']]
    if obs['order'] != natural:
        raise ValueError(f"snapshot order of the node is not the declared one: {obs['order']}")
    nd = gal.lst(node, lambda md: f"({gal.boolean(md['export'])}, {gal.lst(md['params'], lambda p: gal.boolean(p[1]))})")
    conns = gal.lst(case['conns'], lambda sc: gal.lst(sc, enc_req))
    upds = gal.lst(case['upds'], lambda us: gal.lst(us, lambda u: f'({enc_pid(u[0], u[1])}, {gal.nat(u[2])})'))
    trace = '; '.join(f'({enc_tid(t)}, {enc_lab(lab, info)})' for t, lab, info in obs['trace'])
    logs = gal.lst(conn_logs(case, obs), lambda l: gal.lst(l, lambda e: enc_entry(case, e)))
    fin = obs['final']
    cache = '; '.join(f'({enc_pid(mi, pi)}, {gal.nat(v)})' for mi, row in enumerate(fin['cache']) for pi, v in enumerate(row))
    subs = '; '.join(f'({gal.nat(c)}, {enc_scope(scope_of_spec(case, k))})' for k, cs in fin['subs'] for c in cs)
    keys = gal.lst(fin['keys'], lambda k: enc_scope(scope_of_spec(case, k)))
    return ('{| k_node := %s; k_conns := %s; k_upds := %s; k_trace := [%s]; k_logs := %s; k_cache := [%s]; '
            'k_actv := %s; k_subs := [%s]; k_keys := %s |}'
            % (nd, conns, upds, trace, logs, cache, gal.lst(fin['active'], gal.nat), subs, keys))


def model_result_term(case, obs):
    return f'model_result ({encode(case, obs)})'


# ------------------------------------------------------------------ direct oracle: the property on the observation
def _covers(sc, mi, pi):
    return sc[0] == 'g' or (sc[0] == 'm' and sc[1] == mi) or (sc[0] == 'p' and sc[1] == mi and sc[2] == pi)


def _exported(case, mi, pi):
    md = case['node'][mi]
    return bool(md['export'] and md['params'][pi][1])


def _valid_scope(case, sc):
    if sc[0] == 'g':
        return True
    if sc[0] == 'm':
        return bool(case['node'][sc[1]]['export'])
    if sc[0] == 'p':
        return _exported(case, sc[1], sc[2])
    return False


def _encloses(outer, inner):
    """a deactivate of `outer` may also end a subscription of `inner` (not the matching deactivate)"""
    return outer[0] == 'g' or (outer[0] == 'm' and inner[0] == 'p' and inner[1] == outer[1])


def _ends(deact, sub):
    """the 'inactive' reply to `deactivate <deact>` certainly ends the subscription `sub` of the same connection: the
    matching deactivate, and the module-wide `deactivate <module>` for every `<module>:<parameter>` scope of that module
    (a module event covers the 'more specific' events below it - for activate as for deactivate - whatever the history
    of the subscription table, in particular also when nobody ever activated the bare module).  A global deactivate
    does not end module / parameter scopes (don't care, see _encloses)."""
    return deact == sub or (deact[0] == 'm' and sub[0] == 'p' and sub[1] == deact[1])


def subscriptions(case, obs):
    """per connection the subscription instances read off its own request / reply history:
    {sc, req (index of the activate request), active (index of the 'active' reply or None),
     maybe_end (index of the first later request that may end it: matching or enclosing deactivate, *IDN?, close; or None),
     dead (index from which it is certainly ended: reply to the MATCHING deactivate - or, for a parameter scope, to the
     module-wide deactivate of its module - / to *IDN? / connection removed; or None)}"""
    ev = obs['events']
    res = [[] for _ in case['conns']]
    cur = [None] * len(case['conns'])       # request being processed: (index, req)
    for i, e in enumerate(ev):
        if e[0] == 'req':
            c, r = e[1], e[2]
            cur[c] = (i, r)
            if r[0] == 'act' and not (len(r) > 2 and r[2]) and _valid_scope(case, r[1]):
                res[c].append({'sc': r[1], 'req': i, 'active': None, 'maybe_end': None, 'dead': None})
            elif r[0] in ('deact', 'idn'):
                for sub in res[c]:
                    if sub['req'] < i and sub['maybe_end'] is None and (
                            r[0] == 'idn' or (not (len(r) > 2 and r[2]) and (r[1] == sub['sc'] or _encloses(r[1], sub['sc'])))):
                        sub['maybe_end'] = i
        elif e[0] == 'close':
            for sub in res[e[1]]:
                if sub['maybe_end'] is None:
                    sub['maybe_end'] = i
        elif e[0] == 'closed':
            for sub in res[e[1]]:
                if sub['dead'] is None:
                    sub['dead'] = i
        elif e[0] == 'send' and e[3] == 'reply' and cur[e[1]] is not None:
            c = e[1]
            ri, r = cur[c]
            cur[c] = None
            if e[4] == 'active':
                for sub in res[c]:
                    if sub['req'] == ri:
                        sub['active'] = i
            elif e[4] == 'inactive' and r[0] == 'deact':
                for sub in res[c]:
                    if sub['req'] < ri and sub['dead'] is None and _ends(r[1], sub['sc']):
                        sub['dead'] = i
            elif r[0] == 'idn' and not e[4].startswith('error_'):
                for sub in res[c]:
                    if sub['req'] < ri and sub['dead'] is None:
                        sub['dead'] = i
    return res


def oracle(case, obs):
    fails = []

    def fail(cls, what, **kw):
        fails.append(dict({'class': cls, 'what': what}, **kw))

    if obs['status'] != 'ok' or obs['main_error'] or obs['thread_errors']:
        fail('run-' + obs['status'], f"the run did not complete: {obs['status']} {obs['main_error']} "
             f"{obs['thread_errors']} blocked: {obs['blocked_at_end']}")
        return fails
    ev = obs['events']
    node = case['node']
    nconn = len(case['conns'])
    subsc = subscriptions(case, obs)
    # history of the cache: stores[(mi, pi)] = [(index, value)], initial value 0 at index -1
    stores = {}
    for mi, md in enumerate(node):
        for pi in range(len(md['params'])):
            stores[(mi, pi)] = [(-1, 0)]
    for i, e in enumerate(ev):
        if e[0] == 'store':
            stores[(e[1], e[2])].append((i, e[3]))

    def values_between(p, t0, t1):
        """values the cache of p held at some moment of [t0, t1]"""
        vals = [v for i, v in stores[p] if t0 <= i <= t1]
        before = [v for i, v in stores[p] if i < t0]
        return set(vals + before[-1:])

    # requests and their replies
    pend = [None] * nconn
    for i, e in enumerate(ev):
        if e[0] == 'req':
            pend[e[1]] = (i, e[2])
        elif e[0] == 'send' and e[3] == 'reply' and pend[e[1]] is not None:
            ri, r = pend[e[1]]
            pend[e[1]] = None
            c = e[1]
            if r[0] == 'act' and not (len(r) > 2 and r[2]) and _valid_scope(case, r[1]):
                # 1. an activate request delivers, before its 'active' reply, one current update for every exported
                #    parameter in that scope
                if e[4] != 'active' or e[5] != spec_of(case, r[1]):
                    fail('activate-refused', f'conn {c}: activate {spec_of(case, r[1])} answered with {e[4:]}')
                    continue
                window = [(k, x) for k, x in enumerate(ev[ri:i], ri) if x[0] == 'send' and x[1] == c and x[3] == 'upd']
                for mi, md in enumerate(node):
                    for pi in range(len(md['params'])):
                        if _exported(case, mi, pi) and _covers(r[1], mi, pi):
                            got = [(k, x) for k, x in window if x[4] == mi and x[5] == pi]
                            if not got:
                                fail('snapshot-incomplete', f'conn {c}: activate {spec_of(case, r[1])} replied active '
                                     f'without an update of parameter {(mi, pi)}', conn=c, p=[mi, pi])
                            elif not any(x[6] in values_between((mi, pi), ri, k) for k, x in got):
                                fail('snapshot-not-current', f'conn {c}: activate {spec_of(case, r[1])}: the updates of '
                                     f'{(mi, pi)} before the reply carry {[x[6] for _, x in got]}, never the value of the '
                                     f'cache during the activation', conn=c, p=[mi, pi])
    # every delivered update carries a value the cache held before, for an exported parameter
    for i, e in enumerate(ev):
        if e[0] == 'send' and e[3] == 'upd':
            p = (e[4], e[5])
            if p not in stores or not _exported(case, *p):
                fail('update-of-hidden-parameter', f'conn {e[1]} received an update for {p}', conn=e[1], p=list(p))
            elif e[6] not in values_between(p, -1, i):
                fail('invented-update', f'conn {e[1]} received {p} = {e[6]}, a value never stored', conn=e[1], p=list(p))

    # 2. from then on the connection receives every later update in scope
    anns = {}
    for i, e in enumerate(ev):
        if e[0] == 'ann':
            anns[(e[2], e[3], e[4])] = [i, None]
        elif e[0] == 'ann_end':
            anns[(e[2], e[3], e[4])][1] = i
    for c in range(nconn):
        got = {(e[4], e[5], e[6]) for e in ev if e[0] == 'send' and e[1] == c and e[3] == 'upd'}
        for sub in subsc[c]:
            if sub['active'] is None:
                continue
            for (mi, pi, v), (a0, a1) in anns.items():
                if (_exported(case, mi, pi) and _covers(sub['sc'], mi, pi) and a0 > sub['active'] and a1 is not None
                        and (sub['maybe_end'] is None or a1 < sub['maybe_end']) and (mi, pi, v) not in got):
                    fail('update-missed', f'conn {c}: scope {spec_of(case, sub["sc"])} active since event {sub["active"]}, '
                         f'update {(mi, pi)} = {v} announced at {a0}..{a1} was never delivered', conn=c, p=[mi, pi])

    # 3. once things are quiet the last message held for a parameter equals the cache
    final_cache = obs['final']['cache']
    for c in range(nconn):
        for mi, md in enumerate(node):
            for pi in range(len(md['params'])):
                if not _exported(case, mi, pi):
                    continue
                live = [sub for sub in subsc[c] if sub['active'] is not None and sub['maybe_end'] is None
                        and _covers(sub['sc'], mi, pi)]
                if not live:
                    continue
                msgs = [(i, e) for i, e in enumerate(ev) if e[0] == 'send' and e[1] == c and e[3] == 'upd'
                        and e[4] == mi and e[5] == pi]
                if not msgs:
                    continue      # reported as snapshot-incomplete
                i, last = msgs[-1]
                if last[6] != final_cache[mi][pi]:
                    newer = [e[6] for _, e in msgs[:-1] if e[6] == final_cache[mi][pi]]
                    fail('stale-at-quiescence', f'conn {c} (scope {spec_of(case, live[0]["sc"])} active): the last message '
                         f'for {(mi, pi)} carries {last[6]} (sent by {last[2]}), the cache holds {final_cache[mi][pi]}',
                         conn=c, p=[mi, pi], sender=last[2], overtaken=bool(newer), at=i)

    # 4. after the matching deactivate, an identification request or a disconnect no further update of that scope
    for i, e in enumerate(ev):
        if e[0] == 'send' and e[3] == 'upd':
            c, mi, pi = e[1], e[4], e[5]
            cover = [sub for sub in subsc[c] if sub['req'] < i and _covers(sub['sc'], mi, pi)]
            if not cover:
                fail('unsolicited-update', f'conn {c} received an update of {(mi, pi)} (event {i}) without any activate '
                     f'request covering it', conn=c, p=[mi, pi], sender=e[2], at=i)
            elif all(sub['dead'] is not None and sub['dead'] < i for sub in cover):
                dead = max(sub['dead'] for sub in cover)
                fail('update-after-deactivate', f'conn {c} received {(mi, pi)} = {e[6]} from {e[2]} (event {i}) after its '
                     f'scope was ended at event {dead} ({ev[dead][:5]})', conn=c, p=[mi, pi], sender=e[2], at=i, dead=dead)
    return fails


def _last_build_before(obs, thread, p, at):
    idx = [i for i, e in enumerate(obs['events'][:at]) if e[0] == 'build' and e[1] == thread and e[2:4] == list(p)]
    return idx[-1] if idx else None


FINDING_CLASSIFIERS = {
    # broadcast_event selected its listeners before the connection was unregistered and sends afterwards
    'late_update': lambda case, obs, f: f['class'] == 'update-after-deactivate' and f['sender'].startswith('u')
    and _last_build_before(obs, f['sender'], f['p'], f['at']) is not None
    and _last_build_before(obs, f['sender'], f['p'], f['at']) < f['dead'],
}


def nontrivial_key(case, obs):
    if obs['status'] != 'ok' or not any(e[0] == 'send' and e[3] == 'upd' for e in obs['events']):
        return None
    return repr((case['node'], case['conns'], case['upds'], [(t, l) for t, l, _ in obs['trace']]))


def outcome_labels(case, obs):
    labs = set()
    if obs['status'] != 'ok':
        return ['status:' + obs['status']]
    for e in obs['events']:
        if e[0] == 'send' and e[3] == 'reply':
            labs.add('reply:' + ('ident' if e[4].startswith('ISSE') else e[4] + (':' + e[6] if e[6] else '')))
        elif e[0] == 'send':
            labs.add('update-from-' + ('snapshot' if e[2][0] == 'c' else 'broadcast'))
        elif e[0] == 'closed':
            labs.add('closed')
    for f in oracle(case, obs):
        labs.add('oracle:' + f['class'])
    return sorted(labs)


def sample_repr(case, obs):
    return {'case': {k: v for k, v in case.items() if k != 'sched'}, 'sched_kind': case['sched']['kind'],
            'steps': [f'{t}:{lab}' for t, lab, _ in obs['trace']][:80],
            'logs': conn_logs(case, obs), 'final': obs['final']}


def extra_evidence(cases, obs):
    ok = [o for o in obs if '__harness_error__' not in o]
    kinds = {}
    for c in cases:
        kinds[c['sched']['kind']] = kinds.get(c['sched']['kind'], 0) + 1
    return {'schedule_steps_total': sum(len(o['trace']) for o in ok),
            'max_steps_in_a_run': max((len(o['trace']) for o in ok), default=0),
            'schedule_kinds': kinds}


# ------------------------------------------------------------------ generators
def rand_node(rng):
    nmod = rng.choice([1, 1, 2, 2, 3])
    node = []
    names = ['value', 'a', 'b']
    for mi in range(nmod):
        npar = rng.choice([1, 2, 2, 3])
        params = [[names[pi], rng.random() < 0.8] for pi in range(npar)]
        node.append({'export': rng.random() < 0.9, 'params': params})
    if not any(md['export'] and any(f for _, f in md['params']) for md in node):
        node[0]['export'] = True
        node[0]['params'][0][1] = True
    return node


def rand_scope(rng, node, bad=0.1):
    r = rng.random()
    if r < bad:
        return rng.choice([['badmod'], ['badmodpar'], ['badpar', rng.randrange(len(node))]])
    r = rng.random()
    if r < 0.35:
        return ['g']
    mi = rng.randrange(len(node))
    if r < 0.65:
        return ['m', mi]
    return ['p', mi, rng.randrange(len(node[mi]['params']))]


def rand_script(rng, node):
    script = []
    opened = []
    for _ in range(rng.choice([1, 2, 2, 3, 3, 4])):
        r = rng.random()
        if r < 0.5 or not opened and r < 0.8:
            sc = rand_scope(rng, node)
            req = ['act', sc]
            if rng.random() < 0.05:
                req.append(1)
            else:
                opened.append(sc)
            script.append(req)
        elif r < 0.85:
            # mostly the matching deactivate, sometimes the module-wide one of an opened parameter scope (on a table that
            # may never have seen the bare module), sometimes an enclosing or unrelated one
            sc = rng.choice(opened) if opened and rng.random() < 0.75 else rand_scope(rng, node, 0.15)
            if sc[0] == 'p' and rng.random() < 0.25:
                sc = ['m', sc[1]]
            req = ['deact', sc]
            if rng.random() < 0.05:
                req.append(1)
            script.append(req)
        elif r < 0.96:
            script.append(['idn'])
        else:
            script.append(['bogus'])
    if rng.random() < 0.3:
        script.append(['close'])
    return script


def rand_upds(rng, node, counter):
    ths = []
    for _ in range(rng.choice([0, 1, 1, 2, 2])):
        th = []
        for _ in range(rng.choice([1, 2, 2, 3])):
            mi = rng.randrange(len(node))
            pi = rng.randrange(len(node[mi]['params']))
            counter[0] += 1
            th.append([mi, pi, counter[0]])
        ths.append(th)
    return ths


def rand_sched(rng):
    r = rng.random()
    if r < 0.35:
        return {'kind': 'seed', 'seed': rng.randrange(1 << 30), 'stick': 0.0}
    if r < 0.75:
        return {'kind': 'seed', 'seed': rng.randrange(1 << 30), 'stick': rng.choice([0.5, 0.8, 0.9])}
    k = rng.choice([1, 2, 2, 3])
    return {'kind': 'preempt', 'points': {str(rng.randrange(1, 50)): rng.randrange(6) for _ in range(k)}}


def rand_case(rng):
    node = rand_node(rng)
    counter = [0]
    return {'node': node, 'conns': [rand_script(rng, node) for _ in range(rng.choice([1, 2, 2, 3]))],
            'upds': rand_upds(rng, node, counter), 'sched': rand_sched(rng)}


ONE = [{'export': True, 'params': [['value', True]]}]
TWO = [{'export': True, 'params': [['value', True], ['a', True]]}, {'export': True, 'params': [['value', True]]}]
HID = [{'export': True, 'params': [['value', True], ['a', False]]}, {'export': False, 'params': [['value', True]]}]

SCENARIOS = [
    # activation racing with one update (stale snapshot window)
    {'node': ONE, 'conns': [[['act', ['g']]]], 'upds': [[[0, 0, 1]]]},
    {'node': ONE, 'conns': [[['act', ['m', 0]]]], 'upds': [[[0, 0, 1], [0, 0, 2]]]},
    {'node': ONE, 'conns': [[['act', ['p', 0, 0]]]], 'upds': [[[0, 0, 1]], [[0, 0, 2]]]},
    # deactivation / identification / disconnect racing with a broadcast (late update window)
    {'node': ONE, 'conns': [[['act', ['g']], ['deact', ['g']]]], 'upds': [[[0, 0, 1]]]},
    {'node': ONE, 'conns': [[['act', ['m', 0]], ['idn']]], 'upds': [[[0, 0, 1]]]},
    {'node': ONE, 'conns': [[['act', ['p', 0, 0]], ['close']]], 'upds': [[[0, 0, 1]]]},
    {'node': ONE, 'conns': [[['act', ['p', 0, 0]], ['deact', ['p', 0, 0]], ['act', ['g']]]], 'upds': [[[0, 0, 1]]]},
    # two connections: scopes of the other connection are unaffected
    {'node': TWO, 'conns': [[['act', ['g']], ['deact', ['g']]], [['act', ['m', 0]]]], 'upds': [[[0, 1, 1], [1, 0, 2]]]},
    {'node': TWO, 'conns': [[['act', ['m', 0]], ['close']], [['act', ['p', 0, 1]], ['deact', ['m', 0]]]], 'upds': [[[0, 1, 1]]]},
    {'node': TWO, 'conns': [[['act', ['p', 1, 0]], ['idn']], [['act', ['g']]]], 'upds': [[[1, 0, 1]], [[0, 0, 2]]]},
    # hidden parameter / hidden module / refused requests
    {'node': HID, 'conns': [[['act', ['g']], ['act', ['m', 1]], ['act', ['p', 0, 1]]]], 'upds': [[[0, 1, 1], [1, 0, 2], [0, 0, 3]]]},
    {'node': HID, 'conns': [[['act', ['m', 0]], ['deact', ['g']], ['deact', ['m', 0], 1]], [['act', ['badmod']], ['act', ['g'], 1]]],
     'upds': [[[0, 0, 1]]]},
    # a request line with the action '_ident' is not an identification request: the scope stays
    {'node': ONE, 'conns': [[['act', ['g']], ['bogus']]], 'upds': [[[0, 0, 1]]]},
]


# a disconnect / identification of one connection inside the table operations of another one (Dispatcher.subscribe is two
# steps: lookup-or-create of the per-event set, add; reset_connection one discard per event) and vice versa
RACE = [
    {'node': ONE, 'conns': [[['act', ['m', 0]], ['close']], [['act', ['m', 0]]]], 'upds': [[[0, 0, 1]]]},
    {'node': ONE, 'conns': [[['act', ['p', 0, 0]], ['close']], [['act', ['p', 0, 0]]]], 'upds': [[[0, 0, 1]]]},
    {'node': ONE, 'conns': [[['act', ['m', 0]], ['idn']], [['act', ['m', 0]], ['close']]], 'upds': [[[0, 0, 1]]]},
    {'node': TWO, 'conns': [[['act', ['m', 0]], ['act', ['p', 0, 1]], ['close']],
                            [['act', ['p', 0, 1]], ['deact', ['p', 0, 1]], ['act', ['m', 0]]]], 'upds': [[[0, 1, 1], [0, 0, 2]]]},
    {'node': TWO, 'conns': [[['act', ['p', 1, 0]], ['close']], [['act', ['m', 1]], ['close']], [['act', ['p', 1, 0]], ['act', ['m', 1]]]],
     'upds': [[[1, 0, 1]]]},
]


# module-wide deactivate after parameter-scope activation(s): Dispatcher.unsubscribe(conn, '<module>') must discard the
# connection from every '<module>:<parameter>' set WHATEVER the history of the table - in particular on a FRESH table,
# where the bare event '<module>' has no entry because nobody ever activated it (entries are never removed, so one
# earlier `activate <module>` by anybody changes the table for good: the CONTROL scenarios).  `order` = the sequential
# order of the threads in the directed schedules (each runs until it waits for input / has finished).
UNSUB = [
    # fresh table, single connection
    {'node': ONE, 'conns': [[['act', ['p', 0, 0]], ['deact', ['m', 0]]]], 'upds': [[[0, 0, 1]]], 'order': [['c0', 'u0']]},
    # fresh table, two parameter scopes, a bystander that must stay subscribed
    {'node': TWO, 'conns': [[['act', ['p', 0, 0]], ['act', ['p', 0, 1]], ['deact', ['m', 0]]], [['act', ['p', 0, 0]]]],
     'upds': [[[0, 0, 1], [0, 1, 2]]], 'order': [['c0', 'c1', 'u0'], ['c1', 'c0', 'u0']]},
    # fresh table for module 0; the scope of the other module and a later re-activation stay / are served
    {'node': TWO, 'conns': [[['act', ['p', 1, 0]], ['act', ['p', 0, 1]], ['deact', ['m', 0]], ['act', ['p', 0, 0]]]],
     'upds': [[[1, 0, 1], [0, 1, 2], [0, 0, 3]]], 'order': [['c0', 'u0']]},
    # fresh table, the global scope of the same connection survives the module-wide deactivate
    {'node': ONE, 'conns': [[['act', ['p', 0, 0]], ['act', ['g']], ['deact', ['m', 0]]]], 'upds': [[[0, 0, 1]]], 'order': [['c0', 'u0']]},
    # CONTROL: another connection has activated (and left) the bare module before
    {'node': ONE, 'conns': [[['act', ['p', 0, 0]], ['deact', ['m', 0]]], [['act', ['m', 0]], ['deact', ['m', 0]]]],
     'upds': [[[0, 0, 1]]], 'order': [['c1', 'c0', 'u0'], ['c0', 'c1', 'u0']]},
    # CONTROL: the connection itself has activated the bare module before
    {'node': TWO, 'conns': [[['act', ['m', 0]], ['deact', ['m', 0]], ['act', ['p', 0, 1]], ['deact', ['m', 0]]]],
     'upds': [[[0, 1, 1]]], 'order': [['c0', 'u0']]},
    # CONTROL: the bare module is still active for a bystander
    {'node': ONE, 'conns': [[['act', ['p', 0, 0]], ['deact', ['m', 0]]], [['act', ['m', 0]]]], 'upds': [[[0, 0, 1]]],
     'order': [['c1', 'c0', 'u0'], ['c0', 'c1', 'u0']]},
]


def _scen(sc):
    return {k: v for k, v in sc.items() if k != 'order'}


def unsub_cases():
    """directed sequential schedules of the UNSUB scenarios: the threads one after the other (so every update is announced
    after the 'inactive' reply), and with the driver parked at its first updateLock / make_update while the connections
    run (deactivate racing with the broadcast)"""
    cases = []
    for sc in UNSUB:
        for order in sc['order']:
            cases.append(dict(_scen(sc), sched={'kind': 'segments', 'segments': [[t, None, 1] for t in order]}))
            conns = [t for t in order if t[0] == 'c']
            for k in range(1, len(sc['conns'][int(conns[-1][1:])]) + 1):
                # the last connection has received k requests, then the driver runs, then the rest
                cases.append(dict(_scen(sc), sched={'kind': 'segments', 'segments': (
                    [[t, None, 1] for t in conns[:-1]] + [[conns[-1], 'recv', k + 1], ['u0', None, 1], [conns[-1], None, 1]])}))
    return cases


def race_cases():
    """directed schedules: connection A runs until it waits for its k-th request, B until it is parked for the n-th time
    at a table operation / lock / send, then A (optionally only up to its n2-th discard, then B), then the rest"""
    cases = []
    for sc in RACE:
        nc = len(sc['conns'])
        for a in range(nc):
            for b in range(nc):
                if a == b:
                    continue
                A, B = f'c{a}', f'c{b}'
                for k in range(1, len(sc['conns'][a]) + 1):
                    for lab in ('add', 'discard', 'acquire:disp', 'send'):
                        for n in (1, 2):
                            cases.append(dict(sc, sched={'kind': 'segments', 'segments': [
                                [A, 'recv', k], [B, lab, n], [A, None, 1], [B, None, 1]]}))
                            if lab in ('add', 'discard'):
                                for n2 in (1, 2):
                                    cases.append(dict(sc, sched={'kind': 'segments', 'segments': [
                                        [A, 'recv', k], [B, lab, n], [A, 'discard', n2], [B, None, 1], [A, None, 1]]}))
    return cases


def _explore_one(args):
    """systematic depth-first enumeration of the schedules of one scenario with a preemption bound (runs the real
    code under the scheduler); returns explicit decision lists"""
    scen, bound, limit = args
    from types import SimpleNamespace
    from harness import dsched
    out = []
    try:
        def run_fn(policy):
            o = run_case(dict(scen, want_steps=True), policy=policy)
            return SimpleNamespace(status=o['status'], steps=[tuple(x) for x in (o['steps'] or [])], decisions=o['decisions'])
        seen = set()
        for _prefix, res in dsched.explore(run_fn, max_preemptions=bound, limit=limit):
            if res.status == 'ok' and tuple(res.decisions) not in seen:
                seen.add(tuple(res.decisions))
                out.append(list(res.decisions))
    except Exception:    # a changed implementation may not be explorable; the random schedules still run
        pass
    return out


def systematic_cases(bound, limit, scenarios):
    import multiprocessing as mp
    import os
    jobs = [(sc, bound, limit) for sc in scenarios]
    try:
        with mp.get_context('fork').Pool(min(int(os.environ.get('VERIF_JOBS', '16')), 16, len(jobs))) as pool:
            res = pool.map(_explore_one, jobs, chunksize=1)
    except Exception:
        res = [[] for _ in jobs]
    cases = []
    for sc, decs in zip(scenarios, res):
        for d in decs:
            cases.append(dict(sc, sched={'kind': 'explicit', 'decisions': d}))
    return cases


def gen_cases(seed, tier):
    rng = random.Random(seed * 1000003 + 8)
    n = {'quick': 2200, 'thorough': 15000, 'search': 15000}[tier]
    cases = [rand_case(rng) for _ in range(n)]
    # the racing scenarios also under many random schedules
    for sc in SCENARIOS + RACE + [_scen(x) for x in UNSUB]:
        for _ in range(40 if tier == 'quick' else 400):
            cases.append(dict(sc, sched=rand_sched(rng)))
    cases.extend(unsub_cases())
    cases.extend(race_cases())
    # systematic enumeration: the racing scenarios and the single-connection fresh-table deactivate
    if tier == 'quick':
        cases.extend(systematic_cases(2, 150, SCENARIOS + [_scen(UNSUB[0])]))
    else:
        cases.extend(systematic_cases(3, 2500, SCENARIOS + [_scen(UNSUB[0])]))
    return cases


def shrink(case):
    conns, upds = case['conns'], case['upds']
    if case['sched']['kind'] in ('explicit', 'segments'):
        return
    for i in range(len(conns)):
        if len(conns) > 1:
            yield dict(case, conns=conns[:i] + conns[i + 1:])
        for j in range(len(conns[i]) - 1, -1, -1):
            yield dict(case, conns=conns[:i] + [conns[i][:j] + conns[i][j + 1:]] + conns[i + 1:])
    for i in range(len(upds)):
        yield dict(case, upds=upds[:i] + upds[i + 1:])
        for j in range(len(upds[i]) - 1, -1, -1):
            if len(upds[i]) > 1:
                yield dict(case, upds=upds[:i] + [upds[i][:j] + upds[i][j + 1:]] + upds[i + 1:])
