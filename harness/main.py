"""./check — decision procedure shared by all properties (DESIGN.md section 5)"""
import hashlib
import importlib
import json
import multiprocessing as mp
import os
import re
import subprocess
import sys
import time
import traceback

from harness import coqrun

VERIF = coqrun.VERIF
COQ = coqrun.COQ


def load_known():
    res = []
    paths = [os.path.join(VERIF, 'known_findings.json')]
    if os.environ.get('VERIF_FINDINGS'):      # development aid only (not used by registered commands)
        paths.append(os.path.join(VERIF, os.environ['VERIF_FINDINGS']))
    for path in paths:
        if os.path.exists(path):
            with open(path) as f:
                res.extend(json.load(f)['findings'])
    return res


def _worker(args):
    modname, case = args
    mod = importlib.import_module(modname)
    try:
        return mod.run_case(case)
    except BaseException as e:  # harness problem, not an observation
        return {'__harness_error__': f'{type(e).__name__}: {e}', 'tb': traceback.format_exc()[-1500:]}


# ---- line coverage of the modelled functions (the functions named in translator FINGERPRINTS) during the runs of the
# ---- implementation: evidence only, never part of a verdict
_COV = {'files': None, 'seen': set(), 'sent': set(), 'on': False}


def modelled_lines(P):
    """{label: (absolute file, sorted executable body lines)} of the functions fingerprinted for this property"""
    import ast
    import translator
    try:
        mod = importlib.import_module(f'translator.facts_{P.ID}')
    except Exception:
        return {}
    res = {}
    codes = {}
    for label, getter in getattr(mod, 'FINGERPRINTS', {}).items():
        try:
            node = getter()
        except Exception:
            continue
        if not isinstance(node, (ast.FunctionDef, ast.AsyncFunctionDef)):
            continue
        path = None
        for pth, tree in list(translator._cache.items()):
            if any(n is node for n in ast.walk(tree)):
                path = pth
                break
        if path is None:
            continue
        if path not in codes:
            try:
                with open(path, encoding='utf-8') as f:
                    codes[path] = compile(f.read(), path, 'exec')
            except Exception:
                continue
        first, last = node.lineno, node.end_lineno
        skip = set(range(min([d.lineno for d in node.decorator_list] + [first]), first + 1))
        b0 = node.body[0]
        if isinstance(b0, ast.Expr) and isinstance(b0.value, ast.Constant) and isinstance(b0.value.value, str):
            skip |= set(range(b0.lineno, b0.end_lineno + 1))
        lines = set()
        stack = [codes[path]]
        while stack:
            co = stack.pop()
            stack.extend(c for c in co.co_consts if hasattr(c, 'co_lines'))
            if co.co_name == '<module>':
                continue
            for _, _, ln in co.co_lines():
                if ln is not None and first <= ln <= last and first <= co.co_firstlineno <= last:
                    lines.add(ln)
        res[label] = (path, sorted(lines - skip))
    return res


def _cov_start(files):
    if _COV['on'] or not files:
        return
    mon = getattr(sys, 'monitoring', None)
    if mon is None:
        return
    _COV['files'] = set(files)
    try:
        mon.use_tool_id(3, 'verif-modelled-lines')
    except ValueError:
        return
    seen, fs = _COV['seen'], _COV['files']

    def on_line(code, line):
        if code.co_filename in fs:
            seen.add((code.co_filename, line))
        return mon.DISABLE
    mon.register_callback(3, mon.events.LINE, on_line)
    mon.set_events(3, mon.events.LINE)
    _COV['on'] = True


def _worker_cov(args):
    modname, case, files = args
    try:
        _cov_start(files)
    except Exception:
        pass
    o = _worker((modname, case))
    new = _COV['seen'] - _COV['sent']
    _COV['sent'] |= new
    return o, sorted(new)


def _limit_worker():
    try:
        import resource
        cap = int(os.environ.get('VERIF_WORKER_MEM_MB', '6000')) * 1024 * 1024
        resource.setrlimit(resource.RLIMIT_AS, (cap, cap))
    except Exception:
        pass


def run_impl(P, cases, cov=None):
    """run the implementation on all cases (forked workers; frappy is imported inside them)"""
    if not cases:
        return []
    jobs = coqrun.default_jobs()
    files = []
    if cov is not None and os.environ.get('VERIF_COV', '1') != '0':
        files = sorted({v[0] for v in cov['lines'].values()})
    if getattr(P, 'SERIAL', False) or len(cases) < 8 or jobs == 1:
        res = [_worker_cov((P.__name__, c, files)) for c in cases]
        if cov is not None:
            for _, new in res:
                cov['seen'].update(map(tuple, new))
        return [o for o, _ in res]
    ctx = mp.get_context('fork')
    # workers are recycled after a few chunks and capped in address space, so that a leak in a property's driver
    # cannot exhaust the machine (checks of several properties may run at the same time)
    with ctx.Pool(min(jobs, 16), initializer=_limit_worker, maxtasksperchild=2) as pool:
        res = pool.map(_worker_cov, [(P.__name__, c, files) for c in cases], chunksize=max(1, len(cases) // (jobs * 8)))
    if cov is not None:
        for _, new in res:
            cov['seen'].update(map(tuple, new))
    return [o for o, _ in res]


def case_hash(obj):
    return hashlib.sha256(json.dumps(obj, sort_keys=True, default=str).encode()).hexdigest()[:12]


def write_replay(P, kind, payload):
    os.makedirs(os.path.join(VERIF, 'replays'), exist_ok=True)
    payload = dict(payload, property=P.ID, kind=kind)
    path = os.path.join(VERIF, 'replays', f'{P.ID}-{kind}-{case_hash(payload)}.json')
    with open(path, 'w') as f:
        json.dump(payload, f, indent=1, default=str)
    return path


def classify(P, known, case, obs, failure):
    """name of the open known finding that covers this failure, or None"""
    for k in known:
        if k['property'] != P.ID or k.get('status') != 'open':
            continue
        fn = P.FINDING_CLASSIFIERS.get(k['classifier'])
        if fn is None:
            continue
        try:
            if fn(case, obs, failure):
                return k['id']
        except Exception:
            pass
    return None


def shrink(P, known, case, obs, failure):
    """greedy shrinking with the property's own candidate generator"""
    cand_fn = getattr(P, 'shrink', None)
    if cand_fn is None:
        return case, obs, failure
    budget = 300
    progress = True
    while progress and budget > 0:
        progress = False
        for c2 in cand_fn(case):
            budget -= 1
            if budget <= 0:
                break
            o2 = _worker((P.__name__, c2))
            if '__harness_error__' in o2:
                continue
            f2 = [f for f in P.oracle(c2, o2) if f['class'] == failure['class']
                  and classify(P, known, c2, o2, f) is None]
            if f2:
                case, obs, failure = c2, o2, f2[0]
                progress = True
                break
    return case, obs, failure


def proof_targets(P):
    """PROOF_TARGETS of the property plus its NonVacuity.vo (examples applying every premise-carrying theorem to a
    concrete instance) when the property is listed in coq/nonvacuity.list"""
    t = list(P.PROOF_TARGETS)
    lst = os.path.join(COQ, 'nonvacuity.list')
    if os.path.exists(lst) and P.ID in open(lst).read().split() \
            and os.path.exists(os.path.join(COQ, 'theories', P.ID, 'NonVacuity.v')):
        t.append(f'theories/{P.ID}/NonVacuity.vo')
    return t


def build(P, log):
    """translator + make + explicit re-check of Properties.v.  Returns dict"""
    import translator
    res = {'translator_failures': [], 'facts': 0, 'model_ok': False, 'proofs_ok': False,
           'theorems': 0, 'closed': 0, 'axioms': [], 'broken': [], 'fingerprints': {}}
    with coqrun.BuildLock():
        _, nfacts, failures, fps = translator.generate(P.ID)
        for extra in getattr(P, 'EXTRA_GEN', []):
            _, n2, f2, fp2 = translator.generate(extra)
            nfacts += n2
            failures += f2
            fps.update(fp2)
        res['facts'] = nfacts + len(failures)
        res['translator_failures'] = failures
        res['fingerprints'] = fps
        for name, why in failures:
            res['broken'].append(f'translator fact {name}: {why}')
        ok, out = coqrun.make(P.MODEL_TARGETS)
        res['model_ok'] = ok
        if not ok:
            res['broken'].append('model does not build: ' + out[-1500:])
            log(out[-3000:])
        ok2, out2 = coqrun.make(proof_targets(P))
        if not ok2:
            res['broken'].append('proof obligations do not build: ' + out2[-1500:])
            log(out2[-3000:])
        # always re-check the Properties file itself and collect Print Assumptions
        props_v = P.PROPERTIES_V
        with open(os.path.join(COQ, props_v)) as f:
            txt = f.read()
        res['theorems'] = len(re.findall(r'^\s*(Theorem|Lemma|Corollary)\s', txt, re.M))
        nvp = os.path.join(COQ, 'theories', P.ID, 'NonVacuity.v')
        res['nonvacuity_examples'] = 0
        if f'theories/{P.ID}/NonVacuity.vo' in proof_targets(P):
            with open(nvp) as f:
                res['nonvacuity_examples'] = len(re.findall(r'^\s*(Example|Lemma|Theorem)\s', f.read(), re.M))
        if ok2:
            tmp = coqrun.workdir(f'{P.ID}-props')
            cmd = ['timeout', '600', 'coqc', '-Q', 'theories', 'FV', '-w', 'none', props_v,
                   '-o', os.path.join(tmp, 'Properties.vo')]
            p = subprocess.run(cmd, cwd=COQ, stdout=subprocess.PIPE, stderr=subprocess.STDOUT, text=True)
            res['checker_cmd'] = 'cd /verif/coq && make -j16 ' + ' '.join(proof_targets(P)) + ' && ' + \
                ' '.join(cmd[2:8]) + ' ' + props_v
            import shutil
            shutil.rmtree(tmp, ignore_errors=True)
            if p.returncode == 0:
                res['proofs_ok'] = True
                res['closed'], res['axioms'] = coqrun.print_assumptions(p.stdout)
            else:
                res['broken'].append('Properties.v does not check: ' + p.stdout[-1500:])
                log(p.stdout[-3000:])
    return res


def strip_comments(text):
    """remove (possibly nested) Coq comments, keeping line structure"""
    out = []
    depth = 0
    i = 0
    in_str = False
    while i < len(text):
        c2 = text[i:i + 2]
        if depth == 0 and text[i] == '"':
            in_str = not in_str
            out.append(text[i])
            i += 1
        elif not in_str and c2 == '(*':
            depth += 1
            i += 2
        elif not in_str and depth > 0 and c2 == '*)':
            depth -= 1
            i += 2
        else:
            if depth == 0 or text[i] == '\n':
                out.append(text[i])
            i += 1
    return ''.join(out)


GATE_CMD = re.compile(r'^\s*(#\[[^\]]*\]\s*)?((Local|Global|Polymorphic|Monomorphic|Program)\s+)*'
                      r'(Axiom|Axioms|Parameter|Parameters|Conjecture|Conjectures|Admitted|Admit\s+Obligations|'
                      r'Variable|Variables|Hypothesis|Hypotheses|Context)\b')
GATE_ANY = re.compile(r'\badmit\b|\bAdmitted\b|Unset\s+Guard|bypass_check|type-in-type|impredicative-set|'
                      r'Unset\s+Universe\s+Checking|Unset\s+Positivity')


def gate_no_axioms(dirs=None):
    """grep gate: no Axiom/Parameter/Conjecture/Admitted/admit, no Variable/Hypothesis outside a Section,
    no switched-off checks in the hand-written development (dirs: sub-directories of theories; None = all)"""
    bad = []
    root0 = os.path.join(COQ, 'theories')
    for root, _, files in os.walk(root0):
        rel = os.path.relpath(root, root0).split(os.sep)[0]
        if dirs is not None and rel not in dirs:
            continue
        for fn in files:
            if not fn.endswith('.v'):
                continue
            p = os.path.join(root, fn)
            with open(p) as f:
                code = strip_comments(f.read())
            depth = 0
            for i, line in enumerate(code.split('\n'), 1):
                if re.match(r'\s*Section\b', line):
                    depth += 1
                if re.match(r'\s*End\b', line) and depth:
                    depth -= 1
                m = GATE_CMD.match(line)
                if m:
                    w = m.group(4)
                    if w in ('Variable', 'Variables', 'Hypothesis', 'Hypotheses', 'Context') and depth > 0:
                        continue
                    bad.append(f'{os.path.relpath(p, COQ)}:{i}: {w}')
                m = GATE_ANY.search(line)
                if m:
                    bad.append(f'{os.path.relpath(p, COQ)}:{i}: {m.group(0)}')
    return bad


def check(P, tier, seed):
    t0 = time.time()
    logs = []
    known = load_known()
    B = build(P, logs.append)
    broken = list(B['broken'])
    gate = gate_no_axioms(['Base', 'Gen', P.ID] + list(getattr(P, 'COQ_DIRS', [])))
    if gate:
        broken.append('forbidden declarations: ' + '; '.join(gate[:10]))

    # escalation when a modelled function changed (never a violation by itself)
    lock_path = os.path.join(COQ, 'fingerprints.lock')
    lock = json.load(open(lock_path)) if os.path.exists(lock_path) else {}
    changed = [k for k, v in B['fingerprints'].items() if lock.get(P.ID, {}).get(k) != v]
    eff_tier = tier
    if changed and tier == 'quick' and lock.get(P.ID):
        eff_tier = 'thorough'

    # corpus first, then generated cases
    cases = []
    cdir = os.path.join(VERIF, 'corpus', P.ID)
    if os.path.isdir(cdir):
        for fn in sorted(os.listdir(cdir)):
            if fn.endswith('.json'):
                with open(os.path.join(cdir, fn)) as f:
                    c = json.load(f)
                cases.extend(c if isinstance(c, list) else [c])
    n_corpus = len(cases)
    if eff_tier == 'thorough' and tier == 'quick':
        # escalation: a modelled function changed -> three quick budgets with different seeds
        eff_tier = 'quick-escalated'
        for k in range(3):
            cases.extend(P.gen_cases(seed + 1000 * k, 'quick'))
    else:
        cases.extend(P.gen_cases(seed, eff_tier))
    try:
        cov = {'lines': modelled_lines(P), 'seen': set()}
    except Exception:
        cov = None
    obs = run_impl(P, cases, cov)

    violations = []      # (case, obs, failure)
    known_hits = {}
    harness_errors = []
    enc = []
    enc_idx = []
    nontrivial = set()
    outcome_hist = {}
    for i, (c, o) in enumerate(zip(cases, obs)):
        if '__harness_error__' in o:
            harness_errors.append((i, o))
            continue
        for f in P.oracle(c, o):
            kid = classify(P, known, c, o, f)
            if kid:
                known_hits[kid] = known_hits.get(kid, 0) + 1
            else:
                violations.append((c, o, f))
        k = P.nontrivial_key(c, o)
        if k is not None:
            nontrivial.add(k)
        for lab in getattr(P, 'outcome_labels', lambda c, o: [])(c, o):
            outcome_hist[lab] = outcome_hist.get(lab, 0) + 1
        if B['model_ok']:
            try:
                enc.append(P.encode(c, o))
                enc_idx.append(i)
            except Exception as e:
                harness_errors.append((i, {'__harness_error__': f'encode: {type(e).__name__}: {e}'}))
    mism, shard_errors = [], []
    if B['model_ok'] and enc:
        mism, shard_errors, _ = coqrun.run_shards(P.ID, enc, P.IMPORTS, P.CASE_TYPE, P.CHECK,
                                                  shard_size=getattr(P, 'SHARD_SIZE', 300))
        mism = [enc_idx[j] for j in mism]
    if harness_errors:
        broken.append(f'{len(harness_errors)} cases could not be run/encoded, first: '
                      f'{harness_errors[0][1]["__harness_error__"]}')
    if shard_errors:
        broken.append('correspondence shards failed: ' + shard_errors[0][-800:])
    if mism:
        broken.append(f'correspondence: model and implementation differ on {len(mism)} of {len(enc)} cases')

    out_lines = []
    replay_paths = []
    exit_code = 0

    # unlisted violations found directly
    seen_classes = set()
    for c, o, f in violations:
        if f['class'] in seen_classes:
            continue
        seen_classes.add(f['class'])
        c2, o2, f2 = shrink(P, known, c, o, f)
        path = write_replay(P, 'case', {'seed': seed, 'case': c2, 'observed': o2, 'failure': f2,
                                        'broken_obligations': broken[:5]})
        replay_paths.append(path)
        out_lines.append(f'VIOLATION property={P.ID} replay={path}')
        exit_code = 1

    searched = 0
    if broken and not violations:
        # F: targeted search for a concrete failing input
        found = None
        # (i) the mismatching cases themselves and their neighbourhood, (ii) thorough-budget generation
        extra = []
        if hasattr(P, 'search_cases'):
            extra = P.search_cases(seed, [cases[i] for i in mism[:50]])
        else:
            extra = P.gen_cases(seed + 7919, 'thorough' if tier == 'quick' else 'search')
        searched = len(extra)
        eobs = run_impl(P, extra)
        for c, o in zip(extra, eobs):
            if '__harness_error__' in o:
                continue
            fs = [f for f in P.oracle(c, o) if classify(P, known, c, o, f) is None]
            if fs:
                found = (c, o, fs[0])
                break
        if found:
            c2, o2, f2 = shrink(P, known, *found)
            path = write_replay(P, 'case', {'seed': seed, 'case': c2, 'observed': o2, 'failure': f2,
                                            'broken_obligations': broken[:5]})
            out_lines.append(f'VIOLATION property={P.ID} replay={path}')
        else:
            detail = {'seed': seed, 'broken_obligations': broken,
                      'mismatching_cases': [{'case': cases[i], 'observed': obs[i]} for i in mism[:5]],
                      'searched_cases': searched}
            if mism and B['model_ok']:
                try:
                    terms = [P.model_result_term(cases[i], obs[i]) for i in mism[:3]] \
                        if hasattr(P, 'model_result_term') else []
                    if terms:
                        detail['model_results'] = coqrun.eval_terms(P.ID, P.IMPORTS, terms)[0]
                except Exception as e:
                    detail['model_results'] = f'unavailable: {e}'
            path = write_replay(P, 'obligation', detail)
            out_lines.append(f'VIOLATION property={P.ID} replay={path} no-failing-input-found')
        replay_paths.append(path)
        exit_code = 1

    for k in known:
        if k['property'] == P.ID and k.get('status') == 'open':
            out_lines.append(f"KNOWN-FINDING: property={P.ID} {k['id']}: {k['what']}"
                             f" (reproduced {known_hits.get(k['id'], 0)}x in this run)")

    obligations = B['theorems'] + B['facts'] + 1
    discharged = (B['theorems'] if B['proofs_ok'] else 0) + (B['facts'] - len(B['translator_failures'])) + \
        (1 if (B['model_ok'] and not mism and not shard_errors and not harness_errors) else 0)
    samples = []
    for i in list(range(min(2, len(cases)))) + ([n_corpus] if n_corpus < len(cases) else []):
        if '__harness_error__' not in obs[i]:
            samples.append(P.sample_repr(cases[i], obs[i]))
    tb = ['Coq 8.16.1 kernel + vm_compute (no native_compute)',
          'translator/facts_%s.py (python ast -> Gen/%s.v)' % (P.ID, P.ID),
          'harness/props/%s.py (impl driver, case encoder, canonicaliser)' % P.ID]
    tb += ['axiom (stdlib): ' + a for a in B['axioms']]
    if B['proofs_ok'] and not B['axioms']:
        tb.append('Print Assumptions: all %d property theorems closed under the global context' % B['closed'])
    ev = {
        'property_id': P.ID, 'tier': tier, 'seed': seed, 'level': 'proof',
        'coverage': {
            'obligations': obligations, 'discharged': discharged,
            'checker_cmd': B.get('checker_cmd', 'cd /verif/coq && make ' + ' '.join(P.PROOF_TARGETS)),
            'trusted_base': tb,
            'theorems_in_Properties_v': B['theorems'],
            'translator_facts': B['facts'],
            'nonvacuity_examples_checked': B.get('nonvacuity_examples', 0),
            'evaluations': len(cases) + searched,
            'distinct_nontrivial': len(nontrivial),
            'rule': P.RULE,
            'samples': samples,
            'traces_validated_against_impl': len(enc) - len(mism),
            'correspondence_mismatches': len(mism),
            'corpus_cases': n_corpus,
            'outcome_histogram': outcome_hist,
            'effective_tier': eff_tier,
            'changed_fingerprints': changed,
            'broken_obligations': broken,
            'known_findings_reproduced': known_hits,
            'stale_findings': [k['id'] for k in known if k['property'] == P.ID and k.get('status') == 'open'
                               and k['id'] not in known_hits],
        },
        'assumptions': P.ASSUMPTIONS,
        'wall_s': round(time.time() - t0, 2),
        'violations': len(violations) + (1 if (broken and not violations) else 0),
    }
    if cov and cov['lines']:
        # which lines of the modelled (fingerprinted) functions the implementation runs of this check executed
        per = {}
        tot = hit = 0
        for label, (path, lines) in sorted(cov['lines'].items()):
            got = [ln for ln in lines if (path, ln) in cov['seen']]
            tot += len(lines)
            hit += len(got)
            per[label] = {'file': os.path.relpath(path, os.environ.get('VERIF_REPO', '/repo')), 'lines': len(lines),
                          'executed': len(got), 'not_executed': [ln for ln in lines if (path, ln) not in cov['seen']][:40]}
        ev['coverage']['modelled_function_lines'] = {'total': tot, 'executed': hit, 'per_function': per}
    if hasattr(P, 'extra_evidence'):
        ev['coverage'].update(P.extra_evidence(cases, obs))
    # development runs against a scratch copy (VERIF_REPO) must not overwrite the evidence of /repo
    evdir = os.path.join(VERIF, 'evidence') if os.environ.get('VERIF_REPO', '/repo') == '/repo' \
        else os.path.join(VERIF, '.work', 'evidence-scratch')
    os.makedirs(evdir, exist_ok=True)
    with open(os.path.join(evdir, f'{P.ID}.json'), 'w') as f:
        json.dump(ev, f, indent=1, default=str)
    for ln in out_lines:
        print(ln)
    print(f'{P.ID} {tier}: obligations {discharged}/{obligations}, cases {len(cases)}, '
          f'mismatches {len(mism)}, violations {ev["violations"]}, {ev["wall_s"]}s')
    if exit_code and logs:
        sys.stderr.write('\n'.join(logs)[-4000:] + '\n')
    return exit_code


def replay(P, path):
    with open(path) as f:
        r = json.load(f)
    known = load_known()
    if r['kind'] == 'case':
        o = _worker((P.__name__, r['case']))
        if '__harness_error__' in o:
            print('harness error:', o['__harness_error__'])
            print(f'VIOLATION property={P.ID} replay={path}')
            return 1
        fs = [f for f in P.oracle(r['case'], o) if classify(P, known, r['case'], o, f) is None]
        print(json.dumps({'observed': o, 'failures': fs}, indent=1, default=str))
        if fs:
            print(f'VIOLATION property={P.ID} replay={path}')
            return 1
        return 0
    B = build(P, lambda s: None)
    if B['broken']:
        print('\n'.join(B['broken'])[:3000])
        print(f'VIOLATION property={P.ID} replay={path} no-failing-input-found')
        return 1
    return 0


def setup():
    """build, from files on disk, everything the claimed checks need (the properties listed in tools/claimed.json)"""
    import translator
    with open(os.path.join(VERIF, 'tools', 'claimed.json')) as f:
        props = sorted(json.load(f))
    ok_all = True
    with coqrun.BuildLock():
        targets = []
        for p in props:
            P = importlib.import_module(f'harness.props.{p}')
            for g in [p] + list(getattr(P, 'EXTRA_GEN', [])):
                _, n, fails, _ = translator.generate(g)
                if fails:
                    print(f'translator {g}: {fails}')
                    ok_all = False
            targets += P.MODEL_TARGETS + proof_targets(P)
        ok, out = coqrun.make(sorted(set(targets)), timeout=3000)
        print(out[-3000:])
    bad = gate_no_axioms(['Base', 'Gen'] + props)
    if bad:
        print('forbidden declarations:', bad)
    return 0 if ok and ok_all and not bad else 1


def main(argv):
    if len(argv) >= 1 and argv[0] == 'setup':
        return setup()
    if len(argv) < 2:
        print(__doc__)
        return 2
    P = importlib.import_module(f'harness.props.{argv[0]}')
    if argv[1] == '--replay':
        return replay(P, argv[2])
    tier = argv[1]
    seed = int(os.environ.get('VERIF_SEED', '1'))
    return check(P, tier, seed)


if __name__ == '__main__':
    sys.exit(main(sys.argv[1:]))
