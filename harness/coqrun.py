"""build the Coq development and evaluate generated case shards with vm_compute"""
import fcntl
import os
import re
import shutil
import subprocess
import time

VERIF = os.path.dirname(os.path.dirname(os.path.abspath(__file__)))
COQ = os.path.join(VERIF, 'coq')
WORK = os.path.join(VERIF, '.work')
def default_jobs():
    """VERIF_JOBS if set; else 16 scaled down when the machine is already busy (several checks running at once)"""
    if os.environ.get('VERIF_JOBS'):
        return max(1, int(os.environ['VERIF_JOBS']))
    try:
        load = os.getloadavg()[0]
    except OSError:
        load = 0.0
    return max(4, min(16, int(20 - load)))


NPROC = default_jobs()


class BuildLock:
    def __enter__(self):
        os.makedirs(WORK, exist_ok=True)
        self.f = open(os.path.join(WORK, 'build.lock'), 'w')
        fcntl.flock(self.f, fcntl.LOCK_EX)
        return self

    def __exit__(self, *a):
        fcntl.flock(self.f, fcntl.LOCK_UN)
        self.f.close()


def ensure_makefile():
    mk = os.path.join(COQ, 'Makefile')
    vs = []
    for root, _, files in os.walk(os.path.join(COQ, 'theories')):
        for f in files:
            if f.endswith('.v'):
                vs.append(os.path.relpath(os.path.join(root, f), COQ))
    vs.sort()
    listing = os.path.join(COQ, '.filelist')
    old = open(listing).read() if os.path.exists(listing) else None
    new = '\n'.join(vs)
    if old != new or not os.path.exists(mk):
        with open(os.path.join(COQ, '_CoqProject')) as f:
            head = f.read()
        with open(os.path.join(COQ, '_CoqProject.all'), 'w') as f:
            f.write(head + '\n' + new + '\n')
        subprocess.run(['coq_makefile', '-f', '_CoqProject.all', '-o', 'Makefile'], cwd=COQ, check=True,
                       stdout=subprocess.DEVNULL)
        with open(listing, 'w') as f:
            f.write(new)


def make(targets, timeout=600):
    """returns (ok, output)"""
    ensure_makefile()
    cmd = ['timeout', str(timeout), 'make', f'-j{NPROC}', '--no-print-directory'] + targets
    p = subprocess.run(cmd, cwd=COQ, stdout=subprocess.PIPE, stderr=subprocess.STDOUT, text=True)
    return p.returncode == 0, p.stdout


def print_assumptions(output):
    """parse `Print Assumptions` blocks of a make output -> {theorem-ish index: [axioms]} (flat set of axiom names)"""
    axioms = set()
    closed = 0
    lines = output.splitlines()
    i = 0
    while i < len(lines):
        ln = lines[i]
        if ln.startswith('Closed under the global context'):
            closed += 1
        elif ln.startswith('Axioms:'):
            i += 1
            # each axiom: its name at column 0, then ` : type` on the same or on following (indented) lines
            while i < len(lines) and (lines[i].startswith(' ') or re.match(r'^[A-Za-z_][\w.\']*(\s*:|\s*$)', lines[i])):
                m = re.match(r'^([A-Za-z_][\w.\']*)(\s*:|\s*$)', lines[i])
                if m:
                    axioms.add(m.group(1))
                i += 1
            continue
        i += 1
    return closed, sorted(axioms)


def workdir(tag):
    d = os.path.join(WORK, f'{tag}-{os.getpid()}')
    shutil.rmtree(d, ignore_errors=True)
    os.makedirs(d)
    return d


SHARD_HEAD = '''From Coq Require Import List ZArith NArith Bool String.
Import ListNotations.
Require Import FV.Base.Util.
{imports}
Definition cases : list {case_type} := [
{cases}
].
Definition result := Eval vm_compute in (mismatches {check} cases).
Print result.
'''


def run_shards(prop, encoded, imports, case_type, check, shard_size=300, timeout=600, tag='corr'):
    """encoded: list of Gallina terms.  Returns (mismatching global indices, errors[list of str], wall)"""
    t0 = time.time()
    d = workdir(f'{prop}-{tag}')
    files = []
    for k in range(0, len(encoded), shard_size):
        chunk = encoded[k:k + shard_size]
        name = f'shard_{k // shard_size:04d}'
        with open(os.path.join(d, name + '.v'), 'w') as f:
            f.write(SHARD_HEAD.format(imports=imports, case_type=case_type, check=check,
                                      cases=';\n'.join(chunk)))
        files.append((name, k))
    procs = []
    mism, errors = [], []
    pending = list(files)
    running = []

    def launch(name, base):
        p = subprocess.Popen(
            ['bash', '-c', f'ulimit -s unlimited 2>/dev/null; exec timeout {timeout} coqc -Q {COQ}/theories FV -w none {name}.v'],
            cwd=d, stdout=subprocess.PIPE, stderr=subprocess.STDOUT, text=True)
        running.append((p, name, base))

    while pending or running:
        while pending and len(running) < NPROC:
            launch(*pending.pop(0))
        p, name, base = running.pop(0)
        out, _ = p.communicate()
        m = re.search(r'result\s*=\s*\[(.*?)\]\s*:\s*list nat', out, re.S)
        if p.returncode != 0 or not m:
            errors.append(f'{name}: exit {p.returncode}: {out[-600:]}')
            continue
        body = m.group(1).strip()
        if body:
            for tok in body.split(';'):
                tok = tok.strip().replace('%nat', '')
                if tok:
                    mism.append(base + int(tok))
    if not errors and not os.environ.get('VERIF_KEEP'):
        shutil.rmtree(d, ignore_errors=True)
    return sorted(mism), errors, time.time() - t0


def eval_terms(prop, imports, terms, timeout=300, tag='eval'):
    """evaluate Gallina terms with vm_compute, returns list of printed strings (for diagnosis)"""
    d = workdir(f'{prop}-{tag}')
    body = ['From Coq Require Import List ZArith NArith Bool String.', 'Import ListNotations.',
            'Require Import FV.Base.Util.', imports]
    for i, t in enumerate(terms):
        body.append(f'Definition r{i} := Eval vm_compute in ({t}).')
        body.append(f'Print r{i}.')
    with open(os.path.join(d, 'ev.v'), 'w') as f:
        f.write('\n'.join(body) + '\n')
    p = subprocess.run(['bash', '-c', f'ulimit -s unlimited 2>/dev/null; exec timeout {timeout} coqc -Q {COQ}/theories FV -w none ev.v'],
                       cwd=d, stdout=subprocess.PIPE, stderr=subprocess.STDOUT, text=True)
    out = p.stdout
    res = re.split(r'^r\d+\s*=\s*', out, flags=re.M)[1:]
    shutil.rmtree(d, ignore_errors=True)
    return [' '.join(r.split()) for r in res], (p.returncode, out[-800:] if p.returncode else '')
