"""shared by C01/C02/C03: datatype descriptors <-> frappy datatypes <-> Gallina `dtype` terms,
tagged python values <-> python objects <-> Gallina `pyval` terms, type-directed generators.

Descriptor (JSON-able):
  {'t':'float','min':F,'max':F,'abs':F,'rel':F}   F = tagged float (see enc_float)
  {'t':'int','min':int,'max':int}
  {'t':'scaled','scale':F,'min':F,'max':F}       (min/max: scaled float limits)
  {'t':'bool'} {'t':'enum','members':[[name,int],...]}
  {'t':'string','min':int,'max':int,'utf8':bool} {'t':'blob','min':int,'max':int}
  {'t':'array','elem':D,'min':int,'max':int} {'t':'tuple','elems':[D,...]}
  {'t':'struct','members':[[name,D],...],'optional':[name,...],'client':bool}
Tagged values:
  ['none'] ['bool',b] ['int',str] ['float',F] ['str',[cp..]] ['bytes',[b..]] ['list',[..]] ['tuple',[..]]
  ['dict',[[keystr_cps, v],..]] ['enum', name_cps, int] ['opaque']
"""
import math
import struct
import sys

from harness import gal

FMAX = sys.float_info.max


# ---------------------------------------------------------------- floats
def enc_float(x):
    """python float -> JSON-able exact representation"""
    if x != x:
        return 'nan'
    if x == math.inf:
        return 'inf'
    if x == -math.inf:
        return '-inf'
    if x == 0:
        return '-0' if math.copysign(1.0, x) < 0 else '0'
    m, e = math.frexp(x)
    mi = int(m * (1 << 53))
    ee = e - 53
    while mi % 2 == 0:
        mi //= 2
        ee += 1
    return [mi, ee]


def dec_float(t):
    if t == 'nan':
        return math.nan
    if t == 'inf':
        return math.inf
    if t == '-inf':
        return -math.inf
    if t == '0':
        return 0.0
    if t == '-0':
        return -0.0
    return math.ldexp(t[0], t[1])


def gal_float(t):
    if t == 'nan':
        return 'fnan'
    if t == 'inf':
        return '(finf false)'
    if t == '-inf':
        return '(finf true)'
    if t == '0':
        return 'fzero'
    if t == '-0':
        return 'fnegzero'
    return f'(fmk ({t[0]})%Z ({t[1]})%Z)'


# ---------------------------------------------------------------- values
def cps(s):
    return [ord(c) for c in s]


def from_cps(l):
    return ''.join(chr(c) for c in l)


class Opaque:
    def __repr__(self):
        return '<opaque>'


class EnumVal:
    """printable stand-in for an EnumMember on the harness side"""
    def __init__(self, name, value):
        self.name, self.value = name, value

    def __eq__(self, other):
        return isinstance(other, EnumVal) and (self.name, self.value) == (other.name, other.value)

    def __hash__(self):
        return hash((self.name, self.value))

    def __repr__(self):
        return f'<{self.name}={self.value}>'


def tag(v):
    """python object -> tagged value"""
    from frappy.lib.enum import EnumMember
    if v is None:
        return ['none']
    if isinstance(v, bool):
        return ['bool', v]
    if isinstance(v, EnumMember):
        return ['enum', cps(v.name), int(v.value)]
    if isinstance(v, int):
        return ['int', str(v)]
    if isinstance(v, float):
        return ['float', enc_float(v)]
    if isinstance(v, str):
        return ['str', cps(v)]
    if isinstance(v, bytes):
        return ['bytes', list(v)]
    if isinstance(v, list):
        return ['list', [tag(x) for x in v]]
    if isinstance(v, tuple):
        return ['tuple', [tag(x) for x in v]]
    if isinstance(v, dict):
        if all(isinstance(k, str) for k in v):
            return ['dict', [[cps(k), tag(x)] for k, x in v.items()]]
        return ['opaque']
    return ['opaque']


def untag(t):
    k = t[0]
    if k == 'none':
        return None
    if k == 'bool':
        return bool(t[1])
    if k == 'int':
        return int(t[1])
    if k == 'float':
        return dec_float(t[1])
    if k == 'str':
        return from_cps(t[1])
    if k == 'bytes':
        return bytes(t[1])
    if k == 'list':
        return [untag(x) for x in t[1]]
    if k == 'tuple':
        return tuple(untag(x) for x in t[1])
    if k == 'dict':
        return {from_cps(kk): untag(x) for kk, x in t[1]}
    if k == 'opaque':
        return Opaque()
    if k == 'enum':
        return EnumVal(from_cps(t[1]), t[2])
    raise ValueError(t)


def gal_str(l):
    return gal.lst(l, gal.N)


def gal_val(t):
    k = t[0]
    if k == 'none':
        return 'PNone'
    if k == 'bool':
        return f'(PBool {gal.boolean(t[1])})'
    if k == 'int':
        return f'(PInt ({int(t[1])})%Z)'
    if k == 'float':
        return f'(PFloat {gal_float(t[1])})'
    if k == 'str':
        return f'(PStr {gal_str(t[1])})'
    if k == 'bytes':
        return f'(PBytes {gal_str(t[1])})'
    if k == 'list':
        return f'(PList {gal.lst(t[1], gal_val)})'
    if k == 'tuple':
        return f'(PTuple {gal.lst(t[1], gal_val)})'
    if k == 'dict':
        return '(PDict %s)' % gal.lst(t[1], lambda p: f'({gal_str(p[0])}, {gal_val(p[1])})')
    if k == 'enum':
        return f'(PEnum {gal_str(t[1])} ({t[2]})%Z)'
    if k == 'opaque':
        return 'POpaque'
    raise ValueError(t)


def strings_in(t, acc):
    """all str/bytes leaves of a tagged value: [(is_bytes, content)]"""
    k = t[0]
    if k == 'str':
        acc.append((False, tuple(t[1])))
        for c in t[1]:                      # iterating a str yields its characters
            acc.append((False, (c,)))
    elif k == 'bytes':
        acc.append((True, tuple(t[1])))
    elif k in ('list', 'tuple'):
        for x in t[1]:
            strings_in(x, acc)
    elif k == 'dict':
        for kk, x in t[1]:
            strings_in(['str', kk], acc)    # iterating a dict yields its keys
            strings_in(x, acc)
    return acc


def pyenv_for(values):
    """CPython's int() and b64decode() on every str/bytes leaf, as data (the model's oracles)"""
    from base64 import b64decode
    seen = []
    for v in values:
        strings_in(v, seen)
    ints, b64s = [], []
    for isb, content in sorted(set(seen)):
        obj = bytes(content) if isb else from_cps(content)
        try:
            ints.append((isb, list(content), int(obj)))
        except Exception:
            pass
        try:
            b64s.append((isb, list(content), list(b64decode(obj, validate=True))))
        except Exception:
            pass
    return {'int_of': ints, 'b64_of': b64s}


def gal_pyenv(env):
    i = gal.lst(env['int_of'], lambda p: f'({gal.boolean(p[0])}, {gal_str(p[1])}, ({p[2]})%Z)')
    b = gal.lst(env['b64_of'], lambda p: f'({gal.boolean(p[0])}, {gal_str(p[1])}, {gal_str(p[2])})')
    return '{| int_of := %s; b64_of := %s |}' % (i, b)


# ---------------------------------------------------------------- datatypes
def build(d):
    """descriptor -> real frappy datatype (through the constructors)"""
    from frappy import datatypes as dt
    t = d['t']
    if t == 'float':
        kw = {}
        if 'abs' in d:
            kw['absolute_resolution'] = dec_float(d['abs'])
        if 'rel' in d:
            kw['relative_resolution'] = dec_float(d['rel'])
        return dt.FloatRange(dec_float(d['min']), dec_float(d['max']), **kw)
    if t == 'int':
        return dt.IntRange(d['min'], d['max'])
    if t == 'scaled':
        return dt.ScaledInteger(dec_float(d['scale']), dec_float(d['min']), dec_float(d['max']))
    if t == 'bool':
        return dt.BoolType()
    if t == 'enum':
        return dt.EnumType('e', members={from_cps(n) if isinstance(n, list) else n: v for n, v in d['members']})
    if t == 'string':
        return dt.StringType(d['min'], d['max'], isUTF8=d['utf8'])
    if t == 'blob':
        return dt.BLOBType(d['min'], d['max'])
    if t == 'array':
        return dt.ArrayOf(build(d['elem']), d['min'], d['max'])
    if t == 'tuple':
        return dt.TupleOf(*[build(x) for x in d['elems']])
    if t == 'struct':
        s = dt.StructOf(optional=list(d['optional']), **{n: build(x) for n, x in d['members']})
        s.client = bool(d.get('client', False))
        return s
    raise ValueError(d)


def gal_dtype(d, obj):
    """Gallina dtype term; numeric parameters are read back from the real object `obj`"""
    t = d['t']
    if t == 'float':
        return '(TFloat %s %s %s %s)' % tuple(gal_float(enc_float(float(x))) for x in (
            obj.min, obj.max, obj.absolute_resolution, obj.relative_resolution))
    if t == 'int':
        return f'(TInt ({obj.min})%Z ({obj.max})%Z)'
    if t == 'scaled':
        return '(TScaled %s %s %s)' % tuple(gal_float(enc_float(float(x))) for x in (obj.scale, obj.min, obj.max))
    if t == 'bool':
        return 'TBool'
    if t == 'enum':
        ms = [(cps(m.name), int(m.value)) for m in obj._enum.members]
        return '(TEnum %s)' % gal.lst(ms, lambda p: f'({gal_str(p[0])}, ({p[1]})%Z)')
    if t == 'string':
        return f'(TString ({obj.minchars})%Z ({obj.maxchars})%Z {gal.boolean(bool(obj.isUTF8))})'
    if t == 'blob':
        return f'(TBlob ({obj.minbytes})%Z ({obj.maxbytes})%Z)'
    if t == 'array':
        return f'(TArray {gal_dtype(d["elem"], obj.members)} ({obj.minlen})%Z ({obj.maxlen})%Z)'
    if t == 'tuple':
        return '(TTuple %s)' % gal.lst(list(zip(d['elems'], obj.members)), lambda p: gal_dtype(p[0], p[1]))
    if t == 'struct':
        ms = [(cps(n), gal_dtype(dd, obj.members[n])) for n, dd in d['members']]
        return '(TStruct %s %s %s)' % (gal.lst(ms, lambda p: f'({gal_str(p[0])}, {p[1]})'),
                                       gal.lst([cps(n) for n in obj.optional], gal_str),
                                       gal.boolean(bool(obj.client)))
    raise ValueError(d)


# ---------------------------------------------------------------- generators
FLOAT_CATALOGUE = [0.0, -0.0, 1.0, -1.0, 0.5, 10.0, -10.0, 0.1, 1e-3, 3.5, 2.5, 1e10, -1e10, 1e300, -1e300, FMAX, -FMAX,
                   5e-324, 2.2250738585072014e-308, 2.0 ** 53, 2.0 ** 53 + 2, 1 / 3, 100.0, 16777216.0, 1e-7]
INT_CATALOGUE = [0, 1, -1, 2, 5, 10, -10, 100, 255, 256, -128, 127, 2 ** 24, -2 ** 24, 2 ** 31, 2 ** 53, 2 ** 53 + 1,
                 2 ** 63, 2 ** 64, -2 ** 64]
HUGE_INTS = [10 ** 30, -10 ** 30, 2 ** 1024, 2 ** 1023, -2 ** 1024, 10 ** 400]
NAMES = ['a', 'b', 'c', 'x', 'long_name', 'é', 'A']
STRINGS = ['', 'a', 'abc', 'hello world', 'é', 'a\0b', '5', ' 7 ', '0x10', 'YWJj', 'YWJj$$', '!!!!', 'true', 'null',
           'x' * 12, 'äö', '"q"\\\n', 'ab']


def rand_float_limits(rng):
    r = rng.random()
    if r < 0.15:
        return -FMAX, FMAX
    if r < 0.3:
        x = rng.choice(FLOAT_CATALOGUE)
        return x, x                                    # degenerate
    a, b = rng.choice(FLOAT_CATALOGUE), rng.choice(FLOAT_CATALOGUE)
    if a > b:
        a, b = b, a
    return a, b


def rand_type(rng, depth, client=False):
    kinds = ['float', 'int', 'scaled', 'bool', 'enum', 'string', 'blob']
    if depth > 0:
        kinds += ['array', 'tuple', 'struct'] * 2
    t = rng.choice(kinds)
    if t == 'float':
        a, b = rand_float_limits(rng)
        d = {'t': 'float', 'min': enc_float(a), 'max': enc_float(b)}
        if rng.random() < 0.4:
            d['abs'] = enc_float(rng.choice([0.0, 0.5, 1e-3, 1.0, 1e10]))
        if rng.random() < 0.4:
            d['rel'] = enc_float(rng.choice([0.0, 1.2e-7, 0.01, 0.5]))
        return d
    if t == 'int':
        r = rng.random()
        if r < 0.2:
            x = rng.choice(INT_CATALOGUE)
            return {'t': 'int', 'min': x, 'max': x}
        a, b = sorted([rng.choice(INT_CATALOGUE), rng.choice(INT_CATALOGUE)])
        return {'t': 'int', 'min': a, 'max': b}
    if t == 'scaled':
        scale = rng.choice([0.1, 1e-3, 0.5, 0.25, 1.0, 2.0, 1 / 3, 1e-5, 10.0])
        k1, k2 = sorted([rng.choice([-1000, -10, -1, 0, 1, 5, 10, 1000, 2 ** 24]),
                         rng.choice([-1000, -10, -1, 0, 1, 5, 10, 1000, 2 ** 24])])
        if rng.random() < 0.2:
            k2 = k1
        return {'t': 'scaled', 'scale': enc_float(scale), 'min': enc_float(k1 * scale), 'max': enc_float(k2 * scale)}
    if t == 'bool':
        return {'t': 'bool'}
    if t == 'enum':
        n = rng.randint(1, 4)
        names = rng.sample(NAMES, n)
        vals = rng.sample([0, 1, 2, 3, 5, 10, -1, 100], n)
        return {'t': 'enum', 'members': [[a, b] for a, b in zip(names, vals)]}
    if t == 'string':
        a = rng.choice([0, 0, 1, 3])
        b = rng.choice([a, a + 2, 10, 1 << 64])
        return {'t': 'string', 'min': a, 'max': max(a, b), 'utf8': rng.random() < 0.5}
    if t == 'blob':
        a = rng.choice([0, 0, 1, 3])
        b = rng.choice([a, a + 2, 10, 255])
        return {'t': 'blob', 'min': a, 'max': max(a, b, 1)}
    if t == 'array':
        a = rng.choice([0, 0, 1, 2])
        b = rng.choice([a, a + 1, 3, 100])
        return {'t': 'array', 'elem': rand_type(rng, depth - 1, client), 'min': a, 'max': max(a, b, 1)}
    if t == 'tuple':
        return {'t': 'tuple', 'elems': [rand_type(rng, depth - 1, client) for _ in range(rng.randint(1, 3))]}
    n = rng.randint(1, 3)
    names = rng.sample(NAMES, n)
    members = [[nm, rand_type(rng, depth - 1, client)] for nm in names]
    r = rng.random()
    optional = names if r < 0.3 else [] if r < 0.6 else [nm for nm in names if rng.random() < 0.5]
    return {'t': 'struct', 'members': members, 'optional': optional, 'client': client}


def near(rng, x):
    """floats around x: x itself, neighbours, just inside/outside typical tolerances"""
    c = [x, math.nextafter(x, math.inf), math.nextafter(x, -math.inf), x * (1 + 1e-7), x * (1 - 1e-7), x * (1 + 2e-7),
         x * (1 - 2e-7), x + 1e-3, x - 1e-3, x + 0.5, x - 0.5, x + 1, x - 1]
    v = rng.choice(c)
    return v if v == v else x


def rand_valid(rng, d, wire=False):
    """a value from the specification-side value set of d (python object); wire=True: in transport form"""
    t = d['t']
    if t == 'float':
        a, b = dec_float(d['min']), dec_float(d['max'])
        r = rng.random()
        if r < 0.3:
            return rng.choice([a, b])
        x = rng.choice([v for v in FLOAT_CATALOGUE if a <= v <= b] or [a])
        if rng.random() < 0.3 and a <= int(x) <= b and abs(x) < 1e15:
            return int(x)
        return x
    if t == 'int':
        c = [v for v in INT_CATALOGUE if d['min'] <= v <= d['max']] or [d['min']]
        v = rng.choice(c + [d['min'], d['max']])
        return float(v) if rng.random() < 0.1 and abs(v) < 2 ** 53 else v
    if t == 'scaled':
        s = dec_float(d['scale'])
        k1, k2 = round(dec_float(d['min']) / s), round(dec_float(d['max']) / s)
        k = rng.choice([k1, k2, rng.randint(k1, k2), rng.randint(k1, k2)])
        return k if wire else k * s
    if t == 'bool':
        return rng.choice([True, False, 0, 1])
    if t == 'enum':
        n, v = rng.choice(d['members'])
        return v if wire or rng.random() < 0.5 else n
    if t == 'string':
        n = rng.randint(d['min'], min(d['max'], d['min'] + 6))
        alphabet = 'abcXYZ 09"\\\n' + ('éä中' if d['utf8'] else '')
        return ''.join(rng.choice(alphabet) for _ in range(n))
    if t == 'blob':
        n = rng.randint(d['min'], min(d['max'], d['min'] + 6))
        b = bytes(rng.randrange(256) for _ in range(n))
        if wire:
            from base64 import b64encode
            return b64encode(b).decode('ascii')
        return b
    if t == 'array':
        n = rng.randint(d['min'], min(d['max'], d['min'] + 3))
        l = [rand_valid(rng, d['elem'], wire) for _ in range(n)]
        return l if wire or rng.random() < 0.5 else tuple(l)
    if t == 'tuple':
        l = [rand_valid(rng, x, wire) for x in d['elems']]
        return l if wire or rng.random() < 0.5 else tuple(l)
    res = {}
    for n, x in d['members']:
        if n in d['optional'] and rng.random() < 0.4:
            continue
        res[n] = rand_valid(rng, x, wire)
    return res


def internalise(dtobj, d, v):
    """replace enum codes in a valid internal value by the real EnumMember objects of dtobj (as the cache holds them)"""
    t = d['t']
    if v is None:
        return None
    if t == 'enum':
        return dtobj._enum[v]
    if t == 'array':
        return tuple(internalise(dtobj.members, d['elem'], x) for x in v)
    if t == 'tuple':
        return tuple(internalise(o, dd, x) for o, dd, x in zip(dtobj.members, d['elems'], v))
    if t == 'struct':
        m = dict(d['members'])
        return {k: internalise(dtobj.members[k], m[k], x) for k, x in v.items()}
    return v


def rand_any(rng, depth=1):
    """the malformed stream: every JSON kind (+ bytes, tuple, opaque)"""
    r = rng.random()
    if r < 0.1:
        return None
    if r < 0.2:
        return rng.choice([True, False])
    if r < 0.35:
        return rng.choice(INT_CATALOGUE + [-v for v in INT_CATALOGUE] + HUGE_INTS)
    if r < 0.5:
        return rng.choice(FLOAT_CATALOGUE + [math.nan, math.inf, -math.inf, 2.7, -2.7, 1e308 * 10])
    if r < 0.65:
        return rng.choice(STRINGS)
    if r < 0.7:
        return rng.choice([b'', b'abc', b'\0\xff', b'12'])
    if r < 0.73:
        return Opaque()
    if depth <= 0:
        return rng.choice([[], {}, ()])
    if r < 0.85:
        return [rand_any(rng, depth - 1) for _ in range(rng.randint(0, 3))]
    if r < 0.9:
        return tuple(rand_any(rng, depth - 1) for _ in range(rng.randint(0, 3)))
    return {rng.choice(NAMES): rand_any(rng, depth - 1) for _ in range(rng.randint(0, 3))}


def mutate(rng, d, v, wire=False):
    """a mostly-valid value with one position replaced by a boundary/invalid one"""
    t = d['t']
    r = rng.random()
    if t in ('array', 'tuple', 'struct') and r < 0.6 and v:
        if isinstance(v, dict):
            k = rng.choice(list(v))
            sub = dict(d['members'])[k]
            v = dict(v)
            rr = rng.random()
            if rr < 0.2:
                v[k] = None
            elif rr < 0.3:
                del v[k]
            elif rr < 0.4:
                v[rng.choice(NAMES + ['zz'])] = rand_any(rng, 0)
            else:
                v[k] = mutate(rng, sub, v[k], wire)
            return v
        l = list(v)
        rr = rng.random()
        if rr < 0.15:
            l = l[:-1]
        elif rr < 0.3:
            l.append(l[-1])
        else:
            i = rng.randrange(len(l))
            sub = d['elem'] if t == 'array' else d['elems'][min(i, len(d['elems']) - 1)]
            l[i] = mutate(rng, sub, l[i], wire)
        return l if isinstance(v, list) else tuple(l)
    if t == 'float':
        a, b = dec_float(d['min']), dec_float(d['max'])
        return near(rng, rng.choice([a, b])) if r < 0.8 else rand_any(rng, 0)
    if t == 'int':
        return rng.choice([d['min'] - 1, d['max'] + 1, d['min'] + 0.5, float(d['max']) if abs(d['max']) < 2 ** 60 else 0.5,
                           rand_any(rng, 0)])
    if t == 'scaled':
        s = dec_float(d['scale'])
        a, b = dec_float(d['min']), dec_float(d['max'])
        if wire:
            return rng.choice([round(a / s) - 1, round(b / s) + 1, 2.7, '5', True, rand_any(rng, 0), round(a / s) - 2])
        return rng.choice([a - s, b + s, a - s / 2, b + s / 2, a - 2 * s, b + 0.4 * s, a + s / 3, math.nan, math.inf,
                           rand_any(rng, 0)])
    if t == 'string':
        return rng.choice(['x' * (d['max'] + 1) if d['max'] < 100 else 5, 'x' * max(0, d['min'] - 1), 'é', 'a\0', 5,
                           rand_any(rng, 0)])
    if t == 'blob':
        if wire:
            return rng.choice(['!!!!', 'YWJj$$', 'YWJ', 'Y W J j', 5, rand_any(rng, 0)])
        return rng.choice([b'x' * (d['max'] + 1), b'', 'abc', rand_any(rng, 0)])
    return rand_any(rng, 1)
