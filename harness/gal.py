"""encoders python -> Gallina source text"""


def nat(n):
    assert isinstance(n, int) and 0 <= n < 100000, n
    return f'{n}%nat'


def z(n):
    assert isinstance(n, int) and not isinstance(n, bool), n
    return f'({n})%Z'


def N(n):
    assert isinstance(n, int) and n >= 0
    return f'{n}%N'


def boolean(b):
    return 'true' if b else 'false'


def option(x, enc):
    return 'None' if x is None else f'(Some {enc(x)})'


def lst(xs, enc):
    return '[' + '; '.join(enc(x) for x in xs) + ']'


def pair(p, ea, eb):
    return f'({ea(p[0])}, {eb(p[1])})'


def string(s):
    """str -> list N of code points"""
    return lst([ord(c) for c in s], N)


def bytes_(b):
    return lst(list(b), N)
