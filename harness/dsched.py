"""dsched — deterministic scheduler for running REAL multi-threaded python code one thread at a time.

Shared harness module (first user: C11; meant for C05, C08, C16 too).  Nothing here knows about frappy.

Idea
----
Every managed thread is a real ``threading.Thread`` parked on its own semaphore; a controller (the thread that
called ``Scheduler.run``) lets exactly one of them run at a time.  A running thread gives control back at
*synchronisation points*: every operation of the patched primitives below calls ``switch``/``block`` BEFORE the
operation takes effect.  One *step* of a thread is therefore: the operation it was parked at + all code up to the
next synchronisation point.  The controller asks a *policy* which enabled thread runs next and records the
decision, so that every run is replayable from its decision list alone.  Time is virtual: when no thread is
enabled the clock jumps to the earliest deadline (a 10 s time-out costs nothing); if there is no deadline either the
run is a deadlock.  A step budget bounds every run.

API (keep it small)
-------------------
    s = Scheduler(policy, max_steps=5000, start_time=1000.0, step_cost=0.0)
                                        # step_cost: virtual seconds charged per executed step (default 0: only
                                        # blocking advances the clock); > 0 lets time-outs fire under busy loops
    res = s.run(main, *args)            # main runs as managed thread 'main'; the run ends when main returns
                                        # (all other threads still alive are then aborted and listed)
    res.value / res.error               # return value of main / 'TypeName: text' if main raised
    res.status                          # 'ok' | 'deadlock' | 'budget' | 'diverged' (explicit schedule not followable)
    res.decisions                       # [thread name per step]  -> replay with Explicit(res.decisions)
    res.trace                           # [(thread name, label, info)] one item per executed step, info is a dict
    res.steps                           # [(chosen, [enabled names], current name or None)] for systematic exploration
    res.alive_at_end                    # names of managed threads that had not finished when main returned
    res.thread_errors                   # {name: 'TypeName: text'} of threads that died with an exception
    res.now                             # virtual clock at the end

  objects to patch into the code under test (all created from the scheduler instance):
    s.Lock() s.RLock() s.Event() s.Queue(maxsize=0)      .name attribute is settable (used in labels)
    s.queue_module          namespace with Queue, Empty, Full (drop-in for the `queue` module)
    s.time_module           namespace with time(), monotonic(), sleep(); other attributes fall through to `time`
    s.mkthread(func, *args, **kw) -> handle (join(timeout=None), is_alive(), name);  s.spawn(func, name, *args)
    s.current_thread()
  for harness fakes:
    s.switch(label)                     plain synchronisation point
    s.block(label, pred, timeout=None)  park until pred() is true or the virtual time-out expires -> bool(pred())
    s.wait_until(pred, timeout=None)    same, label 'wait_until'
    s.annotate(**info)                  add info to the trace item of the step being executed
    s.parked_label(handle)              label at which a thread is parked (None when running/finished)
    s.now                               virtual clock

  synchronisation points: Lock/RLock.acquire, Event.set, Event.wait, Queue.put/get (also non-blocking)/empty,
  handle.join, time.sleep, thread start ('start'), s.switch/s.block.  NOT synchronisation points: release, is_set,
  clear, qsize, time().  Labels are '<op>:<object name>'.  Outside a run (or while a run is being aborted) all
  primitives work without blocking (acquire succeeds, wait returns the flag, get on empty raises Empty, join returns),
  so that __del__ methods of the code under test never hang.

Policies (callable objects ``policy(step_no, enabled_names, current_name) -> name``)
    Explicit(decisions, then=None)      follow the list; afterwards `then` (default NonPreemptive()); a decision
                                        naming a thread that is not enabled ends the run with status 'diverged'
    NonPreemptive()                     keep the current thread while enabled, else the first enabled (creation order)
    Seeded(seed, stick=0.0)             uniformly random enabled thread; with probability `stick` keep current
    Preempt(points, then=None)          points = {step_no: index}; at these steps run enabled[index % n], else `then`
  explore(run_fn, max_preemptions, limit)   systematic depth-first enumeration of schedules with a preemption bound:
                                        run_fn(policy) -> RunResult; yields (decision_prefix, result)
"""
import queue as _queue
import random
import threading
import time as _time


class SchedAbort(BaseException):
    """raised inside managed threads when the run is over (never caught by `except Exception`)"""


class _Thread:
    """managed thread; also the handle returned by mkthread/current_thread"""

    def __init__(self, sched, func, args, kwargs, name, tid):
        self.sched = sched
        self.func, self.args, self.kwargs = func, args, kwargs
        self.name = name
        self.tid = tid
        self.daemon = True
        self.sem = threading.Semaphore(0)
        self.state = 'ready'           # ready | blocked | running | done
        self.label = 'start'
        self.pred = None
        self.deadline = None
        self.error = None
        self.value = None
        self.real = threading.Thread(target=self._body, name=name, daemon=True)

    def _body(self):
        s = self.sched
        self.sem.acquire()
        try:
            if s._aborting:
                raise SchedAbort()
            self.value = self.func(*self.args, **self.kwargs)
        except SchedAbort:
            self.error = self.error or 'SchedAbort'
        except BaseException as e:  # the thread died
            self.error = f'{type(e).__name__}: {e}'
            self.died = True
        finally:
            self.state = 'done'
            self.label = None
            s._ctl.release()

    died = False

    def join(self, timeout=None):
        s = self.sched
        if not s._managed():
            return
        s.block(f'join:{self.name}', lambda: self.state == 'done', timeout)

    def is_alive(self):
        return self.state != 'done'

    def __repr__(self):
        return f'<dsched thread {self.name}>'


class RunResult:
    def __init__(self):
        self.value = None
        self.error = None
        self.status = 'ok'
        self.decisions = []
        self.trace = []
        self.steps = []
        self.alive_at_end = []
        self.thread_errors = {}
        self.now = 0.0


# ------------------------------------------------------------------------------------------------ policies
class NonPreemptive:
    def __call__(self, n, enabled, current):
        return current if current in enabled else enabled[0]


class Explicit:
    def __init__(self, decisions, then=None):
        self.decisions = list(decisions)
        self.then = then or NonPreemptive()

    def __call__(self, n, enabled, current):
        if n < len(self.decisions):
            return self.decisions[n]       # the scheduler checks that it is enabled
        return self.then(n, enabled, current)


class Seeded:
    def __init__(self, seed, stick=0.0):
        self.rng = random.Random(seed)
        self.stick = stick

    def __call__(self, n, enabled, current):
        if current in enabled and self.stick and self.rng.random() < self.stick:
            return current
        return enabled[self.rng.randrange(len(enabled))]


class Preempt:
    def __init__(self, points, then=None):
        self.points = {int(k): int(v) for k, v in dict(points).items()}
        self.then = then or NonPreemptive()

    def __call__(self, n, enabled, current):
        if n in self.points:
            return enabled[self.points[n] % len(enabled)]
        return self.then(n, enabled, current)


def preemptions(steps):
    return sum(1 for chosen, enabled, cur in steps if cur in enabled and chosen != cur)


def explore(run_fn, max_preemptions=2, limit=10000):
    """stateless depth-first enumeration; yields (prefix, result) for every distinct schedule with at most
    max_preemptions preemptions (beyond the prefix the run continues non-preemptively)"""
    stack = [[]]
    n = 0
    while stack and n < limit:
        prefix = stack.pop()
        res = run_fn(Explicit(prefix))
        n += 1
        yield prefix, res
        if res.status == 'diverged':
            continue
        chosen = [s[0] for s in res.steps]
        for i in range(len(res.steps) - 1, len(prefix) - 1, -1):
            _, enabled, cur = res.steps[i]
            for alt in enabled:
                if alt == chosen[i]:
                    continue
                cand = res.steps[:i] + [(alt, enabled, cur)]
                if preemptions(cand) <= max_preemptions:
                    stack.append(chosen[:i] + [alt])


# ------------------------------------------------------------------------------------------------ scheduler
class Scheduler:
    def __init__(self, policy=None, max_steps=5000, start_time=1000.0, step_cost=0.0):
        self.policy = policy or NonPreemptive()
        self.max_steps = max_steps
        self.step_cost = float(step_cost)
        self.now = float(start_time)
        self.threads = []
        self.current = None
        self._ctl = threading.Semaphore(0)
        self._active = False
        self._aborting = False
        self._serial = {}
        self._cur_item = None
        sched = self

        class _Q:
            Queue = staticmethod(lambda maxsize=0: Queue(sched, maxsize))
            Empty = _queue.Empty
            Full = _queue.Full
        self.queue_module = _Q

        class _Time:
            @staticmethod
            def time():
                return sched.now

            monotonic = time

            @staticmethod
            def sleep(d):
                if sched._managed():
                    sched.block('sleep', lambda: False, d)

            def __getattr__(self, name):
                return getattr(_time, name)
        self.time_module = _Time()

    # ---- object factories
    def _name(self, kind):
        k = self._serial.get(kind, 0)
        self._serial[kind] = k + 1
        return f'{kind}{k}'

    def Lock(self):
        return Lock(self, False)

    def RLock(self):
        return Lock(self, True)

    def Event(self):
        return Event(self)

    def Queue(self, maxsize=0):
        return Queue(self, maxsize)

    def current_thread(self):
        return self.current

    def spawn(self, func, name, *args, **kwargs):
        t = _Thread(self, func, args, kwargs, name, len(self.threads))
        self.threads.append(t)
        t.real.start()
        return t

    def mkthread(self, func, *args, **kwargs):
        return self.spawn(func, self._name(getattr(func, '__name__', 'thread').lstrip('_')), *args, **kwargs)

    # ---- thread side
    def _managed(self):
        """true when called from the managed thread that currently owns the baton; raises SchedAbort in a managed
        thread while the run is being torn down (so that no loop of the code under test can spin)"""
        mine = self.current is not None and threading.current_thread() is self.current.real
        if self._aborting and mine:
            raise SchedAbort()
        return self._active and mine

    def _park(self, t):
        self._ctl.release()
        t.sem.acquire()
        if self._aborting:
            raise SchedAbort()

    def switch(self, label):
        if not self._managed():
            return
        t = self.current
        t.state, t.label, t.pred, t.deadline = 'ready', label, None, None
        self._park(t)

    def block(self, label, pred, timeout=None):
        """park until pred() or virtual time-out; returns bool(pred()) evaluated when resumed"""
        if not self._managed():
            return bool(pred())
        t = self.current
        t.state, t.label, t.pred = 'blocked', label, pred
        t.deadline = None if timeout is None else self.now + max(0.0, float(timeout))
        self._park(t)
        return bool(pred())

    def wait_until(self, pred, timeout=None):
        return self.block('wait_until', pred, timeout)

    def annotate(self, **info):
        if self._cur_item is not None:
            self._cur_item[2].update(info)

    def parked_label(self, t):
        return t.label if t.state in ('ready', 'blocked') else None

    # ---- controller
    def _enabled(self):
        res = []
        for t in self.threads:
            if t.state == 'ready':
                res.append(t)
            elif t.state == 'blocked':
                if t.pred() or (t.deadline is not None and t.deadline <= self.now):
                    res.append(t)
        return res

    def run(self, main, *args, **kwargs):
        res = RunResult()
        self._active = True
        mt = self.spawn(main, 'main', *args, **kwargs)
        n = 0
        try:
            while mt.state != 'done':
                enabled = self._enabled()
                if not enabled:
                    deadlines = [t.deadline for t in self.threads if t.state == 'blocked' and t.deadline is not None]
                    if not deadlines:
                        res.status = 'deadlock'
                        break
                    self.now = max(self.now, min(deadlines))
                    continue
                if n >= self.max_steps:
                    res.status = 'budget'
                    break
                names = [t.name for t in enabled]
                cur = self.current.name if self.current is not None and self.current.state != 'done' else None
                choice = self.policy(n, names, cur)
                if choice not in names:
                    res.status = 'diverged'
                    break
                t = enabled[names.index(choice)]
                timed_out = t.state == 'blocked' and not t.pred()
                item = (t.name, t.label, {'timeout': True} if timed_out else {})
                res.decisions.append(t.name)
                res.steps.append((t.name, names, cur))
                res.trace.append(item)
                self._cur_item = item
                n += 1
                self.now += self.step_cost
                self.current = t
                t.state = 'running'
                t.sem.release()
                self._ctl.acquire()
                self._cur_item = None
        finally:
            res.alive_at_end = [t.name for t in self.threads if t.state != 'done' and t is not mt]
            res.blocked_at_end = {t.name: t.label for t in self.threads if t.state != 'done'}
            self._aborting = True
            for t in self.threads:
                if t.state != 'done':
                    self.current = t
                    t.sem.release()
                    self._ctl.acquire()
            for t in self.threads:
                t.real.join(5)
            self._active = False
            self.current = None
        res.value, res.error = mt.value, (mt.error if mt.died else None)
        res.thread_errors = {t.name: t.error for t in self.threads if t.died}
        res.now = self.now
        return res


# ------------------------------------------------------------------------------------------------ primitives
class Lock:
    def __init__(self, sched, reentrant):
        self.s = sched
        self.reentrant = reentrant
        self.owner = None
        self.count = 0
        self.name = sched._name('rlock' if reentrant else 'lock')

    def _free_for(self, me):
        return self.owner is None or (self.reentrant and self.owner is me)

    def acquire(self, blocking=True, timeout=-1):
        s = self.s
        if not s._managed():
            self.count += 1
            return True
        me = s.current
        if not blocking:
            s.switch(f'acquire:{self.name}')
            if not self._free_for(me):
                return False
        else:
            ok = s.block(f'acquire:{self.name}', lambda: self._free_for(me), None if timeout is None or timeout < 0 else timeout)
            if not ok:
                return False
        self.owner = me
        self.count += 1
        return True

    def release(self):
        self.count -= 1
        if self.count <= 0:
            self.count = 0
            self.owner = None

    def locked(self):
        return self.owner is not None

    __enter__ = acquire

    def __exit__(self, *a):
        self.release()


class Event:
    def __init__(self, sched):
        self.s = sched
        self.flag = False
        self.name = sched._name('event')

    def is_set(self):
        return self.flag

    isSet = is_set

    def set(self):
        self.s.switch(f'set:{self.name}')
        self.flag = True

    def clear(self):
        self.flag = False

    def wait(self, timeout=None):
        if not self.s._managed():
            return self.flag
        return self.s.block(f'wait:{self.name}', lambda: self.flag, timeout)


class Queue:
    def __init__(self, sched, maxsize=0):
        self.s = sched
        self.maxsize = maxsize
        self.items = []
        self.name = sched._name('queue')

    def qsize(self):
        return len(self.items)

    def empty(self):
        self.s.switch(f'empty:{self.name}')
        return not self.items

    def full(self):
        return 0 < self.maxsize <= len(self.items)

    def put(self, item, block=True, timeout=None):
        s = self.s
        if not s._managed() or not block:
            s.switch(f'put:{self.name}')
            if self.full():
                raise _queue.Full
        elif not s.block(f'put:{self.name}', lambda: not self.full(), timeout):
            raise _queue.Full
        self.items.append(item)

    def get(self, block=True, timeout=None):
        s = self.s
        if not s._managed() or not block:
            s.switch(f'get:{self.name}')
            if not self.items:
                raise _queue.Empty
        elif not s.block(f'get:{self.name}', lambda: bool(self.items), timeout):
            raise _queue.Empty
        return self.items.pop(0)

    def put_nowait(self, item):
        return self.put(item, False)

    def get_nowait(self):
        return self.get(False)
