"""C12 end to end: SecopClient <-> TCPServer (loopback) <-> Dispatcher <-> Module with a recording fake driver.
Own helper of harness/props/C12.py (kept apart because it starts threads and sockets)."""
import json
import threading

from harness import gal

_LOG = None


def _logger():
    global _LOG
    if _LOG is None:
        import logging
        from frappy.logging import RemoteLogHandler
        log = logging.getLogger('c12e2e')
        log.addHandler(RemoteLogHandler())
        log.propagate = False
        log.setLevel(100)
        _LOG = log
    return _LOG


def gen_e2e_cases(rng, tier):
    from harness.props import C12 as P
    n = {'quick': 60, 'thorough': 500, 'search': 100}[tier]
    cases = []
    kinds = ['double', 'int', 'scaled', 'bool', 'enum', 'string', 'blob', 'array', 'tuple', 'struct']
    for k in range(n):
        params = []
        # every datatype kind appears in every node, plus random nested ones
        for i, kind in enumerate(kinds):
            for _ in range(200):
                di = P.gen_datainfo(rng, 2)
                if di['type'] == kind and not _nested_array(di, False):
                    break
            else:
                continue
            params.append([f'p{i}', di])
        writes = []
        reads = []
        for pname, di in params:
            for _ in range(2):
                v = _full(di, rng, P)
                r = _full(di, rng, P) if rng.random() < 0.5 else None
                writes.append([pname, v, r])
            reads.append([pname, _full(di, rng, P)])
        # structs with optional members: the node's declaration of an ALL-optional struct is exported without the key
        # "optional" (StructOf.export_datatype) and the client has to rebuild "all optional" from that; partial values
        # (optional members left out) are valid writes: the members passed reach the driver, the others keep their value
        names = rng.sample(['a', 'b', 'c', 'd'], rng.randint(2, 3))
        params.append(['pso', {'type': 'struct', 'members': {n: P.gen_datainfo(rng, 0) for n in names},
                               'optional': sorted(names)}])
        for pname, di in params:
            if di['type'] == 'struct' and (di.get('optional') or pname == 'pso'):
                if pname == 'pso':
                    writes.append([pname, _full(di, rng, P), None])
                    reads.append([pname, _full(di, rng, P)])
                for _ in range(2 if pname == 'pso' else 1):
                    v = _partial(di, rng, P)
                    if v is not None:
                        writes.append([pname, v, _full(di, rng, P) if rng.random() < 0.3 else None])
        rng.shuffle(writes)
        cases.append({'kind': 'e2e', 'proxy': False, 'params': params, 'writes': writes, 'reads': reads})
    return cases


def _nested_array(di, inside):
    """an array below an array or tuple (validated against the previous element there; kept out of the e2e cases)"""
    t = di['type']
    if t == 'array':
        return inside or _nested_array(di['members'], True)
    if t == 'tuple':
        return any(_nested_array(m, True) for m in di['members'])
    if t == 'struct':
        return any(_nested_array(m, inside) for m in di['members'].values())
    return False


def _full(di, rng, P):
    """a valid value with every struct member present (what a node accepts as a complete value)"""
    full = json.loads(json.dumps(di))

    def strip(d):
        d.pop('optional', None)
        if d['type'] == 'struct':
            for m in d['members'].values():
                strip(m)
        elif d['type'] == 'array':
            strip(d['members'])
        elif d['type'] == 'tuple':
            for m in d['members']:
                strip(m)
    strip(full)
    return P.spec_import(di, P.gen_wire(full, rng))


def _partial(di, rng, P):
    """a valid value of a struct with at least one optional member left out and at least one member present"""
    full = _full(di, rng, P)
    members = [k for k, _ in full[1]]
    opt = [k for k in di.get('optional', []) if k in members]
    if not opt or len(members) < 2:
        return None
    drop = set(rng.sample(opt, rng.randint(1, min(len(opt), len(members) - 1))))
    return ['d', [[k, x] for k, x in full[1] if k not in drop]]


def node_datatype(di):
    """the datatype object a module author declares (constructors of frappy.datatypes, NOT get_datatype: the node side
    of 'description -> datatypes' is export_datatype of these objects, the client side is get_datatype of the result).
    A struct declared without "optional" is StructOf(**members): frappy's default, all members optional."""
    import frappy.datatypes as D
    t = di['type']
    if t == 'double':
        kw = {k: di[k] for k in ('unit',) if k in di}
        return D.FloatRange(di.get('min'), di.get('max'), **kw)
    if t == 'int':
        return D.IntRange(di['min'], di['max'])
    if t == 'scaled':
        return D.ScaledInteger(di['scale'], di['min'] * di['scale'], di['max'] * di['scale'])
    if t == 'bool':
        return D.BoolType()
    if t == 'enum':
        return D.EnumType('', members=di['members'])
    if t == 'string':
        return D.StringType(di.get('minchars', 0), D.UNLIMITED if di.get('maxchars') is None else di['maxchars'],
                            isUTF8=di.get('isUTF8', False))
    if t == 'blob':
        return D.BLOBType(di.get('minbytes', 0), di['maxbytes'])
    if t == 'array':
        return D.ArrayOf(node_datatype(di['members']), di.get('minlen', 0), di['maxlen'])
    if t == 'tuple':
        return D.TupleOf(*[node_datatype(m) for m in di['members']])
    if t == 'struct':
        return D.StructOf(list(di['optional']) if 'optional' in di else None,
                          **{n: node_datatype(m) for n, m in di['members'].items()})
    raise ValueError(t)


def expected_at_driver(di, prev, v):
    """what the driver has to receive when the caller passes v: v itself; for a struct the members passed, the members
    left out keep the value they had (partial struct)"""
    if di['type'] == 'struct' and v[0] == 'd' and prev[0] == 'd':
        merged = dict((k, x) for k, x in prev[1])
        merged.update((k, x) for k, x in v[1])
        return ['d', sorted([k, x] for k, x in merged.items())]
    return v


def _server_side(dt):
    """get_datatype marks datatypes as client side; a node has server side ones"""
    dt.client = False
    members = getattr(dt, 'members', None)
    if isinstance(members, dict):
        for m in members.values():
            _server_side(m)
    elif isinstance(members, (tuple, list)):
        for m in members:
            _server_side(m)
    elif members is not None and hasattr(members, 'export_datatype'):
        _server_side(members)


def run_e2e(case):
    """The end-to-end run uses real sockets, threads and the client's real 10 s reply time-out.  On a starved machine
    a reply can come too late; a run in which a time-out occurred says nothing about the property, so it is repeated
    (a reproducible time-out is still reported by the oracle after the third attempt)."""
    obs = None
    for attempt in range(3):
        try:
            obs = _run_e2e_once(case)
        except (TimeoutError, ConnectionError, OSError):
            if attempt == 2:
                raise
            continue
        excs = [o['exc'] for o in obs['writes'] + obs['reads'] if o['exc']]
        if not any(e.startswith(('TimeoutError', 'ConnectionError')) for e in excs):
            break
    return obs


def _run_e2e_once(case):
    from harness.props import C12 as P
    import frappy.secnode
    from frappy.secnode import SecNode
    from frappy.protocol.dispatcher import Dispatcher
    from frappy.protocol.interface.tcp import TCPServer
    from frappy.modules import Module
    from frappy.params import Parameter
    from frappy.datatypes import get_datatype
    from frappy.client import SecopClient

    log = _logger()
    orig_version = frappy.secnode.get_version
    frappy.secnode.get_version = lambda *a, **k: 'verif'
    iface = client = None
    try:
        class Srv:
            restart = None
            shutdown = None

            def __init__(self):
                self.log = log
                self.secnode = SecNode('node', log, {}, self)
                self.dispatcher = Dispatcher('dispatcher', log, {}, self)

        srv = Srv()
        srv.secnode.add_secnode_property('description', 'generated')
        received = []
        script = {}
        attrs = {}
        for pname, di in case['params']:
            dt = node_datatype(di)
            attrs[pname] = Parameter(pname, dt, readonly=False)

            def wf(self, value, pname=pname):
                received.append([pname, P.canon(value)])
                r = script.get(('w', pname))
                return value if r is None else P.to_python(r)

            def rf(self, pname=pname):
                r = script.get(('r', pname))
                if r is None:
                    return getattr(self, pname)
                return P.to_python(r)
            attrs['write_' + pname] = wf
            attrs['read_' + pname] = rf
        cls = type('Mod', (Module,), attrs)
        mod = cls('mod', log, {'description': 'generated'}, srv)
        srv.secnode.add_module(mod, 'mod')
        iface = TCPServer('tcp', log, {'uri': 'tcp://0'}, srv)
        port = iface.server_address[1]
        th = threading.Thread(target=iface.serve_forever, kwargs={'poll_interval': 0.02}, daemon=True)
        th.start()
        client = SecopClient(f'localhost:{port}', log=None)
        client.connect()
        wobs = []
        for pname, v, r in case['writes']:
            script[('w', pname)] = r
            n0 = len(received)
            prev = P.canon(mod.parameters[pname].value)
            try:
                item = client.setParameter('mod', pname, P.to_python(v))
                got = received[n0:]
                cached = client.cache['mod', pname]
                wobs.append({'driver': got, 'ret': [P.canon(item.value), P.canon_err(item.readerror)],
                             'cache': [P.canon(cached.value), P.canon_err(cached.readerror)], 'exc': None, 'prev': prev})
            except Exception as e:
                wobs.append({'driver': received[n0:], 'ret': None, 'cache': None, 'exc': type(e).__name__ + ': ' + str(e)[:200], 'prev': prev})
        robs = []
        for pname, r in case['reads']:
            script[('r', pname)] = r
            try:
                item = client.readParameter('mod', pname)
                robs.append({'cache': [P.canon(item.value), P.canon_err(item.readerror)], 'exc': None})
            except Exception as e:
                robs.append({'cache': None, 'exc': type(e).__name__ + ': ' + str(e)[:200]})
        names = {p: client.identifier.get(('mod', p)) for p, _ in case['params']}
        return {'writes': wobs, 'reads': robs, 'idents': names}
    finally:
        frappy.secnode.get_version = orig_version
        try:
            if client is not None:
                client.disconnect()
        except Exception:
            pass
        try:
            if iface is not None:
                iface.shutdown()
                iface.server_close()
        except Exception:
            pass


def oracle_e2e(case, obs):
    fails = []

    def fail(cls, what):
        fails.append({'class': cls, 'what': what})

    dis = dict((p, di) for p, di in case['params'])
    for (pname, v, r), o in zip(case['writes'], obs['writes']):
        if o['exc']:
            fail('e2e-write-raised', f'writing {v} to {pname} ({dis[pname]}) raised {o["exc"]}; the driver received '
                                     f'{o["driver"]} (value before: {o["prev"]})')
            continue
        exp_w = expected_at_driver(dis[pname], o['prev'], v)
        if len(o['driver']) != 1 or o['driver'][0] != [pname, exp_w]:
            fails.append({'class': 'e2e-driver-value', 'param': pname, 'passed': v, 'received': o['driver'],
                          'previous': o['prev'],
                          'what': f'caller passed {v} for {pname}, the driver received {o["driver"]} '
                                  f'(value before: {o["prev"]})'})
        want = r if r is not None else (o['driver'][0][1] if len(o['driver']) == 1 else v)
        if o['cache'] != [want, None]:
            fail('e2e-cache-value', f'driver returned {want} for {pname}, the cache holds {o["cache"]}')
        if o['ret'] != [want, None]:
            fail('e2e-cache-value', f'driver returned {want} for {pname}, setParameter returned {o["ret"]}')
    for (pname, r), o in zip(case['reads'], obs['reads']):
        if o['exc']:
            fail('e2e-read-raised', f'reading {pname} raised {o["exc"]}')
        elif o['cache'] != [r, None]:
            fail('e2e-cache-value', f'driver read {r} for {pname}, the cache holds {o["cache"]}')
    return fails


def encode_e2e(case, obs):
    from harness.props import C12 as P
    T = P.Tables()
    dts = {p: i for i, (p, _) in enumerate(case['params'])}
    dis = dict((p, di) for p, di in case['params'])
    exp, imp = [], []
    seen_e, seen_i = set(), set()

    def add(pname, c):
        """tables for value c of parameter pname: export and import of the exported payload"""
        dt = dts[pname]
        vid = T.value(c)
        j = P.spec_export(dis[pname], c)
        pid = T.payload(j)
        if (dt, vid) not in seen_e:
            seen_e.add((dt, vid))
            exp.append(f'({gal.nat(dt)}, {gal.nat(vid)}, Some {gal.nat(pid)})')
        if (dt, pid) not in seen_i:
            seen_i.add((dt, pid))
            try:
                imp.append(f'({gal.nat(dt)}, {gal.nat(pid)}, Some {gal.nat(T.value(P.spec_import(dis[pname], j)))})')
            except (P.Reject, P.Unclear):
                imp.append(f'({gal.nat(dt)}, {gal.nat(pid)}, None)')
        return vid

    ws = []
    for (pname, v, r), o in zip(case['writes'], obs['writes']):
        if o['exc']:
            raise ValueError('implementation raised: ' + o['exc'])
        vid = add(pname, v)
        if len(o['driver']) != 1 or o['driver'][0][0] != pname:
            raise ValueError(f'driver calls of one write: {o["driver"]}')
        got = o['driver'][0][1]
        rid = add(pname, got if r is None else r)
        ow = T.value(got)
        oc = T.value(o['cache'][0]) if o['cache'][1] is None else None
        arr = None
        if dis[pname]['type'] == 'array' and got[0] == 't' and o['prev'][0] == 't':
            arr = '(WArr %s %s %s)' % tuple(gal.lst([T.value(x) for x in l], gal.nat) for l in (o['prev'][1], v[1], got[1]))
        elif dis[pname]['type'] == 'struct' and got[0] == 'd' and o['prev'][0] == 'd' and v[0] == 'd':
            arr = '(WStruct %s %s %s)' % tuple(
                gal.lst([(T.member(k), T.value(x)) for k, x in l], lambda kv: '(%s, %s)' % (gal.nat(kv[0]), gal.nat(kv[1])))
                for l in (o['prev'][1], v[1], got[1]))
        ws.append('(%s, %s, %s, %s, %s, %s)' % (
            gal.nat(dts[pname]), gal.nat(vid), gal.nat(rid), gal.option(ow, gal.nat), gal.option(oc, gal.nat),
            gal.option(arr, lambda a: a)))
    rs = []
    for (pname, r), o in zip(case['reads'], obs['reads']):
        if o['exc']:
            raise ValueError('implementation raised: ' + o['exc'])
        rid = add(pname, r)
        oc = T.value(o['cache'][0]) if o['cache'][1] is None else None
        rs.append(f'({gal.nat(dts[pname])}, {gal.nat(rid)}, {gal.option(oc, gal.nat)})')
    return 'CE2E [%s] [%s] [%s] [%s]' % ('; '.join(exp), '; '.join(imp), '; '.join(ws), '; '.join(rs))


def shrink(case):
    """smaller e2e cases: one write alone on a node with that parameter only, then without the reads, then single
    writes / reads / unused parameters dropped (every candidate is a real node + client run: keep the list short)"""
    def only(params, writes, reads):
        used = {w[0] for w in writes} | {r[0] for r in reads}
        return dict(case, params=[p for p in params if p[0] in used], writes=writes, reads=reads)
    ws, rs = case['writes'], case['reads']
    if len(ws) + len(rs) > 1:
        for w in ws:
            yield only(case['params'], [w], [])
        for r in rs:
            yield only(case['params'], [], [r])
    if rs and ws:
        yield only(case['params'], ws, [])
    if len(ws) > 1:
        for i in range(len(ws) - 1, -1, -1):
            yield only(case['params'], ws[:i] + ws[i + 1:], rs)
    for i in range(len(rs) - 1, -1, -1):
        if len(ws) + len(rs) > 1:
            yield only(case['params'], ws, rs[:i] + rs[i + 1:])
    for i, w in enumerate(ws):
        if w[2] is not None:
            yield dict(case, writes=ws[:i] + [[w[0], w[1], None]] + ws[i + 1:])


def nontrivial_key(case, obs):
    if not any(o['exc'] is None for o in obs['writes']):
        return None
    return json.dumps([case['params'], case['writes'], case['reads']], sort_keys=True)


def outcome_labels(case, obs):
    labs = {'e2e'}
    dis = dict((p, di) for p, di in case['params'])
    for p, di in case['params']:
        labs.add('e2e:' + di['type'])
    for (p, v, r), o in zip(case['writes'], obs['writes']):
        if dis[p]['type'] == 'struct' and v[0] == 'd' and len(v[1]) < len(dis[p]['members']) and not o['exc']:
            labs.add('e2e:partial-struct-written')
            if set(dis[p].get('optional', [])) == set(dis[p]['members']):
                labs.add('e2e:partial-struct-all-optional')
    return labs
