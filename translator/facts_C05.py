"""facts read off frappy/modulebase.py, frappy/params.py, frappy/protocol/dispatcher.py, frappy/errors.py for C05"""
import ast
from translator import parse, find_class, find_func, Shape, const, cbool, cstr, src, walk_type, is_self_attr, \
    with_lock_bodies

MB = 'frappy/modulebase.py'
PA = 'frappy/params.py'
DI = 'frappy/protocol/dispatcher.py'
ER = 'frappy/errors.py'


def _announce():
    return find_func(find_class(parse(MB), 'Module'), 'announceUpdate')


def _norm(node):
    return src(node).replace(' ', '').replace('(', '').replace(')', '')


def _body_after_docstring(f):
    body = list(f.body)
    if body and isinstance(body[0], ast.Expr) and isinstance(getattr(body[0], 'value', None), ast.Constant) \
            and isinstance(body[0].value.value, str):
        body = body[1:]
    return body


def announce_in_updateLock():
    """the whole body of announceUpdate is one `with self.updateLock:` block"""
    f = _announce()
    body = _body_after_docstring(f)
    ok = (len(body) == 1 and isinstance(body[0], ast.With)
          and any(is_self_attr(i.context_expr, 'updateLock') for i in body[0].items))
    return 'bool', cbool(ok)


def updateLock_is_rlock_per_module():
    """Module.__init__: self.updateLock = threading.RLock() and self.accessLock = threading.RLock()"""
    init = find_func(find_class(parse(MB), 'Module'), '__init__')
    found = set()
    for a in walk_type(init, ast.Assign):
        for t in a.targets:
            for name in ('updateLock', 'accessLock'):
                if is_self_attr(t, name) and _norm(a.value) == 'threading.RLock':
                    found.add(name)
    return 'bool', cbool(found == {'updateLock', 'accessLock'})


def _stmts_in_order(f):
    """(lineno, kind) of the statements of interest inside announceUpdate"""
    res = []
    for n in ast.walk(f):
        if isinstance(n, ast.Assign):
            for t in n.targets:
                if isinstance(t, ast.Attribute) and isinstance(t.value, ast.Name) and t.value.id == 'pobj':
                    res.append((n.lineno, 'set_' + t.attr))
        elif isinstance(n, ast.Return):
            res.append((n.lineno, 'return'))
        elif isinstance(n, ast.Call) and is_self_attr(n.func, 'updateCallback'):
            res.append((n.lineno, 'notify'))
    return sorted(res)


def store_then_notify():
    """pobj.timestamp and pobj.readerror are assigned exactly once each, after both suppressing returns and before
    the single self.updateCallback(self, pobj) call; pobj.value is assigned once, before them"""
    st = _stmts_in_order(_announce())
    kinds = [k for _, k in st]
    ok = kinds == ['set_value', 'return', 'return', 'set_timestamp', 'set_readerror', 'notify']
    return 'bool', cbool(ok)


def notify_only_if_exported():
    """the updateCallback call is the body of `if pobj.export:` and passes (self, pobj)"""
    f = _announce()
    for n in walk_type(f, ast.If):
        if _norm(n.test) == 'pobj.export' and len(n.body) == 1 and not n.orelse:
            if _norm(n.body[0]) == 'self.updateCallbackself,pobj':
                return 'bool', 'true'
    return 'bool', 'false'


def changed_includes_readerror():
    """changed = pobj.value != value or pobj.readerror"""
    for a in walk_type(_announce(), ast.Assign):
        if len(a.targets) == 1 and isinstance(a.targets[0], ast.Name) and a.targets[0].id == 'changed' \
                and _norm(a.value) == 'pobj.value!=valueorpobj.readerror':
            return 'bool', 'true'
    return 'bool', 'false'


def repeated_error_test():
    """if secop_error(err) == pobj.readerror: ... return"""
    for n in walk_type(_announce(), ast.If):
        if _norm(n.test) == 'secop_errorerr==pobj.readerror' and any(isinstance(x, ast.Return) for x in n.body):
            return 'bool', 'true'
    return 'bool', 'false'


def omit_test():
    """if not changed and timestamp < (pobj.timestamp or 0) + pobj.omit_unchanged_within: return"""
    for n in walk_type(_announce(), ast.If):
        if _norm(n.test) == 'notchangedandtimestamp<pobj.timestampor0+pobj.omit_unchanged_within' \
                and any(isinstance(x, ast.Return) for x in n.body):
            return 'bool', 'true'
    return 'bool', 'false'


def _wrapper(name):
    cls = find_class(parse(MB), 'HasAccessibles')
    f = find_func(cls, '__init_subclass__')
    for n in walk_type(f, ast.FunctionDef):
        if n.name == name:
            return n
    raise Shape(f'{name} not found')


def read_wrapper_routes():
    """new_rfunc: everything inside `with self.accessLock`; the except handler calls announceUpdate(pname, err=e) and
    re-raises; the success path calls announceUpdate(pname, value, validate=False)"""
    f = _wrapper('new_rfunc')
    ws = with_lock_bodies(f, 'accessLock')
    if len(f.body) != 1 or not ws or f.body[0] is not ws[0]:
        return 'bool', 'false'
    calls = [_norm(c) for c in walk_type(f, ast.Call) if is_self_attr(c.func, 'announceUpdate')]
    handlers = walk_type(f, ast.ExceptHandler)
    ok = (sorted(calls) == sorted(['self.announceUpdatepname,err=e', 'self.announceUpdatepname,value,validate=False'])
          and len(handlers) == 1 and _norm(handlers[0].type) == 'Exception'
          and any(isinstance(x, ast.Raise) and x.exc is None for x in handlers[0].body)
          and any(is_self_attr(c.func, 'announceUpdate') for c in walk_type(handlers[0], ast.Call)))
    return 'bool', cbool(ok)


def write_wrapper_routes():
    """new_wfunc: inside `with self.accessLock`; one announceUpdate(pname, new_value, validate=False) after the try"""
    f = _wrapper('new_wfunc')
    ws = with_lock_bodies(f, 'accessLock')
    if len(f.body) != 1 or not ws or f.body[0] is not ws[0]:
        return 'bool', 'false'
    calls = [_norm(c) for c in walk_type(f, ast.Call) if is_self_attr(c.func, 'announceUpdate')]
    tries = walk_type(f, ast.Try)
    intry = [c for t in tries for c in walk_type(t, ast.Call) if is_self_attr(c.func, 'announceUpdate')]
    return 'bool', cbool(calls == ['self.announceUpdatepname,new_value,validate=False'] and not intry)


def assignment_routes():
    """Parameter.__set__ calls obj.announceUpdate(self.name, value)"""
    f = find_func(find_class(parse(PA), 'Parameter'), '__set__')
    calls = [_norm(c) for c in walk_type(f, ast.Call)
             if isinstance(c.func, ast.Attribute) and c.func.attr == 'announceUpdate']
    return 'bool', cbool(calls == ['obj.announceUpdateself.name,value'])


def make_update_reads_cache():
    """make_update builds the message from pobj.readerror / pobj.timestamp / pobj.export_value() only"""
    f = find_func(parse(DI), 'make_update')
    attrs = sorted({n.attr for n in walk_type(f, ast.Attribute) if isinstance(n.value, ast.Name) and n.value.id == 'pobj'})
    tests = [_norm(n.test) for n in walk_type(f, ast.If)]
    return 'bool', cbool(attrs == ['export', 'export_value', 'readerror', 'timestamp'] and tests == ['pobj.readerror'])


def announce_update_broadcasts():
    """Dispatcher.announce_update is self.broadcast_event(make_update(moduleobj.name, pobj)); broadcast_event sends to
    subscribers of module:param, of module, and to the active connections"""
    d = find_class(parse(DI), 'Dispatcher')
    f = find_func(d, 'announce_update')
    body = _body_after_docstring(f)
    ok = len(body) == 1 and _norm(body[0]) == 'self.broadcast_eventmake_updatemoduleobj.name,pobj'
    b = find_func(d, 'broadcast_event')
    s = _norm(b)
    ok = ok and 'listeners.updateself._active_connections' in s and 'forconninlisteners:' in s \
        and 'conn.send_replymsg' in s
    return 'bool', cbool(ok)


def update_unchanged_codes():
    """EnumType(always=0, never=999999999, default=-1) of Parameter.update_unchanged -> (always, never, default)"""
    cls = find_class(parse(PA), 'Parameter')
    for a in cls.body:
        if isinstance(a, ast.Assign) and any(isinstance(t, ast.Name) and t.id == 'update_unchanged' for t in a.targets):
            for c in walk_type(a.value, ast.Call):
                if isinstance(c.func, ast.Name) and c.func.id == 'EnumType':
                    kw = {k.arg: const(k.value) for k in c.keywords}
                    return '(Z * Z * Z)', f"(({kw['always']})%Z, ({kw['never']})%Z, ({kw['default']})%Z)"
    raise Shape('update_unchanged enum not found')


def omit_resolution():
    """Parameter.finish: update_unchanged == -1 -> module setting, general setting when that is None; else float(update_unchanged)"""
    f = find_func(find_class(parse(PA), 'Parameter'), 'finish')
    for n in walk_type(f, ast.If):
        if _norm(n.test) == 'self.update_unchanged==-1':
            b = ''.join(_norm(x) for x in n.body)
            e = ''.join(_norm(x) for x in n.orelse)
            ok = ('t=modobj.omit_unchanged_within' in b
                  and 'self.omit_unchanged_within=generalConfig.omit_unchanged_withiniftisNoneelset' in b
                  and e == 'self.omit_unchanged_within=floatself.update_unchanged')
            return 'bool', cbool(ok)
    return 'bool', 'false'


def err_table():
    """every class of frappy/errors.py deriving from SECoPError: (class name, (SECoP name, name2class[name] is the class))"""
    tree = parse(ER)
    classes = {}
    order = []
    for n in tree.body:
        if isinstance(n, ast.ClassDef):
            own = None
            for a in n.body:
                if isinstance(a, ast.Assign) and any(isinstance(t, ast.Name) and t.id == 'name' for t in a.targets):
                    own = const(a.value)
            bases = [b.id for b in n.bases if isinstance(b, ast.Name)]
            classes[n.name] = (own, bases)
            order.append(n.name)
    if 'SECoPError' not in classes:
        raise Shape('SECoPError not found')

    def is_secop(c, seen=()):
        if c == 'SECoPError':
            return True
        return c in classes and any(is_secop(b) for b in classes[c][1])

    def name_of(c):
        # attribute lookup along the (single modelled) inheritance chain: first base that is a SECoPError
        own, bases = classes[c]
        if own is not None:
            return own
        for b in bases:
            if b in classes and is_secop(b):
                return name_of(b)
        raise Shape(f'no name for {c}')
    name2class = {}
    for c in order:
        if c != 'SECoPError' and is_secop(c) and classes[c][0] is not None:
            name2class[classes[c][0]] = c
    # SECoPError.name2class.update(...) aliases do not change entries of existing names
    rows = []
    for c in order:
        if is_secop(c) and c != 'SECoPError':
            nm = name_of(c)
            rows.append(f'({cstr(c)}, ({cstr(nm)}, {cbool(name2class.get(nm) == c)}))')
    return 'list (list N * (list N * bool))', '[' + '; '.join(rows) + ']'


def error_eq_ignores_methods():
    """SECoPError.__eq__ compares type, args and kwds (not raising_methods); format() strips the last raising method"""
    cls = find_class(parse(ER), 'SECoPError')
    eq = find_func(cls, '__eq__')
    ok = _norm(eq.body[-1]) == 'returntypeselfistypeotherandself.args==other.argsandself.kwds==other.kwds'
    fm = _norm(find_func(cls, 'format'))
    ok = ok and 'mlist=mlist[:-1]' in fm and "prefix+=''.join'in'+mforminmlist.strip" in fm
    return 'bool', cbool(ok)


# ------------------------------------------------------------------ activation / fan-out shapes (concurrent clauses)
def _disp_func(name):
    return find_func(find_class(parse(DI), 'Dispatcher'), name)


def _is_registration(call):
    """self.subscribe(conn, ...) or self._active_connections.add(conn)"""
    f = call.func
    if is_self_attr(f, 'subscribe'):
        return 'subscribe'
    if isinstance(f, ast.Attribute) and f.attr == 'add' and is_self_attr(f.value, '_active_connections'):
        return 'add'
    return None


def _snapshot_loop(f):
    """the top-level `for modulename, pname in modules:` of handle_activate and its index in the body"""
    loops = [(i, n) for i, n in enumerate(f.body) if isinstance(n, ast.For)]
    if len(loops) != 1:
        raise Shape('handle_activate: expected exactly one top-level for loop')
    return loops[0]


def activate_registers_first():
    """handle_activate: the connection is registered (self.subscribe(conn, specifier) in the `if specifier:` branch,
    self._active_connections.add(conn) in its else branch) in a statement that precedes the loop sending the initial
    values; there is no other registration"""
    f = _disp_func('handle_activate')
    li, loop = _snapshot_loop(f)
    regs = [(c, _is_registration(c)) for c in walk_type(f, ast.Call) if _is_registration(c)]
    if sorted(k for _, k in regs) != ['add', 'subscribe']:
        return 'bool', 'false'
    ok = False
    for i, n in enumerate(f.body[:li]):
        if isinstance(n, ast.If) and _norm(n.test) == 'specifier':
            in_body = [k for c, k in regs if any(c is x for b in n.body for x in ast.walk(b))]
            in_else = [k for c, k in regs if any(c is x for b in n.orelse for x in ast.walk(b))]
            # neither registration may sit inside a nested loop / function of the branch
            ok = in_body == ['subscribe'] and in_else == ['add']
    return 'bool', cbool(ok)


def snapshot_in_updateLock():
    """handle_activate: the loop body is `moduleobj = self.secnode.modules.get(modulename, None)` followed by one
    `with moduleobj.updateLock:`; every make_update / conn.send_reply of handle_activate is inside that with"""
    f = _disp_func('handle_activate')
    _, loop = _snapshot_loop(f)
    body = [n for n in loop.body if not (isinstance(n, ast.Expr) and isinstance(n.value, ast.Constant))]
    if len(body) != 2 or not isinstance(body[0], ast.Assign) or not isinstance(body[1], ast.With):
        return 'bool', 'false'
    if _norm(body[0]) != 'moduleobj=self.secnode.modules.getmodulename,None':
        return 'bool', 'false'
    w = body[1]
    if [_norm(i.context_expr) for i in w.items] != ['moduleobj.updateLock']:
        return 'bool', 'false'
    inside = {id(x) for x in ast.walk(w)}

    def is_send(c):
        return isinstance(c.func, ast.Attribute) and c.func.attr == 'send_reply'

    def is_make(c):
        return isinstance(c.func, ast.Name) and c.func.id == 'make_update'
    calls = [c for c in walk_type(f, ast.Call) if is_send(c) or is_make(c)]
    ok = bool(calls) and all(id(c) in inside for c in calls) \
        and any(is_send(c) for c in calls) and any(is_make(c) for c in calls)
    # the value is built in the argument of send_reply (no message is kept across the end of the with)
    ok = ok and all(len(c.args) == 1 and isinstance(c.args[0], ast.Call) and is_make(c.args[0])
                    for c in calls if is_send(c))
    return 'bool', cbool(ok)


def broadcast_iterates_private_copy():
    """broadcast_event (not reallyall): `listeners` is assigned once, from `<set>.copy()`, extended only by
    listeners.update(...), and `for conn in listeners:` iterates that name -- never a live attribute"""
    f = _disp_func('broadcast_event')
    ifs = [n for n in f.body if isinstance(n, ast.If) and _norm(n.test) == 'reallyall']
    loops = [n for n in f.body if isinstance(n, ast.For)]
    if len(ifs) != 1 or len(loops) != 1 or not ifs[0].orelse:
        return 'bool', 'false'
    loop = loops[0]
    if not (isinstance(loop.iter, ast.Name) and loop.iter.id == 'listeners'):
        return 'bool', 'false'
    if [_norm(n) for n in loop.body] != ['conn.send_replymsg']:
        return 'bool', 'false'
    assigns = []
    for b in ifs[0].orelse:
        for a in walk_type(b, (ast.Assign, ast.AugAssign, ast.AnnAssign, ast.NamedExpr)):
            tg = a.targets if isinstance(a, ast.Assign) else [a.target]
            if any(isinstance(t, ast.Name) and t.id == 'listeners' for t in tg):
                assigns.append(a)
    if len(assigns) != 1 or not isinstance(assigns[0], ast.Assign):
        return 'bool', 'false'
    v = assigns[0].value
    fresh = isinstance(v, ast.Call) and isinstance(v.func, ast.Attribute) and v.func.attr == 'copy' and not v.args
    # the single assignment is a statement of the else branch itself (not under a condition)
    top = any(a is assigns[0] for a in ifs[0].orelse)
    # nothing between the if and the loop rebinds listeners
    between = f.body[f.body.index(ifs[0]) + 1:f.body.index(loop)]
    rebinding = any(isinstance(t, ast.Name) and t.id == 'listeners'
                    for n in between for a in walk_type(n, ast.Assign) for t in a.targets)
    return 'bool', cbool(fresh and top and not rebinding)


# ------------------------------------------------------------------ parameter callbacks
def _cb_loop():
    """(body of the `with self.updateLock:` of announceUpdate, index of its single top-level for loop)"""
    body = _body_after_docstring(_announce())
    if len(body) != 1 or not isinstance(body[0], ast.With):
        raise Shape('announceUpdate: body is not one with statement')
    wb = body[0].body
    loops = [i for i, n in enumerate(wb) if isinstance(n, ast.For)]
    if len(loops) != 1:
        raise Shape('announceUpdate: expected exactly one for loop at the top level of the with body')
    return wb, loops[0]


def _cb_try():
    wb, i = _cb_loop()
    loop = wb[i]
    if len(loop.body) != 1 or not isinstance(loop.body[0], ast.Try):
        raise Shape('callback loop: body is not one try statement')
    t = loop.body[0]
    if len(t.handlers) != 1:
        raise Shape('callback loop: expected exactly one except clause')
    return wb, i, loop, t


def callback_except_class():
    """the class named by the single except clause around the callback call ("Exception" on the pinned tree; a bare
    except has no name and is omitted = fail closed)"""
    _, _, _, t = _cb_try()
    typ = t.handlers[0].type
    if not isinstance(typ, ast.Name):
        raise Shape('callback loop: except clause does not name one class')
    return 'list N', cstr(typ.id)


def callback_loop_shape():
    """announceUpdate: `pobj.readerror = err` is directly followed by
         for cbfunc, cbargs in self.paramCallbacks[pname]:
             try: cbfunc(*cbargs, *value_err)
             except <one class>: pass
    (no else / finally / break / continue / return / raise inside), which is directly followed by the last statement
    of the with body, `if pobj.export: self.updateCallback(self, pobj)`; value_err is (value, err) / (value,)"""
    wb, i, loop, t = _cb_try()
    ok = (0 < i == len(wb) - 2 and _norm(wb[i - 1]) == 'pobj.readerror=err'
          and _norm(wb[i + 1]) == 'ifpobj.export:\nself.updateCallbackself,pobj'
          and _norm(loop.target) == 'cbfunc,cbargs' and _norm(loop.iter) == 'self.paramCallbacks[pname]'
          and not loop.orelse and not t.orelse and not t.finalbody
          and [_norm(x) for x in t.body] == ['cbfunc*cbargs,*value_err']
          and len(t.handlers[0].body) == 1 and isinstance(t.handlers[0].body[0], ast.Pass)
          and not walk_type(loop, (ast.Break, ast.Continue, ast.Return, ast.Raise)))
    ve = sorted(_norm(a) for a in walk_type(_announce(), ast.Assign)
                if any(isinstance(x, ast.Name) and x.id == 'value_err' for x in a.targets))
    ok = ok and ve == ['value_err=value,', 'value_err=value,err']
    return 'bool', cbool(ok)


def callback_registration_shape():
    """addCallback(self, pname, callback_function, *args) appends (callback_function, args) to paramCallbacks[pname];
    registerCallbacks: for pname in self.parameters: update_<pname> of the follower if it has one, else its
    announceUpdate with the argument pname when pname is in autoupdate"""
    m = find_class(parse(MB), 'Module')
    a = find_func(m, 'addCallback')
    ok = ([x.arg for x in a.args.args] == ['self', 'pname', 'callback_function'] and a.args.vararg is not None
          and a.args.vararg.arg == 'args' and not a.args.kwonlyargs and not a.args.defaults
          and [_norm(x) for x in _body_after_docstring(a)] == ['self.paramCallbacks[pname].appendcallback_function,args'])
    r = find_func(m, 'registerCallbacks')
    ok = ok and [_norm(x) for x in _body_after_docstring(r)] == [
        'autoupdate=setautoupdate',
        "forpnameinself.parameters:\ncbfunc=getattrmodobj,'update_'+pname,None\nifcbfunc:\nself.addCallbackpname,cbfunc\n"
        'elifpnameinautoupdate:\nself.addCallbackpname,modobj.announceUpdate,pname']
    return 'bool', cbool(ok)


def export_value_pure():
    """Parameter.export_value is exactly `return self.datatype.export_value(self.value)`: the exported form is a pure
    function of the cached value, nothing is stored on the Parameter (no memo a thread without updateLock could
    write); and no other function of params.py assigns an attribute whose name starts with `_export`"""
    cls = find_class(parse(PA), 'Parameter')
    f = find_func(cls, 'export_value')
    body = _body_after_docstring(f)
    ok = len(body) == 1 and isinstance(body[0], ast.Return) and body[0].value is not None \
        and src(body[0].value).replace(' ', '') == 'self.datatype.export_value(self.value)'
    ok = ok and [a.arg for a in f.args.args] == ['self'] and not f.decorator_list
    stores = [n for n in walk_type(f, ast.Attribute) if isinstance(n.ctx, (ast.Store, ast.Del))]
    return 'bool', cbool(ok and not stores)


def reply_built_from_cache():
    """Dispatcher._getParameterValue / _setParameterValue: the last two statements are the call of the wrapped
    read_ / write_ method and `return pobj.export_value(), {'t': pobj.timestamp} if pobj.timestamp else {}`; nothing
    in these functions assigns an attribute or a subscript; handle_read / handle_change return the reply made of it"""
    d = find_class(parse(DI), 'Dispatcher')
    ok = True
    for name, call in (('_getParameterValue', "getattr(moduleobj,'read_'+pname)()"),
                       ('_setParameterValue', "getattr(moduleobj,'write_'+pname)(value)")):
        f = find_func(d, name)
        body = _body_after_docstring(f)
        if len(body) < 2:
            raise Shape(f'{name}: body too short')
        ok = ok and isinstance(body[-2], ast.Expr) and src(body[-2]).replace(' ', '') == call
        ok = ok and isinstance(body[-1], ast.Return) and src(body[-1]).replace(' ', '') == \
            "return(pobj.export_value(),{'t':pobj.timestamp}ifpobj.timestampelse{})"
        ok = ok and not [n for n in list(walk_type(f, ast.Attribute)) + list(walk_type(f, ast.Subscript))
                         if isinstance(n.ctx, (ast.Store, ast.Del))]
    for name, inner, rep in (('handle_read', '_getParameterValue(modulename,pname)', 'READREPLY'),
                             ('handle_change', '_setParameterValue(modulename,pname,data)', 'WRITEREPLY')):
        f = find_func(d, name)
        body = _body_after_docstring(f)
        ok = ok and isinstance(body[-1], ast.Return) and src(body[-1]).replace(' ', '') == \
            f'return({rep},specifier,list(self.{inner}))'
    return 'bool', cbool(ok)


FACTS = [announce_in_updateLock, updateLock_is_rlock_per_module, store_then_notify, notify_only_if_exported,
         changed_includes_readerror, repeated_error_test, omit_test, read_wrapper_routes, write_wrapper_routes,
         assignment_routes, make_update_reads_cache, announce_update_broadcasts, update_unchanged_codes,
         omit_resolution, err_table, error_eq_ignores_methods, activate_registers_first, snapshot_in_updateLock,
         broadcast_iterates_private_copy, callback_except_class, callback_loop_shape, callback_registration_shape, export_value_pure, reply_built_from_cache]

FINGERPRINTS = {
    'Module.announceUpdate': _announce,
    'HasAccessibles.new_rfunc': lambda: _wrapper('new_rfunc'),
    'HasAccessibles.new_wfunc': lambda: _wrapper('new_wfunc'),
    'Parameter.__set__': lambda: find_func(find_class(parse(PA), 'Parameter'), '__set__'),
    'dispatcher.make_update': lambda: find_func(parse(DI), 'make_update'),
    'Dispatcher.broadcast_event': lambda: find_func(find_class(parse(DI), 'Dispatcher'), 'broadcast_event'),
    'Dispatcher.announce_update': lambda: find_func(find_class(parse(DI), 'Dispatcher'), 'announce_update'),
    'SECoPError.format': lambda: find_func(find_class(parse(ER), 'SECoPError'), 'format'),
    'SECoPError.__eq__': lambda: find_func(find_class(parse(ER), 'SECoPError'), '__eq__'),
    'errors.secop_error': lambda: find_func(parse(ER), 'secop_error'),
    'Dispatcher.handle_activate': lambda: _disp_func('handle_activate'),
    'Dispatcher.handle_deactivate': lambda: _disp_func('handle_deactivate'),
    'Dispatcher.subscribe': lambda: _disp_func('subscribe'),
    'Dispatcher.unsubscribe': lambda: _disp_func('unsubscribe'),
    'Dispatcher.reset_connection': lambda: _disp_func('reset_connection'),
    'Dispatcher.remove_connection': lambda: _disp_func('remove_connection'),
    'Module.addCallback': lambda: find_func(find_class(parse(MB), 'Module'), 'addCallback'),
    'Module.registerCallbacks': lambda: find_func(find_class(parse(MB), 'Module'), 'registerCallbacks'),
}
