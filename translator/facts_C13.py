"""facts read off frappy/modulebase.py and frappy/rwhandler.py for C13 (poll thread)"""
import ast
from translator import parse, find_class, find_func, Shape, const, cbool, cz, src, walk_type, is_self_attr

F = 'frappy/modulebase.py'
H = 'frappy/rwhandler.py'
TICK = 1024


def _module():
    return find_class(parse(F), 'Module')


def _thread():
    return find_func(_module(), "__pollThread")


def _callpoll():
    return find_func(_module(), 'callPollFunc')


def _pollinfo():
    return find_class(parse(F), 'PollInfo')


def _norm(node):
    return src(node).replace(' ', '').replace('\n', '')


def _main_while():
    """the `while modules:` loop of the thread body"""
    ws = [n for n in _thread().body if isinstance(n, ast.While) and _norm(n.test) == 'modules']
    if len(ws) != 1:
        raise Shape('expected exactly one top-level `while modules:` loop')
    return ws[0]


def _ticks(x):
    if isinstance(x, bool) or not isinstance(x, (int, float)):
        raise Shape(f'not a number: {x!r}')
    return int(round(x * TICK))


def max_wait_ticks():
    """wait_time = <number> at the top of each turn"""
    w = _main_while()
    vals = [n.value for n in w.body if isinstance(n, ast.Assign) and _norm(n.targets[0]) == 'wait_time']
    if len(vals) != 1:
        raise Shape('expected exactly one top-level assignment wait_time = <const> in the loop')
    return 'Z', cz(_ticks(const(vals[0])))


def startup_wait_ticks():
    """self.triggerPoll.wait(<number>) in the start-up phase (outside the main loop)"""
    th = _thread()
    w = _main_while()
    inside = set(id(n) for n in ast.walk(w))
    calls = [c for c in walk_type(th, ast.Call) if id(c) not in inside and _norm(c.func) == 'self.triggerPoll.wait']
    if len(calls) != 1 or len(calls[0].args) != 1:
        raise Shape('expected exactly one self.triggerPoll.wait(<const>) in the start-up phase')
    return 'Z', cz(_ticks(const(calls[0].args[0])))


def _wrapper_poll_assigns():
    """the two assignments new_rfunc.poll = ... in HasAccessibles.__init_subclass__"""
    cls = find_class(parse(F), 'HasAccessibles')
    f = find_func(cls, '__init_subclass__')
    ifs = [n for n in walk_type(f, ast.If) if _norm(n.test) == 'rfunc']
    if len(ifs) != 1:
        raise Shape('expected exactly one `if rfunc:` in __init_subclass__')
    def assigned(stmts):
        vals = [s.value for s in stmts if isinstance(s, ast.Assign) and _norm(s.targets[0]) == 'new_rfunc.poll']
        if len(vals) != 1:
            raise Shape('expected exactly one new_rfunc.poll assignment per branch')
        return vals[0]
    return assigned(ifs[0].body), assigned(ifs[0].orelse)


def poll_default_read():
    """new_rfunc.poll = getattr(rfunc, 'poll', <default>)"""
    v, _ = _wrapper_poll_assigns()
    if not (isinstance(v, ast.Call) and _norm(v.func) == 'getattr' and len(v.args) == 3
            and _norm(v.args[0]) == 'rfunc' and const(v.args[1]) == 'poll'):
        raise Shape('wrapper poll flag is not getattr(rfunc, "poll", default)')
    return 'bool', cbool(const(v.args[2]) is True)


def poll_without_read_func():
    _, v = _wrapper_poll_assigns()
    return 'bool', cbool(const(v) is not False)


def nopoll_value():
    """def nopoll(func): func.poll = <value>"""
    f = find_func(parse(H), 'nopoll')
    vals = [s.value for s in f.body if isinstance(s, ast.Assign) and _norm(s.targets[0]) == 'func.poll']
    if len(vals) != 1:
        raise Shape('nopoll does not assign func.poll exactly once')
    return 'bool', cbool(const(vals[0]) is not False)


def poll_default_handler():
    """ReadHandler.poll = True and Handler.__set_name__: wrapped.poll = getattr(wrapped, 'poll', self.poll);
    CommonReadHandler: method.poll = self.poll and getattr(method, 'poll', True) if key == self.first_key else ..."""
    tree = parse(H)
    rh = find_class(tree, 'ReadHandler')
    vals = [s.value for s in rh.body if isinstance(s, ast.Assign) and _norm(s.targets[0]) == 'poll']
    if len(vals) != 1:
        raise Shape('ReadHandler.poll not found')
    sn = find_func(find_class(tree, 'Handler'), '__set_name__')
    ok = any(_norm(a) == "wrapped.poll=getattr(wrapped,'poll',self.poll)" for a in walk_type(sn, ast.Assign))
    if not ok:
        raise Shape('Handler.__set_name__: wrapped.poll assignment not found')
    cw = find_func(find_class(tree, 'CommonReadHandler'), 'wrap')
    a = [s for s in walk_type(cw, ast.Assign) if _norm(s.targets[0]) == 'method.poll']
    if len(a) != 1 or not isinstance(a[0].value, ast.IfExp) or _norm(a[0].value.test) != 'key==self.first_key' \
            or _norm(a[0].value.body) != "self.pollandgetattr(method,'poll',True)":
        raise Shape('CommonReadHandler.wrap: method.poll assignment has an unexpected shape')
    return 'bool', cbool(const(vals[0]) is True)


def poll_common_rest():
    cw = find_func(find_class(parse(H), 'CommonReadHandler'), 'wrap')
    a = [s for s in walk_type(cw, ast.Assign) if _norm(s.targets[0]) == 'method.poll']
    if len(a) != 1 or not isinstance(a[0].value, ast.IfExp):
        raise Shape('CommonReadHandler.wrap: method.poll assignment not found')
    return 'bool', cbool(const(a[0].value.orelse) is not False)


def thread_collects_only_polled():
    """polled_parameters.append(...) only under `if rfunc.poll:` with rfunc = getattr(mobj, 'read_' + pname)"""
    th = _thread()
    apps = [c for c in walk_type(th, ast.Call) if _norm(c.func) == 'pinfo.polled_parameters.append']
    if len(apps) != 1:
        raise Shape('expected exactly one polled_parameters.append')
    guarded = False
    for i in walk_type(th, ast.If):
        if _norm(i.test) == 'rfunc.poll' and any(apps[0] is c for c in walk_type(i, ast.Call)) and not i.orelse:
            guarded = True
    getter = any(_norm(a) == "rfunc=getattr(mobj,'read_'+pname)" for a in walk_type(th, ast.Assign))
    # no other way into to_poll than polled_parameters
    ext = [c for c in walk_type(th, ast.Call) if _norm(c.func) == 'to_poll.extend']
    only = len(ext) == 1 and _norm(ext[0].args[0]) == 'pinfo.polled_parameters'
    return 'bool', cbool(guarded and getter and only)


def callpoll_contains_exceptions():
    """callPollFunc: the body is one try whose only handler catches Exception; rfunc() is called inside it"""
    f = _callpoll()
    stmts = [s for s in f.body if not (isinstance(s, ast.Expr) and isinstance(s.value, ast.Constant))]
    if len(stmts) != 1 or not isinstance(stmts[0], ast.Try):
        raise Shape('callPollFunc: body is not a single try statement')
    t = stmts[0]
    ok = (len(t.handlers) == 1 and t.handlers[0].type is not None and _norm(t.handlers[0].type) == 'Exception'
          and not t.finalbody and any(_norm(c) == 'rfunc()' for c in walk_type(ast.Module(body=t.body, type_ignores=[]), ast.Call)))
    return 'bool', cbool(ok)


def callpoll_reraise_guarded():
    """the only raise in callPollFunc is under `if raise_com_failed and isinstance(e, CommunicationFailedError)`"""
    f = _callpoll()
    raises = walk_type(f, ast.Raise)
    if len(raises) != 1:
        return 'bool', 'false'
    for i in walk_type(f, ast.If):
        if _norm(i.test) == 'raise_com_failedandisinstance(e,CommunicationFailedError)' \
                and any(raises[0] is r for r in i.body):
            d = f.args.defaults
            return 'bool', cbool(len(d) == 1 and const(d[0]) is False)
    return 'bool', 'false'


def mainloop_never_reraises():
    """inside the main loop callPollFunc is called with the function only"""
    w = _main_while()
    calls = [c for c in walk_type(w, ast.Call) if isinstance(c.func, ast.Attribute) and c.func.attr == 'callPollFunc']
    if len(calls) != 2:
        raise Shape('expected two callPollFunc calls in the main loop')
    return 'bool', cbool(all(len(c.args) == 1 and not c.keywords for c in calls)
                         and not walk_type(w, ast.Raise) and not walk_type(w, ast.Return))


def main_due_rule():
    """`if pinfo and now > pinfo.last_main + pinfo.interval:` then last_main = (now // interval) * interval,
    ZeroDivisionError -> last_main = now, then callPollFunc(mobj.doPoll)"""
    w = _main_while()
    ifs = [i for i in walk_type(w, ast.If) if _norm(i.test) == 'pinfoandnow>pinfo.last_main+pinfo.interval']
    if len(ifs) != 1:
        return 'bool', 'false'
    body = ifs[0].body
    ok = (len(body) == 2 and isinstance(body[0], ast.Try)
          and _norm(body[0].body[0]) == 'pinfo.last_main=now//pinfo.interval*pinfo.interval'
          and len(body[0].handlers) == 1 and _norm(body[0].handlers[0].type) == 'ZeroDivisionError'
          and _norm(body[0].handlers[0].body[0]) == 'pinfo.last_main=now'
          and _norm(body[1]) == 'mobj.callPollFunc(mobj.doPoll)')
    return 'bool', cbool(ok)


def wait_rule():
    """wait_time = min(last_main + interval - now, wait_time, last_slow + slowinterval - now);
    `if wait_time > 0 and not to_poll:` wait, clear, continue"""
    w = _main_while()
    a = any(_norm(x) == 'wait_time=min(pinfo.last_main+pinfo.interval-now,wait_time,pinfo.last_slow+mobj.slowinterval-now)'
            for x in walk_type(w, ast.Assign))
    ifs = [i for i in w.body if isinstance(i, ast.If) and _norm(i.test) == 'wait_time>0and(notto_poll)']
    ok = a and len(ifs) == 1 and [_norm(s) for s in ifs[0].body] == \
        ['self.triggerPoll.wait(wait_time)', 'self.triggerPoll.clear()', 'continue']
    return 'bool', cbool(ok)


def slow_fresh_twice():
    """`if now > pobj.timestamp + mobj.slowinterval * <c>:` -> 2*c"""
    w = _main_while()
    for i in walk_type(w, ast.If):
        t = i.test
        if isinstance(t, ast.Compare) and _norm(t.left) == 'now' and isinstance(t.ops[0], ast.Gt):
            r = t.comparators[0]
            if isinstance(r, ast.BinOp) and _norm(r.left) == 'pobj.timestamp' and isinstance(r.op, ast.Add) \
                    and isinstance(r.right, ast.BinOp) and _norm(r.right.left) == 'mobj.slowinterval' \
                    and isinstance(r.right.op, ast.Mult):
                c = const(r.right.right) * 2
                if c != int(c):
                    raise Shape('freshness factor is not a multiple of 1/2')
                # one slow poll per turn: the call is followed by loop = False and break
                rest = [_norm(s) for s in i.body]
                if rest != ['mobj.callPollFunc(rfunc)', 'loop=False', 'break']:
                    raise Shape('slow poll branch is not call; loop = False; break')
                return 'Z', cz(int(c))
    raise Shape('slow poll freshness test not found')


def refill_rule():
    """`if pinfo and now > pinfo.last_slow + mobj.slowinterval:` extend + last_slow = (now // si) * si"""
    w = _main_while()
    ifs = [i for i in walk_type(w, ast.If) if _norm(i.test) == 'pinfoandnow>pinfo.last_slow+mobj.slowinterval']
    ok = len(ifs) == 1 and [_norm(s) for s in ifs[0].body] == \
        ['to_poll.extend(pinfo.polled_parameters)', 'pinfo.last_slow=now//mobj.slowinterval*mobj.slowinterval']
    return 'bool', cbool(ok)


def main_clock_per_module():
    """main polls: the body of `for mobj in modules:` is exactly  pinfo = mobj.pollInfo / if <due>: ... /
    now = time.time()  - the clock is read again INSIDE the loop body, after each module, so that the due test of the
    next module sees the time its turn comes (no else branch, no break/continue in the loop)"""
    w = _main_while()
    loops = [f for f in w.body if isinstance(f, ast.For)
             and any(_norm(i.test) == 'pinfoandnow>pinfo.last_main+pinfo.interval' for i in walk_type(f, ast.If))]
    if len(loops) != 1:
        raise Shape('expected exactly one top-level for loop with the main due test in the main loop')
    f = loops[0]
    ok = (_norm(f.target) == 'mobj' and _norm(f.iter) == 'modules' and not f.orelse and len(f.body) == 3
          and _norm(f.body[0]) == 'pinfo=mobj.pollInfo'
          and isinstance(f.body[1], ast.If) and _norm(f.body[1].test) == 'pinfoandnow>pinfo.last_main+pinfo.interval'
          and not f.body[1].orelse
          and _norm(f.body[2]) == 'now=time.time()'
          and not walk_type(f, ast.Break) and not walk_type(f, ast.Continue))
    return 'bool', cbool(ok)


def refill_all_due():
    """refill of the slow poll iterator: `to_poll = []`, then `for mobj in modules:` whose body is exactly
    pinfo = mobj.pollInfo / if <round due>: to_poll.extend(pinfo.polled_parameters); last_slow = ...  - over ALL
    modules (no break/continue/else in this loop), then `if to_poll: to_poll = iter(to_poll) else: loop = False`;
    all this is the else branch of the loop over the iterator"""
    w = _main_while()
    outer = [f for f in walk_type(w, ast.For) if _norm(f.iter) == 'to_poll']
    if len(outer) != 1:
        raise Shape('expected exactly one loop over to_poll')
    e = outer[0].orelse
    if len(e) != 3:
        return 'bool', 'false'
    f = e[1]
    ok = (_norm(e[0]) == 'to_poll=[]'
          and isinstance(f, ast.For) and _norm(f.target) == 'mobj' and _norm(f.iter) == 'modules' and not f.orelse
          and len(f.body) == 2 and _norm(f.body[0]) == 'pinfo=mobj.pollInfo'
          and isinstance(f.body[1], ast.If) and _norm(f.body[1].test) == 'pinfoandnow>pinfo.last_slow+mobj.slowinterval'
          and not f.body[1].orelse
          and [_norm(x) for x in f.body[1].body] == ['to_poll.extend(pinfo.polled_parameters)',
                                                     'pinfo.last_slow=now//mobj.slowinterval*mobj.slowinterval']
          and not walk_type(f, ast.Break) and not walk_type(f, ast.Continue)
          and isinstance(e[2], ast.If) and _norm(e[2].test) == 'to_poll'
          and [_norm(x) for x in e[2].body] == ['to_poll=iter(to_poll)']
          and [_norm(x) for x in e[2].orelse] == ['loop=False'])
    return 'bool', cbool(ok)


def initialreads_contained():
    """start-up: `mobj.initialReads()` is the only statement of a try whose handlers are
    `except CommunicationFailedError: raise` and `except Exception:` without any raise"""
    th = _thread()
    w = _main_while()
    inside = set(id(n) for n in ast.walk(w))
    calls = [c for c in walk_type(th, ast.Call) if id(c) not in inside and _norm(c.func) == 'mobj.initialReads']
    if len(calls) != 1:
        raise Shape('expected exactly one mobj.initialReads() call in the start-up phase')
    for t in walk_type(th, ast.Try):
        if len(t.body) == 1 and _norm(t.body[0]) == 'mobj.initialReads()':
            hs = t.handlers
            ok = (len(hs) == 2 and not t.finalbody and not t.orelse
                  and hs[0].type is not None and _norm(hs[0].type) == 'CommunicationFailedError'
                  and [_norm(x) for x in hs[0].body] == ['raise']
                  and hs[1].type is not None and _norm(hs[1].type) == 'Exception'
                  and not walk_type(ast.Module(body=hs[1].body, type_ignores=[]), ast.Raise)
                  and not walk_type(ast.Module(body=hs[1].body, type_ignores=[]), ast.Return))
            return 'bool', cbool(ok)
    return 'bool', 'false'


def startup_single_pass():
    """the start-up phase is ONE pass: `while True:` whose body is try (ending in break) / except
    CommunicationFailedError, then self.triggerPoll.wait(..), then break"""
    ws = [n for n in _thread().body if isinstance(n, ast.While) and isinstance(n.test, ast.Constant) and n.test.value is True]
    if len(ws) != 1:
        raise Shape('expected exactly one top-level `while True:` start-up loop')
    b = ws[0].body
    ok = (len(b) == 3 and isinstance(b[0], ast.Try) and isinstance(b[0].body[-1], ast.Break)
          and len(b[0].handlers) == 1 and b[0].handlers[0].type is not None
          and _norm(b[0].handlers[0].type) == 'CommunicationFailedError'
          and not walk_type(ast.Module(body=b[0].handlers[0].body, type_ignores=[]), ast.Continue)
          and isinstance(b[1], ast.Expr) and isinstance(b[1].value, ast.Call)
          and _norm(b[1].value.func) == 'self.triggerPoll.wait'
          and isinstance(b[2], ast.Break) and not ws[0].orelse)
    return 'bool', cbool(ok)


def trigger_rule():
    """PollInfo.trigger / update_interval and Module.setFastPoll shapes"""
    pi = _pollinfo()
    tr = [_norm(s) for s in find_func(pi, 'trigger').body if not isinstance(getattr(s, 'value', None), ast.Constant)]
    ui = [_norm(s) for s in find_func(pi, 'update_interval').body]
    sf = [_norm(s) for s in find_func(_module(), 'setFastPoll').body
          if not isinstance(getattr(s, 'value', None), ast.Constant)]
    ok = (tr == ['ifimmediate:self.last_main=0', 'self.trigger_event.set()']
          and ui == ['ifnotself.fast_flag:self.interval=pollintervalself.trigger()']
          and sf == ['ifself.pollInfo:self.pollInfo.fast_flag=flagself.pollInfo.interval=fast_intervalifflagelseself.pollintervalself.pollInfo.trigger()'])
    return 'bool', cbool(ok)


def timestamp_default_zero():
    """a polled parameter that was never announced (its first read was skipped because the start-up reads were abandoned
    after a communication failure) still carries the class default of `Parameter.timestamp` when the main loop reaches
    its slow-poll due test `now > pobj.timestamp + ...`: the default must be the NUMBER 0 (the model starts every time
    stamp at 0; with None the due test raises TypeError outside every try and the thread dies).  Also pinned: pobj is
    the Parameter object taken from mobj.parameters and carried through polled_parameters into to_poll"""
    cls = find_class(parse('frappy/params.py'), 'Parameter')
    vals = []
    for s in cls.body:
        if isinstance(s, ast.Assign) and any(_norm(t) == 'timestamp' for t in s.targets):
            vals.append(s.value)
        elif isinstance(s, ast.AnnAssign) and _norm(s.target) == 'timestamp':
            vals.append(s.value)
    if len(vals) != 1:
        raise Shape('expected exactly one class-level assignment `timestamp = <default>` in frappy.params.Parameter')
    v = vals[0]
    zero = (isinstance(v, ast.Constant) and isinstance(v.value, (int, float)) and not isinstance(v.value, bool)
            and v.value == 0)
    # nothing in Parameter.__init__ replaces the default by something else
    init = find_func(cls, '__init__')
    no_init = not any(_norm(t) == 'self.timestamp' for a in walk_type(init, ast.Assign) for t in a.targets)
    th = _thread()
    w = _main_while()
    items = [f for f in walk_type(th, ast.For) if _norm(f.iter) == 'mobj.parameters.items()'
             and _norm(f.target) in ('(pname,pobj)', 'pname,pobj')]
    apps = [c for c in walk_type(th, ast.Call) if _norm(c.func) == 'pinfo.polled_parameters.append']
    plumbing = (len(items) == 1 and len(apps) == 1 and len(apps[0].args) == 1
                and _norm(apps[0].args[0]) == '(mobj,rfunc,pobj)'
                and any(apps[0] is c for c in walk_type(items[0], ast.Call))
                and any(_norm(f.iter) == 'to_poll' and _norm(f.target) in ('(mobj,rfunc,pobj)', 'mobj,rfunc,pobj')
                        for f in walk_type(w, ast.For)))
    return 'bool', cbool(zero and no_init and plumbing)


def pollinfo_only_polled_modules():
    """modules with enablePoll = False never get a PollInfo (so `if pinfo and ...` keeps the main loop away from their
    doPoll and from their parameters): `polled_modules = [m for m in modules if m.enablePoll]` is the only assignment
    to polled_modules; the only place in the thread where a pollInfo attribute is assigned is the first statement
    `pinfo = mobj.pollInfo = PollInfo(mobj.pollinterval, self.triggerPoll)` of a top-level `for mobj in polled_modules:`
    loop without continue/break/else; the class default is `pollInfo = None`"""
    th = _thread()
    pm = [a for a in walk_type(th, ast.Assign) if any(_norm(t) == 'polled_modules' for t in a.targets)]
    others = [n for n in ast.walk(th) if isinstance(n, (ast.AugAssign, ast.AnnAssign)) and _norm(n.target) == 'polled_modules']
    muts = [c for c in walk_type(th, ast.Call) if isinstance(c.func, ast.Attribute)
            and _norm(c.func.value) == 'polled_modules']
    if len(pm) != 1 or pm[0] not in th.body:
        raise Shape('expected exactly one top-level assignment to polled_modules')
    sel = _norm(pm[0].value) == '[mforminmodulesifm.enablePoll]' and not others and not muts
    # every store into an attribute called pollInfo
    stores = []
    for a in walk_type(th, ast.Assign):
        for t in a.targets:
            for n in ast.walk(t):
                if isinstance(n, ast.Attribute) and n.attr == 'pollInfo' and isinstance(n.ctx, ast.Store):
                    stores.append(a)
    setattrs = [c for c in walk_type(th, ast.Call) if _norm(c.func) == 'setattr']
    loops = [f for f in th.body if isinstance(f, ast.For) and f.body and f.body[0] in stores]
    if len(loops) != 1:
        raise Shape('expected exactly one top-level for loop whose first statement creates the PollInfo')
    f = loops[0]
    ok = (sel and len(stores) == 1 and not setattrs
          and _norm(f.target) == 'mobj' and _norm(f.iter) == 'polled_modules' and not f.orelse
          and _norm(f.body[0]) == 'pinfo=mobj.pollInfo=PollInfo(mobj.pollinterval,self.triggerPoll)'
          and not walk_type(f, ast.Continue) and not walk_type(f, ast.Break))
    dflt = [s.value for s in _module().body if isinstance(s, ast.Assign) and any(_norm(t) == 'pollInfo' for t in s.targets)]
    ok = ok and len(dflt) == 1 and isinstance(dflt[0], ast.Constant) and dflt[0].value is None
    # the main loop reaches doPoll / the parameters of a module only through `pinfo = mobj.pollInfo; if pinfo and ...`
    # (facts main_clock_per_module, refill_all_due, wait_rule); the first reads use polled_modules
    first = [g for g in walk_type(th, ast.For) if _norm(g.iter) == 'm.pollInfo.polled_parameters']
    ok = ok and len(first) == 1 and any(
        _norm(g.iter) == 'polled_modules' and _norm(g.target) == 'm' and any(first[0] is x for x in walk_type(g, ast.For))
        for g in walk_type(th, ast.For))
    return 'bool', cbool(ok)


FACTS = [max_wait_ticks, startup_wait_ticks, poll_default_read, poll_without_read_func, nopoll_value,
         poll_default_handler, poll_common_rest, thread_collects_only_polled, callpoll_contains_exceptions,
         callpoll_reraise_guarded, mainloop_never_reraises, main_due_rule, wait_rule, slow_fresh_twice,
         refill_rule, trigger_rule, initialreads_contained, startup_single_pass,
         main_clock_per_module, refill_all_due, timestamp_default_zero, pollinfo_only_polled_modules]

FINGERPRINTS = {
    'Module.__pollThread': _thread,
    'Module.callPollFunc': _callpoll,
    'Module.setFastPoll': lambda: find_func(_module(), 'setFastPoll'),
    'PollInfo': _pollinfo,
    'nopoll': lambda: find_func(parse(H), 'nopoll'),
    'CommonReadHandler.wrap': lambda: find_func(find_class(parse(H), 'CommonReadHandler'), 'wrap'),
    'Handler.__set_name__': lambda: find_func(find_class(parse(H), 'Handler'), '__set_name__'),
}
