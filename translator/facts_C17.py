"""facts read off frappy/persistent.py (and frappy/modulebase.py) for C17"""
import ast
from translator import parse, find_class, find_func, Shape, cbool, src, walk_type, is_self_attr

F = 'frappy/persistent.py'
MB = 'frappy/modulebase.py'


def _mixin():
    return find_class(parse(F), 'PersistentMixin')


def _save():
    return find_func(_mixin(), '__save_params')


def _norm(node):
    return src(node).replace(' ', '').replace('\n', '')


def _is_call(node, dotted):
    """node is a call of a.b / name"""
    return isinstance(node, ast.Call) and _norm(node.func) == dotted


def _change_if():
    """the `if data != self.persistentData:` statement of __save_params"""
    f = _save()
    ifs = [n for n in f.body if isinstance(n, ast.If)]
    if len(ifs) != 1:
        raise Shape('__save_params: expected exactly one top-level if')
    return ifs[0]


def _try():
    tries = [n for n in _change_if().body if isinstance(n, ast.Try)]
    if len(tries) != 1:
        raise Shape('__save_params: expected exactly one try statement in the if body')
    return tries[0]


def _tmp_names():
    """names bound to <persistentFile>.parent / (<persistentFile>.name + '.tmp')"""
    names = []
    for a in walk_type(_save(), ast.Assign):
        s = _norm(a.value)
        if s in ("self.persistentFile.parent/(self.persistentFile.name+'.tmp')",
                 "persistentdir/(self.persistentFile.name+'.tmp')"):
            for t in a.targets:
                if isinstance(t, ast.Name):
                    names.append(t.id)
    if len(names) != 1:
        raise Shape('__save_params: temporary file name not found')
    return names[0]


def change_detection():
    """if data != self.persistentData, data being the dict of export_value() of the persistent parameters"""
    f = _save()
    test = _norm(_change_if().test)
    first = f.body[0]
    ok = test == 'data!=self.persistentData' and isinstance(first, ast.Assign) and \
        _norm(first) == "data={k:v.export_value()fork,vinself.parameters.items()ifgetattr(v,'persistent',False)}"
    return 'bool', cbool(ok and not _change_if().orelse)


def pdata_assigned_after_rename():
    """the only assignment self.persistentData = data of __save_params directly follows os.rename(...) inside the try
    body (so it is reached only when the new file is in place), and the dumped object is `data`"""
    t = _try()
    assigns = [n for n in walk_type(_save(), ast.Assign) if any(is_self_attr(x, 'persistentData') for x in n.targets)]
    if len(assigns) != 1:
        raise Shape('__save_params: expected exactly one assignment to self.persistentData')
    ok = len(t.body) == 3 and t.body[2] is assigns[0] and _norm(assigns[0].value) == 'data' and \
        isinstance(t.body[1], ast.Expr) and _is_call(t.body[1].value, 'os.rename')
    return 'bool', cbool(ok)


def writes_go_to_tmp():
    """the only open(..., 'w') of the class opens the temporary file; json.dump and f.write go to that file"""
    tmp = _tmp_names()
    opens = [c for c in walk_type(_mixin(), ast.Call) if isinstance(c.func, ast.Name) and c.func.id == 'open'
             and len(c.args) >= 2 and isinstance(c.args[1], ast.Constant) and 'r' not in str(c.args[1].value)]
    if len(opens) != 1:
        return 'bool', 'false'
    ok = isinstance(opens[0].args[0], ast.Name) and opens[0].args[0].id == tmp
    return 'bool', cbool(ok)


def only_rename_writes_target():
    """self.persistentFile is passed to exactly one os.* call: os.rename(tmpfile, self.persistentFile); it is never
    opened for writing and there is no other file-modifying call in the class"""
    tmp = _tmp_names()
    calls = [c for c in walk_type(_mixin(), ast.Call) if _norm(c.func).startswith('os.')
             and _norm(c.func) not in ('os.makedirs',)]
    renames = [c for c in calls if _norm(c.func) == 'os.rename']
    removes = [c for c in calls if _norm(c.func) == 'os.remove']
    if len(renames) != 1 or len(calls) != len(renames) + len(removes):
        return 'bool', 'false'
    r = renames[0]
    ok = len(r.args) == 2 and isinstance(r.args[0], ast.Name) and r.args[0].id == tmp \
        and _norm(r.args[1]) == 'self.persistentFile'
    ok = ok and all(len(c.args) == 1 and isinstance(c.args[0], ast.Name) and c.args[0].id == tmp for c in removes)
    # no pathlib writers either
    for c in walk_type(_mixin(), ast.Call):
        if isinstance(c.func, ast.Attribute) and not _norm(c.func).startswith('os.') and c.func.attr in ('write_text', 'write_bytes', 'unlink', 'replace',
                                                                 'rename', 'touch', 'rmdir'):
            ok = False
    return 'bool', cbool(ok)


def rename_after_closed_with_block():
    """try body = [with open(tmp, 'w') as f: (json.dump(data, f, ...); f.write('\\n')), os.rename(...), assignment]"""
    t = _try()
    if len(t.body) != 3 or not isinstance(t.body[0], ast.With) or not isinstance(t.body[1], ast.Expr):
        return 'bool', 'false'
    w = t.body[0]
    ok = _is_call(t.body[1].value, 'os.rename')
    stmts = [_norm(s) for s in w.body]
    ok = ok and len(stmts) == 2 and stmts[0].startswith('json.dump(data,f') and stmts[1] == "f.write('\\n')"
    ok = ok and len(w.items) == 1 and _is_call(w.items[0].context_expr, 'open') and \
        isinstance(w.items[0].optional_vars, ast.Name) and w.items[0].optional_vars.id == 'f'
    return 'bool', cbool(ok and not t.handlers and not t.orelse)


def remove_tmp_in_finally():
    """finally: try: os.remove(tmpfile) except FileNotFoundError: pass"""
    t = _try()
    tmp = _tmp_names()
    if len(t.finalbody) != 1 or not isinstance(t.finalbody[0], ast.Try):
        return 'bool', 'false'
    inner = t.finalbody[0]
    ok = len(inner.body) == 1 and _norm(inner.body[0]) == f'os.remove({tmp})'
    ok = ok and len(inner.handlers) == 1 and inner.handlers[0].type is not None and \
        _norm(inner.handlers[0].type) == 'FileNotFoundError' and _norm(inner.handlers[0].body[0]) == 'pass'
    return 'bool', cbool(ok)


def _load():
    return find_func(_mixin(), 'loadPersistentData')


def unreadable_file_is_empty():
    """try: with open(self.persistentFile, 'r', ...) as f: self.persistentData = json.load(f)
       except (FileNotFoundError, ValueError): self.persistentData = {}"""
    f = _load()
    t = f.body[0]
    if not isinstance(t, ast.Try) or len(t.handlers) != 1:
        return 'bool', 'false'
    h = t.handlers[0]
    names = sorted(_norm(e) for e in h.type.elts) if isinstance(h.type, ast.Tuple) else [_norm(h.type)]
    ok = names == ['FileNotFoundError', 'ValueError'] and len(h.body) == 1 and _norm(h.body[0]) == 'self.persistentData={}'
    ok = ok and len(t.body) == 2 and isinstance(t.body[0], ast.With) and \
        _norm(t.body[0].body[0]) == 'self.persistentData=json.load(f)' and \
        _norm(t.body[0].items[0].context_expr).startswith("open(self.persistentFile,'r'")
    return 'bool', cbool(ok)


def nonobject_document_is_unreadable():
    """inside the same try, after the with block: if not isinstance(self.persistentData, dict): raise ValueError(...)"""
    t = _load().body[0]
    if not isinstance(t, ast.Try) or len(t.body) != 2 or not isinstance(t.body[1], ast.If):
        return 'bool', 'false'
    i = t.body[1]
    ok = _norm(i.test) == 'notisinstance(self.persistentData,dict)' and len(i.body) == 1 and \
        isinstance(i.body[0], ast.Raise) and _norm(i.body[0].exc).startswith('ValueError(') and not i.orelse
    return 'bool', cbool(ok)


def entries_validated_and_exportable():
    """under `if getattr(pobj, 'persistent', False)`: datatype = pobj.datatype;
    imported = datatype.validate(datatype.import_value(value)); datatype.export_value(imported); result[pname] = imported"""
    lp = [n for n in _load().body if isinstance(n, ast.For)]
    if len(lp) != 1 or not isinstance(lp[0].body[0], ast.Try):
        return 'bool', 'false'
    ifs = [i for i in lp[0].body[0].body if isinstance(i, ast.If) and _norm(i.test) == "getattr(pobj,'persistent',False)"]
    if len(ifs) != 1:
        return 'bool', 'false'
    b = [_norm(x) for x in ifs[0].body]
    ok = b == ['datatype=pobj.datatype', 'imported=datatype.validate(datatype.import_value(value))',
               'datatype.export_value(imported)', 'result[pname]=imported']
    n = [a for a in walk_type(_load(), ast.Assign) if any(_norm(x) == 'result[pname]' for x in a.targets)]
    return 'bool', cbool(ok and len(n) == 1)


def entries_imported_individually():
    """for pname, value in self.persistentData.items(): try: ... import_value(value) except Exception: warning"""
    f = _load()
    loops = [n for n in f.body if isinstance(n, ast.For)]
    if len(loops) != 1:
        return 'bool', 'false'
    lp = loops[0]
    ok = _norm(lp.iter) == 'self.persistentData.items()' and len(lp.body) == 1 and isinstance(lp.body[0], ast.Try)
    if ok:
        t = lp.body[0]
        ok = len(t.handlers) == 1 and t.handlers[0].type is not None and _norm(t.handlers[0].type) == 'Exception'
        ok = ok and not any(isinstance(n, (ast.Raise, ast.Return, ast.Break)) for n in ast.walk(t.handlers[0]))
        ok = ok and any(isinstance(c.func, ast.Attribute) and c.func.attr == 'import_value' for c in walk_type(t, ast.Call))
        ok = ok and any(isinstance(i, ast.If) and _norm(i.test) == "getattr(pobj,'persistent',False)" for i in t.body)
    return 'bool', cbool(ok)


def cfg_precedes_file():
    """__init__: `if not pobj.given:` guards `if pname in loaded: pobj.value = loaded[pname]`"""
    f = find_func(_mixin(), '__init__')
    for i in walk_type(f, ast.If):
        if _norm(i.test) == 'notpobj.given':
            inner = [j for j in i.body if isinstance(j, ast.If) and _norm(j.test) == 'pnameinloaded']
            if len(inner) == 1 and _norm(inner[0].body[0]) == 'pobj.value=loaded[pname]' and len(inner[0].body) == 1:
                # no other assignment to pobj.value in __init__
                n = [a for a in walk_type(f, ast.Assign) if any(_norm(t) == 'pobj.value' for t in a.targets)]
                return 'bool', cbool(len(n) == 1)
    return 'bool', 'false'


def given_set_for_configured_values():
    """modulebase._handle_writes: pobj.given = True exactly in the else branch of `if pobj.value is None`"""
    f = find_func(find_class(parse(MB), 'Module'), '_handle_writes')
    for i in walk_type(f, ast.If):
        if _norm(i.test) == 'pobj.valueisNone':
            in_else = any(_norm(s) == 'pobj.given=True' for s in i.orelse)
            total = [a for a in walk_type(f, ast.Assign) if any(_norm(t) == 'pobj.given' for t in a.targets)]
            return 'bool', cbool(in_else and len(total) == 1)
    return 'bool', 'false'


def save_deferred_while_writes_pending():
    """saveParameters: if self.writeDict: return; then self.__save_params()"""
    f = find_func(_mixin(), 'saveParameters')
    body = [s for s in f.body if not (isinstance(s, ast.Expr) and isinstance(s.value, ast.Constant))]
    ok = len(body) == 2 and isinstance(body[0], ast.If) and _norm(body[0].test) == 'self.writeDict' and \
        any(isinstance(s, ast.Return) and s.value is None for s in body[0].body) and not body[0].orelse and \
        _norm(body[1]).endswith('__save_params()')
    return 'bool', cbool(ok)


def init_saves_after_loading():
    """__init__ ends with self.__save_params(); auto parameters get the saveParameters callback"""
    f = find_func(_mixin(), '__init__')
    ok = _norm(f.body[-1]).endswith('__save_params()')
    ok = ok and any(_norm(c) == 'self.addCallback(pname,self.saveParameters)' for c in walk_type(f, ast.Call))
    return 'bool', cbool(ok)


def callback_exceptions_swallowed():
    """modulebase.announceUpdate: callbacks are called inside try/except Exception: pass"""
    f = find_func(find_class(parse(MB), 'Module'), 'announceUpdate')
    for lp in walk_type(f, ast.For):
        if _norm(lp.iter) == 'self.paramCallbacks[pname]':
            t = lp.body[0]
            ok = isinstance(t, ast.Try) and len(t.handlers) == 1 and t.handlers[0].type is not None and \
                _norm(t.handlers[0].type) == 'Exception' and _norm(t.handlers[0].body[0]) == 'pass'
            return 'bool', cbool(ok)
    return 'bool', 'false'


def _parents(root):
    par = {}
    for n in ast.walk(root):
        for c in ast.iter_child_nodes(n):
            par[c] = n
    return par


def target_touched_only_by_final_rename():
    """every occurrence of self.persistentFile in __save_params is `.parent`, `.name` inside `<name> + '.tmp'`, or the
    second argument of the one os.rename(tmpfile, self.persistentFile); that rename is the last statement of the try
    body before the persistentData assignment; the path is bound to no other name and handed to no other call (no
    remove / unlink / open / replace / exists ... of the stored file)"""
    f = _save()
    par = _parents(f)
    t = _try()
    tmp = _tmp_names()
    if len(t.body) < 2 or not isinstance(t.body[-2], ast.Expr) or not _is_call(t.body[-2].value, 'os.rename'):
        return 'bool', 'false'
    rename = t.body[-2].value
    occ = [n for n in ast.walk(f) if is_self_attr(n, 'persistentFile')]
    if not occ:
        raise Shape('__save_params: self.persistentFile does not occur')
    ok = len(rename.args) == 2 and not rename.keywords and isinstance(rename.args[0], ast.Name) \
        and rename.args[0].id == tmp and is_self_attr(rename.args[1], 'persistentFile')
    in_rename = 0
    for n in occ:
        p = par[n]
        if isinstance(p, ast.Attribute) and p.value is n and p.attr == 'parent':
            continue
        if isinstance(p, ast.Attribute) and p.value is n and p.attr == 'name':
            pp = par[p]
            if isinstance(pp, ast.BinOp) and isinstance(pp.op, ast.Add) and pp.left is p and \
                    isinstance(pp.right, ast.Constant) and pp.right.value == '.tmp':
                continue
            ok = False
            continue
        if p is rename and rename.args[1] is n:
            in_rename += 1
            continue
        ok = False
    # nothing else reaches the attribute (getattr / vars / __dict__)
    for c in walk_type(f, ast.Call):
        if isinstance(c.func, ast.Name) and c.func.id in ('vars', 'setattr', 'delattr', 'eval', 'exec'):
            ok = False
        if isinstance(c.func, ast.Name) and c.func.id == 'getattr' and \
                not (len(c.args) == 3 and isinstance(c.args[1], ast.Constant) and c.args[1].value == 'persistent'):
            ok = False
    return 'bool', cbool(ok and in_rename == 1)


def save_call_sites():
    """every call site of the body of `if data != self.persistentData:` in source order (as dotted text): a new call
    of any kind on the save path changes this list"""
    calls = sorted(walk_type(_change_if(), ast.Call), key=lambda c: (c.lineno, c.col_offset))
    names = [_norm(c.func) for c in calls]
    if any('"' in n or '\\' in n for n in names):
        raise Shape('__save_params: call site not representable')
    return 'list string', '[%s]%%string' % '; '.join('"%s"' % n for n in names)


def callbacks_called_inside_update_lock():
    """modulebase.announceUpdate: the ONLY loop over self.paramCallbacks[pname] (saveParameters is one of these
    callbacks for persistent='auto') lies inside the single top-level `with self.updateLock:` statement of the
    function, and nothing of the function body lies outside of that with statement.  updateLock is the only thing
    that serialises the saves of one module (one fixed temporary file name, no lock in __save_params)"""
    f = find_func(find_class(parse(MB), 'Module'), 'announceUpdate')
    body = [n for n in f.body if not (isinstance(n, ast.Expr) and isinstance(n.value, ast.Constant)
                                      and isinstance(n.value.value, str))]
    if len(body) != 1 or not isinstance(body[0], ast.With):
        raise Shape('announceUpdate: expected the body to be one `with self.updateLock:` statement')
    w = body[0]
    if len(w.items) != 1 or not is_self_attr(w.items[0].context_expr, 'updateLock'):
        raise Shape('announceUpdate: expected `with self.updateLock:`')
    loops = [lp for lp in walk_type(f, ast.For) if 'paramCallbacks' in _norm(lp.iter)]
    inside = [lp for lp in walk_type(w, ast.For) if 'paramCallbacks' in _norm(lp.iter)]
    mentions = sum(_norm(n).count('paramCallbacks') for n in body)
    ok = len(loops) == 1 and len(inside) == 1 and _norm(loops[0].iter) == 'self.paramCallbacks[pname]' and \
        mentions == 1
    # no lock of its own in the save path: then updateLock is what the theorem rests on
    ok = ok and 'Lock' not in _norm(_save()) and 'Lock' not in _norm(find_func(_mixin(), 'saveParameters'))
    return 'bool', cbool(ok)


def update_lock_is_reentrant_lock():
    """Module.__init__ binds self.updateLock to threading.RLock() (one lock per module)"""
    cls = find_class(parse(MB), 'Module')
    found = []
    for a in walk_type(cls, ast.Assign):
        if any(is_self_attr(t, 'updateLock') for t in a.targets):
            found.append(_norm(a.value))
    return 'bool', cbool(found == ['threading.RLock()'])

def _json_is_stdlib():
    """the name `json` of frappy/persistent.py is the standard module: bound by the one top-level `import json`,
    never assigned, imported under that name from elsewhere, or bound as a parameter / loop variable"""
    tree = parse(F)
    imports = 0
    for n in ast.walk(tree):
        if isinstance(n, ast.Import):
            for a in n.names:
                if (a.asname or a.name.split('.')[0]) == 'json':
                    if a.name != 'json' or a.asname not in (None, 'json') or n not in tree.body:
                        return False
                    imports += 1
        elif isinstance(n, ast.ImportFrom):
            if any((a.asname or a.name) == 'json' or a.name == '*' for a in n.names):
                return False
        elif isinstance(n, ast.Name) and n.id == 'json' and not isinstance(n.ctx, ast.Load):
            return False
        elif isinstance(n, ast.arg) and n.arg == 'json':
            return False
        elif isinstance(n, (ast.Global, ast.Nonlocal)) and 'json' in n.names:
            return False
    return imports == 1


def dump_text_is_ascii():
    """the one json.dump of the class is `json.dump(data, f, indent=2)`: two positional arguments, the only keyword is
    indent=2 - in particular no ensure_ascii=False, no cls/default/separators and no ** argument, and `json` is the
    standard module.  With the default ensure_ascii=True every chunk handed to f.write is pure ASCII, so the
    text layer of the file cannot fail to encode it (lone surrogates, non-BMP characters and control characters of
    string values are written as escapes)"""
    dumps = [c for c in walk_type(_mixin(), ast.Call) if _norm(c.func) in ('json.dump', 'json.dumps')]
    anyjson = [n for n in walk_type(_mixin(), ast.Attribute) if isinstance(n.value, ast.Name) and n.value.id == 'json']
    if len(dumps) != 1 or _norm(dumps[0].func) != 'json.dump':
        raise Shape('PersistentMixin: expected exactly one json.dump call')
    c = dumps[0]
    inside = any(x is c for x in ast.walk(_try()))
    ok = inside and len(c.args) == 2 and [_norm(a) for a in c.args] == ['data', 'f'] and \
        not any(isinstance(a, ast.Starred) for a in c.args) and \
        [(k.arg, _norm(k.value)) for k in c.keywords] == [('indent', '2')]
    # json is used as json.dump / json.load only (no json.JSONEncoder subclass, no json.encoder tweaks)
    ok = ok and sorted(n.attr for n in anyjson) == ['dump', 'load'] and _json_is_stdlib()
    return 'bool', cbool(ok)


def tmp_file_is_utf8_text():
    """the temporary file is opened as open(<tmp>, 'w', encoding='utf-8'): text mode, utf-8, default (strict) error
    handler, default newline handling and buffering - an ASCII text is written as it is"""
    tmp = _tmp_names()
    w = _try().body[0]
    if not isinstance(w, ast.With) or len(w.items) != 1 or not _is_call(w.items[0].context_expr, 'open'):
        raise Shape('__save_params: expected `with open(...) as f:` as first statement of the try body')
    c = w.items[0].context_expr
    ok = [_norm(a) for a in c.args] == [tmp, "'w'"] and \
        [(k.arg, _norm(k.value)) for k in c.keywords] == [('encoding', "'utf-8'")]
    # `open` is the builtin: never bound in the module
    tree = parse(F)
    for n in ast.walk(tree):
        if isinstance(n, ast.Name) and n.id == 'open' and not isinstance(n.ctx, ast.Load):
            ok = False
        elif isinstance(n, ast.arg) and n.arg == 'open':
            ok = False
        elif isinstance(n, (ast.Import, ast.ImportFrom)) and any((a.asname or a.name) in ('open', '*') for a in n.names):
            ok = False
        elif isinstance(n, (ast.FunctionDef, ast.ClassDef)) and n.name == 'open':
            ok = False
    return 'bool', cbool(ok)


FACTS = [change_detection, pdata_assigned_after_rename, writes_go_to_tmp, only_rename_writes_target,
         target_touched_only_by_final_rename, save_call_sites,
         rename_after_closed_with_block, remove_tmp_in_finally, unreadable_file_is_empty,
         nonobject_document_is_unreadable, entries_imported_individually, entries_validated_and_exportable,
         cfg_precedes_file, given_set_for_configured_values,
         save_deferred_while_writes_pending, init_saves_after_loading, callback_exceptions_swallowed,
         callbacks_called_inside_update_lock, update_lock_is_reentrant_lock,
         dump_text_is_ascii, tmp_file_is_utf8_text]

FINGERPRINTS = {
    'PersistentMixin.__init__': lambda: find_func(_mixin(), '__init__'),
    'PersistentMixin.loadPersistentData': _load,
    'PersistentMixin.loadParameters': lambda: find_func(_mixin(), 'loadParameters'),
    'PersistentMixin.saveParameters': lambda: find_func(_mixin(), 'saveParameters'),
    'PersistentMixin.__save_params': _save,
    'PersistentMixin.factory_reset': lambda: find_func(_mixin(), 'factory_reset'),
    'Module.writeInitParams': lambda: find_func(find_class(parse(MB), 'Module'), 'writeInitParams'),
    'Module._handle_writes': lambda: find_func(find_class(parse(MB), 'Module'), '_handle_writes'),
}


DT = 'frappy/datatypes.py'


def _dt_func(cls, name):
    return find_func(find_class(parse(DT), cls), name)


def _body(f):
    return [s for s in f.body if not (isinstance(s, ast.Expr) and isinstance(s.value, ast.Constant))]


def _check_type_rejects_str_dict(cls):
    f = _dt_func(cls, 'check_type')
    first = _body(f)[0]
    return isinstance(first, ast.If) and _norm(first.test) == 'isinstance(value,(str,bytes,dict))' and \
        any(isinstance(s, ast.Raise) for s in first.body)


def array_import_checks_kind_and_length():
    """ArrayOf.import_value: self.check_type(value) first (rejects str/bytes/dict, checks minlen..maxlen), then the
    tuple of the imported elements"""
    b = _body(_dt_func('ArrayOf', 'import_value'))
    ok = len(b) == 2 and _norm(b[0]) == 'self.check_type(value)' and \
        _norm(b[1]) == 'returntuple((self.members.import_value(elem)foreleminvalue))'
    ct = _norm(_dt_func('ArrayOf', 'check_type'))
    ok = ok and _check_type_rejects_str_dict('ArrayOf') and 'len(value)<self.minlen' in ct and 'len(value)>self.maxlen' in ct
    return 'bool', cbool(ok)


def tuple_import_checks_kind_and_length():
    b = _body(_dt_func('TupleOf', 'import_value'))
    ok = len(b) == 2 and _norm(b[0]) == 'self.check_type(value)' and \
        _norm(b[1]) == 'returntuple((sub.import_value(elem)forsub,eleminzip(self.members,value)))'
    ct = _norm(_dt_func('TupleOf', 'check_type'))
    ok = ok and _check_type_rejects_str_dict('TupleOf') and 'iflen(value)==len(self.members):return' in ct
    return 'bool', cbool(ok)


def struct_import_admits_missing_optional():
    """StructOf.import_value: self.check_type(value, True), then the dict of imported members"""
    b = _body(_dt_func('StructOf', 'import_value'))
    ok = len(b) == 2 and _norm(b[0]) == 'self.check_type(value,True)' and \
        _norm(b[1]) == 'return{str(k):self.members[k].import_value(v)fork,vinvalue.items()}'
    ct = _norm(_dt_func('StructOf', 'check_type'))
    ok = ok and 'ifnotisinstance(value,dict):raise' in ct
    return 'bool', cbool(ok)


def struct_export_admits_missing_optional():
    """StructOf.export_value: self.check_type(value, True), then the dict of exported members"""
    b = _body(_dt_func('StructOf', 'export_value'))
    ok = len(b) == 2 and _norm(b[0]) == 'self.check_type(value,True)' and \
        _norm(b[1]) == 'returndict(((str(k),self.members[k].export_value(v))fork,vinlist(value.items())))'
    return 'bool', cbool(ok)


def scaled_import_integers_only():
    s = _norm(_dt_func('ScaledInteger', 'import_value'))
    ok = 'ifisinstance(value,float)andvalue.is_integer():value=int(value)' in s and \
        'ifnotisinstance(value,int):' in s and 'returnself.scale*value' in s
    return 'bool', cbool(ok)


def blob_import_strict_base64():
    s = _norm(_dt_func('BLOBType', 'import_value'))
    return 'bool', cbool('returnb64decode(value,validate=True)' in s)


FACTS += [array_import_checks_kind_and_length, tuple_import_checks_kind_and_length,
          struct_import_admits_missing_optional, struct_export_admits_missing_optional, scaled_import_integers_only, blob_import_strict_base64]
for _cls, _fn in (('ArrayOf', 'import_value'), ('ArrayOf', 'check_type'), ('TupleOf', 'import_value'),
                  ('TupleOf', 'check_type'), ('StructOf', 'import_value'), ('StructOf', 'check_type'),
                  ('StructOf', 'export_value'), ('ScaledInteger', 'import_value'), ('BLOBType', 'import_value')):
    FINGERPRINTS[f'{_cls}.{_fn}'] = (lambda c=_cls, f=_fn: _dt_func(c, f))
