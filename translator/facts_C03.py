"""facts read off frappy/datatypes.py and frappy/properties.py for C03 (descriptions, copies, compatibility)

* the DATATYPES rebuild table: per entry the lambda's named parameters with their defaults, whether it ends in **kwds
  (must-ignore), which constructor keywords are fed by which lambda parameter, whether floatargs(kwds) is forwarded
* get_datatype: None passes through, old [type, {..}] syntax, the client flag, every exception becomes WrongTypeError
* exportProperties: only values different from the default are exported
* the declared defaults of the exported datatype properties
* the export_datatype / copy / compatible method bodies of every datatype class, compared (normalised source) with the
  shape the model was written from
"""
import ast
from translator import parse, find_class, find_func, find_assign, Shape, const, cz, cbool, cstr, src, walk_type

F = 'frappy/datatypes.py'
P = 'frappy/properties.py'


def _cls(name):
    return find_class(parse(F), name)


def _table():
    v = find_assign(parse(F), 'DATATYPES')
    if not isinstance(v, ast.Dict):
        raise Shape('DATATYPES is not a dict display')
    res = {}
    for k, lam in zip(v.keys, v.values):
        if not (isinstance(k, ast.Constant) and isinstance(k.value, str)):
            raise Shape('DATATYPES key is not a string literal')
        if not isinstance(lam, ast.Lambda):
            raise Shape(f'DATATYPES[{k.value!r}] is not a lambda')
        res[k.value] = lam
    return res


def _lst(items, enc):
    return '[' + '; '.join(enc(x) for x in items) + ']'


def dt_params():
    """per type: [(parameter name, None = required | Some source text of the default)]"""
    rows = []
    for name, lam in _table().items():
        a = lam.args
        if a.posonlyargs or a.vararg or a.kwonlyargs:
            raise Shape(f'DATATYPES[{name!r}]: unexpected parameter kinds')
        n = len(a.args)
        defaults = [None] * (n - len(a.defaults)) + list(a.defaults)
        ps = [(p.arg, None if d is None else src(d)) for p, d in zip(a.args, defaults)]
        rows.append((name, ps))
    enc_p = lambda p: '(%s, %s)' % (cstr(p[0]), 'None' if p[1] is None else f'Some {cstr(p[1])}')
    return 'list (list N * list (list N * option (list N)))', \
        _lst(rows, lambda r: f'({cstr(r[0])}, {_lst(r[1], enc_p)})')


def dt_has_kwds():
    """per type: the lambda ends in **kwds (must-ignore policy for unknown keys)"""
    rows = [(name, lam.args.kwarg is not None) for name, lam in _table().items()]
    return 'list (list N * bool)', _lst(rows, lambda r: f'({cstr(r[0])}, {cbool(r[1])})')


def _ctor_call(lam):
    if not isinstance(lam.body, ast.Call):
        raise Shape('lambda body is not a call')
    return lam.body


def dt_forwards():
    """per type: [(constructor keyword, lambda parameter)] for keywords of the form kw=<parameter>"""
    rows = []
    for name, lam in _table().items():
        call = _ctor_call(lam)
        params = {p.arg for p in lam.args.args}
        fw = [(k.arg, k.value.id) for k in call.keywords
              if k.arg is not None and isinstance(k.value, ast.Name) and k.value.id in params]
        # kw=<CONST> if <p> is None else <p>: forwarded, None replaced (which constant: see dt_none_defaults)
        for k in call.keywords:
            d = _none_default(k.value, params)
            if k.arg is not None and d is not None:
                fw.append((k.arg, d[0]))
        rows.append((name, fw))
    enc_p = lambda p: f'({cstr(p[0])}, {cstr(p[1])})'
    return 'list (list N * list (list N * list N))', _lst(rows, lambda r: f'({cstr(r[0])}, {_lst(r[1], enc_p)})')


def _none_default(node, params):
    """(parameter, constant name) for `<CONST> if <p> is None else <p>`"""
    if not isinstance(node, ast.IfExp):
        return None
    t = node.test
    if not (isinstance(t, ast.Compare) and len(t.ops) == 1 and isinstance(t.ops[0], ast.Is)
            and isinstance(t.left, ast.Name) and t.left.id in params
            and isinstance(t.comparators[0], ast.Constant) and t.comparators[0].value is None):
        return None
    if not (isinstance(node.orelse, ast.Name) and node.orelse.id == t.left.id and isinstance(node.body, ast.Name)):
        return None
    return t.left.id, node.body.id


def dt_none_defaults():
    """per type: [(constructor keyword, module constant used when the parameter is None)]"""
    rows = []
    for name, lam in _table().items():
        call = _ctor_call(lam)
        params = {p.arg for p in lam.args.args}
        nd = []
        for k in call.keywords:
            d = _none_default(k.value, params)
            if k.arg is not None and d is not None:
                if d[0] != k.arg:
                    raise Shape('None-default forwards another parameter')
                nd.append((k.arg, d[1]))
        rows.append((name, nd))
    enc_p = lambda p: f'({cstr(p[0])}, {cstr(p[1])})'
    return 'list (list N * list (list N * list N))', _lst(rows, lambda r: f'({cstr(r[0])}, {_lst(r[1], enc_p)})')


def dt_uses_floatargs():
    """per type: the constructor call contains **floatargs(kwds)"""
    rows = []
    for name, lam in _table().items():
        call = _ctor_call(lam)
        used = any(k.arg is None and src(k.value).replace(' ', '') == 'floatargs(kwds)' for k in call.keywords)
        rows.append((name, used))
    return 'list (list N * bool)', _lst(rows, lambda r: f'({cstr(r[0])}, {cbool(r[1])})')


def dt_bodies_as_modelled():
    """the constructor expressions of the table are the ones the model was written from"""
    want = {
        'bool': 'BoolType()',
        'int': 'IntRange(min=min, max=max)',
        'scaled': 'ScaledInteger(scale=scale, min=min * scale, max=max * scale, **floatargs(kwds))',
        'double': 'FloatRange(min=min, max=max, **floatargs(kwds))',
        'blob': 'BLOBType(minbytes=minbytes, maxbytes=maxbytes)',
        'string': 'StringType(minchars=minchars, maxchars=UNLIMITED if maxchars is None else maxchars, isUTF8=isUTF8)',
        'array': 'ArrayOf(get_datatype(members, pname), minlen=minlen, maxlen=maxlen)',
        'tuple': 'TupleOf(*tuple((get_datatype(t, pname) for t in members)))',
        'enum': 'EnumType(pname, members=members)',
        'struct': 'StructOf(optional, **dict(((n, get_datatype(t, pname)) for n, t in list(members.items()))))',
    }
    tab = _table()
    ok = all(k in tab and src(tab[k].body) == v for k, v in want.items())
    return 'bool', cbool(ok)


def floatargs_keys():
    f = find_func(parse(F), 'floatargs')
    sets = walk_type(f, ast.Set)
    if len(sets) != 1:
        raise Shape('floatargs: expected one set display')
    keys = [const(e) for e in sets[0].elts]
    s = src(f.body[-1]).replace(' ', '')
    if not s.startswith('return{k:vfork,vinkwds.items()ifkin{'):
        raise Shape('floatargs: unexpected shape')
    return 'list (list N)', _lst(sorted(keys), cstr)


def _gd():
    return find_func(parse(F), 'get_datatype')


def get_datatype_none_passthrough():
    f = _gd()
    first = [n for n in f.body if not (isinstance(n, ast.Expr) and isinstance(n.value, ast.Constant))][0]
    return 'bool', cbool(src(first).replace(' ', '').replace('\n', '') == 'ifjsonisNone:returnjson')


def get_datatype_old_syntax():
    s = src(_gd()).replace(' ', '')
    return 'bool', cbool('ifisinstance(json,list)andlen(json)==2:\nbase,kwargs=json' in s)


def get_datatype_sets_client():
    s = src(_gd()).replace(' ', '')
    return 'bool', cbool('datatype=DATATYPES[base](pname=pname,**kwargs)\ndatatype.client=True\nreturndatatype' in s)


def get_datatype_wraps_exceptions():
    """both try blocks turn the listed / every exception into WrongTypeError"""
    f = _gd()
    hs = [h for t in walk_type(f, ast.Try) for h in t.handlers]
    kinds = sorted(src(h.type).replace(' ', '') for h in hs)
    ok = kinds == ['(TypeError,KeyError,AttributeError)', 'Exception'] \
        and all('raise WrongTypeError(' in src(h) for h in hs)
    return 'bool', cbool(ok)


def export_nondefault_only():
    """exportProperties: exported are 'always' / mandatory properties and values different from the default"""
    f = find_func(find_class(parse(P), 'HasProperties'), 'exportProperties')
    s = src(f).replace(' ', '')
    ok = ("val=self.propertyValues.get(pn,po.default)" in s
          and "ifpo.exportand(po.export=='always'orpo.mandatoryorval!=po.default):" in s
          and 'val=po.datatype.export_value(val)' in s and 'res[po.extname]=val' in s)
    return 'bool', cbool(ok)


def get_info_shape():
    f = find_func(_cls('DataType'), 'get_info')
    s = src(f).replace(' ', '')
    return 'bool', cbool('result=self.exportProperties()\nresult.update(kwds)\nreturnresult' in s)


def _prop_call(clsname, prop):
    v = find_assign(_cls(clsname), prop)
    if not (isinstance(v, ast.Call) and src(v.func) == 'Property'):
        raise Shape(f'{clsname}.{prop} is not a Property(...)')
    return v


def _kw(call, name):
    for k in call.keywords:
        if k.arg == name:
            return k.value
    return None


def _float_parts(x):
    m, e = float(x).hex(), None
    num, den = float(x).as_integer_ratio()
    e = -(den.bit_length() - 1)
    if den != 1 << (den.bit_length() - 1):
        raise Shape('not dyadic')
    return num, e


def float_relres_default():
    """FloatRange.relative_resolution default as m * 2^e; the same literal on ScaledInteger"""
    a = _kw(_prop_call('FloatRange', 'relative_resolution'), 'default')
    b = _kw(_prop_call('ScaledInteger', 'relative_resolution'), 'default')
    if a is None or b is None or const(a) != const(b):
        raise Shape('relative_resolution defaults differ / missing')
    m, e = _float_parts(const(a))
    return 'Z * Z', f'({cz(m)}, {cz(e)})'


def prop_defaults_as_modelled():
    """declared datatypes / defaults / mandatory flags of the exported datatype properties"""
    want = {
        ('HasUnit', 'unit'): ("Stub('StringType', isUTF8=True)", "''", None),
        ('FloatRange', 'min'): ("Stub('FloatRange')", '-sys.float_info.max', None),
        ('FloatRange', 'max'): ("Stub('FloatRange')", 'sys.float_info.max', None),
        ('FloatRange', 'fmtstr'): ("Stub('StringType')", "'%g'", None),
        ('FloatRange', 'absolute_resolution'): ("Stub('FloatRange', 0)", '0.0', None),
        ('FloatRange', 'relative_resolution'): ("Stub('FloatRange', 0)", None, None),
        ('IntRange', 'min'): ("Stub('IntRange', -UNLIMITED, UNLIMITED)", None, 'True'),
        ('IntRange', 'max'): ("Stub('IntRange', -UNLIMITED, UNLIMITED)", None, 'True'),
        ('ScaledInteger', 'scale'): ('FloatRange(sys.float_info.min)', None, 'True'),
        ('ScaledInteger', 'min'): ('FloatRange()', None, 'True'),
        ('ScaledInteger', 'max'): ('FloatRange()', None, 'True'),
        ('ScaledInteger', 'fmtstr'): ("Stub('StringType')", "'%g'", None),
        ('ScaledInteger', 'absolute_resolution'): ('FloatRange(0)', '0.0', None),
        ('ScaledInteger', 'relative_resolution'): ('FloatRange(0)', None, None),
        ('BLOBType', 'minbytes'): ('IntRange(0)', '0', None),
        ('BLOBType', 'maxbytes'): ('IntRange(0)', None, 'True'),
        ('StringType', 'minchars'): ('IntRange(0, UNLIMITED)', '0', None),
        ('StringType', 'maxchars'): ('IntRange(0, UNLIMITED)', 'UNLIMITED', None),
        ('StringType', 'isUTF8'): ("Stub('BoolType')", 'False', None),
        ('ArrayOf', 'minlen'): ('IntRange(0)', '0', None),
        ('ArrayOf', 'maxlen'): ('IntRange(0)', None, 'True'),
    }
    ok = True
    for (c, p), (dt, dflt, mand) in want.items():
        call = _prop_call(c, p)
        if len(call.args) < 2 or src(call.args[1]) != dt:
            ok = False
        d = _kw(call, 'default')
        if dflt is not None and (d is None or src(d) != dflt):
            ok = False
        if p != 'relative_resolution' and dflt is None and d is not None:
            ok = False
        m = _kw(call, 'mandatory')
        if (None if m is None else src(m)) != mand:
            ok = False
        e = _kw(call, 'extname')
        if e is None or const(e) != p:
            ok = False
    return 'bool', cbool(ok)


def _body(clsname, fn):
    f = find_func(_cls(clsname), fn)
    body = [n for n in f.body if not (isinstance(n, ast.Expr) and isinstance(n.value, ast.Constant)
                                      and isinstance(n.value.value, str))]
    return '\n'.join(src(n) for n in body)


EXPORT_BODIES = {
    'FloatRange': "return self.get_info(type='double')",
    'IntRange': "return self.get_info(type='int')",
    'ScaledInteger': "return self.get_info(type='scaled', min=int(round(self.min / self.scale)), "
                     "max=int(round(self.max / self.scale)))",
    'EnumType': "return {'type': 'enum', 'members': dict(((m.name, m.value) for m in self._enum.members))}",
    'BLOBType': "return self.get_info(type='blob')",
    'StringType': "return self.get_info(type='string')",
    'BoolType': "return {'type': 'bool'}",
    'ArrayOf': "return {'type': 'array', 'minlen': self.minlen, 'maxlen': self.maxlen, "
               "'members': self.members.export_datatype()}",
    'TupleOf': "return {'type': 'tuple', 'members': [subtype.export_datatype() for subtype in self.members]}",
    'StructOf': "res = {'type': 'struct', 'members': dict(((n, s.export_datatype()) for n, s in "
                "list(self.members.items())))}\nif set(self.optional) != set(self.members):\n"
                "    res['optional'] = self.optional\nreturn res",
}


def export_bodies_as_modelled():
    return 'bool', cbool(all(_body(c, 'export_datatype') == s for c, s in EXPORT_BODIES.items()))


def scaled_export_properties_as_modelled():
    want = ("result = super().exportProperties()\nif self.absolute_resolution == 0:\n"
            "    result['absolute_resolution'] = 0\nelif self.absolute_resolution == self.scale:\n"
            "    result.pop('absolute_resolution', 0)\nreturn result")
    return 'bool', cbool(_body('ScaledInteger', 'exportProperties') == want)


COPY_BODIES = {
    'DataType': 'return get_datatype(self.export_datatype())',
    'EnumType': 'return EnumType(self._enum)',
    'TextType': 'return TextType(self.maxchars)',
    'ArrayOf': 'return ArrayOf(self.members.copy(), self.minlen, self.maxlen)',
    'TupleOf': 'return TupleOf(*(m.copy() for m in self.members))',
    'StructOf': 'return StructOf(self.optional, **{k: v.copy() for k, v in self.members.items()})',
}


def copy_bodies_as_modelled():
    return 'bool', cbool(all(_body(c, 'copy') == s for c, s in COPY_BODIES.items()))


def copy_overrides_only_where_modelled():
    """no other SECoP datatype class overrides copy()"""
    ok = True
    for c in ('FloatRange', 'IntRange', 'ScaledInteger', 'BLOBType', 'StringType', 'BoolType'):
        try:
            find_func(_cls(c), 'copy')
            ok = False
        except Shape:
            pass
    return 'bool', cbool(ok)


NUM_COMPAT = ("if not isinstance(other, (FloatRange, ScaledInteger)):\n    raise WrongTypeError('incompatible datatypes')\n"
              "other.validate(self.min)\nother.validate(self.max)")
COMPAT_BODIES = {
    'FloatRange': NUM_COMPAT,
    'ScaledInteger': NUM_COMPAT,
    'IntRange': ("if isinstance(other, (IntRange, FloatRange, ScaledInteger)):\n    other.validate(self.min)\n"
                 "    other.validate(self.max)\n    return\nif isinstance(other, (EnumType, BoolType)):\n"
                 "    for i in range(self.min, self.max + 1):\n        other(i)\n    return\n"
                 "raise WrongTypeError('incompatible datatypes')"),
    'EnumType': 'for m in self._enum.members:\n    other(m)',
    'BoolType': 'other.validate(False)\nother.validate(True)',
    'BLOBType': ("try:\n    if self.minbytes < other.minbytes or self.maxbytes > other.maxbytes:\n"
                 "        raise RangeError('incompatible datatypes')\nexcept AttributeError:\n"
                 "    raise WrongTypeError('incompatible datatypes') from None"),
    'StringType': ("try:\n    if self.minchars < other.minchars or self.maxchars > other.maxchars or "
                   "self.isUTF8 > other.isUTF8:\n        raise RangeError('incompatible datatypes')\n"
                   "except AttributeError:\n    raise WrongTypeError('incompatible datatypes') from None"),
    'ArrayOf': ("try:\n    if self.minlen < other.minlen or self.maxlen > other.maxlen:\n"
                "        raise RangeError('incompatible datatypes')\n    self.members.compatible(other.members)\n"
                "except AttributeError:\n    raise WrongTypeError('incompatible datatypes') from None"),
    'TupleOf': ("if not isinstance(other, TupleOf):\n    raise WrongTypeError('incompatible datatypes')\n"
                "if len(self.members) != len(other.members):\n    raise WrongTypeError('incompatible datatypes')\n"
                "for a, b in zip(self.members, other.members):\n    a.compatible(b)"),
    'StructOf': ("try:\n    mandatory = set(other.members) - set(other.optional)\n"
                 "    for k, m in self.members.items():\n        m.compatible(other.members[k])\n"
                 "        mandatory.discard(k)\n    if mandatory:\n        raise WrongTypeError('incompatible datatypes')\n"
                 "except (AttributeError, TypeError, KeyError):\n"
                 "    raise WrongTypeError('incompatible datatypes') from None"),
}


def compatible_bodies_as_modelled():
    return 'bool', cbool(all(_body(c, 'compatible') == s for c, s in COMPAT_BODIES.items()))


def struct_sets_no_client_in_init():
    """StructOf.__init__ does not assign self.client (a copy is a server-side type again)"""
    f = find_func(_cls('StructOf'), '__init__')
    return 'bool', cbool('client' not in src(f))


FACTS = [dt_params, dt_has_kwds, dt_forwards, dt_none_defaults, dt_uses_floatargs, dt_bodies_as_modelled, floatargs_keys,
         get_datatype_none_passthrough, get_datatype_old_syntax, get_datatype_sets_client,
         get_datatype_wraps_exceptions, export_nondefault_only, get_info_shape, float_relres_default,
         prop_defaults_as_modelled, export_bodies_as_modelled, scaled_export_properties_as_modelled,
         copy_bodies_as_modelled, copy_overrides_only_where_modelled, compatible_bodies_as_modelled,
         struct_sets_no_client_in_init]

FINGERPRINTS = {
    'DATATYPES': lambda: find_assign(parse(F), 'DATATYPES'),
    'get_datatype': _gd,
    'floatargs': lambda: find_func(parse(F), 'floatargs'),
    'HasProperties.exportProperties': lambda: find_func(find_class(parse(P), 'HasProperties'), 'exportProperties'),
    'DataType.copy': lambda: find_func(_cls('DataType'), 'copy'),
}
for _c in COMPAT_BODIES:
    FINGERPRINTS[f'{_c}.compatible'] = (lambda c=_c: find_func(_cls(c), 'compatible'))
for _c in EXPORT_BODIES:
    FINGERPRINTS[f'{_c}.export_datatype'] = (lambda c=_c: find_func(_cls(c), 'export_datatype'))
