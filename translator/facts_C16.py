"""facts read off frappy/io.py, frappy/lib/asynconn.py and frappy/modulebase.py for C16 (fail closed): the modelled
functions have exactly the statement structure the model was written from (docstrings and log / comLog calls
ignored), the lock structure is the one the atomic regions of the model rely on, and the constants"""
import ast
from translator import parse, find_class, find_func, find_assign, Shape, cnat, cbool, src, walk_type, is_self_attr

FIO = 'frappy/io.py'
FAS = 'frappy/lib/asynconn.py'
FMB = 'frappy/modulebase.py'


def _cls(path, name):
    return find_class(parse(path), name)


def _is_noise(stmt):
    """docstring or a pure logging statement"""
    if isinstance(stmt, ast.Expr):
        v = stmt.value
        if isinstance(v, ast.Constant):
            return True
        if isinstance(v, ast.Call):
            f = src(v.func)
            if f in ('self.comLog', 'self.log.debug', 'self.log.info', 'self.log.error', 'self.log.warning'):
                return True
    return False


class _Strip(ast.NodeTransformer):
    def _body(self, body):
        out = [self.visit(s) for s in body if not _is_noise(s)]
        return out or [ast.Pass()]

    def generic_visit(self, node):
        for field in ('body', 'orelse', 'finalbody'):
            b = getattr(node, field, None)
            if isinstance(b, list) and b and isinstance(b[0], ast.stmt):
                setattr(node, field, self._body(b))
        if isinstance(node, ast.Try):
            node.handlers = [self.generic_visit(h) for h in node.handlers]
        return node


def norm(func):
    """statement structure of a function: source without docstrings / logging, whitespace removed"""
    import copy
    f = _Strip().visit(copy.deepcopy(func))
    f.decorator_list = []
    return ''.join(ast.unparse(f).split())


EXPECTED = {
    'IOBase.connectStart':
        "defconnectStart(self):ifnotself.is_connected:uri=self.uriself._conn=AsynConn(uri,self._eol_read,"
        "default_settings=self.default_settings)self.is_connected=Trueself.checkHWIdent()",
    'IOBase.closeConnection':
        "defcloseConnection(self):self._conn.disconnect()self._conn=Noneself.is_connected=False"
        "self._last_error=self._last_erroror'disconnected'",
    'IOBase.doPoll': "defdoPoll(self):self.read_is_connected()",
    'IOBase.read_is_connected':
        "defread_is_connected(self):ifself.is_connected:returnTruetry:self.connectStart()ifself._last_error:"
        "self._last_error='connected'self.callCallbacks()returnself.is_connectedexceptExceptionase:"
        "ifrepr(e)!=self._last_error:self._last_error=repr(e)raiseSilentError(repr(e))fromereturnself.is_connected",
    'IOBase.check_connection':
        "defcheck_connection(self):ifnotself.is_connected:now=time.time()"
        "ifnow>=self._last_connect_attempt+self.pollinterval:self._last_connect_attempt=now"
        "ifself.read_is_connected():returnraiseSilentError('disconnected')fromNone",
    'IOBase.registerReconnectCallback':
        "defregisterReconnectCallback(self,name,func):self._reconnectCallbacks[name]=func",
    'IOBase.callCallbacks':
        "defcallCallbacks(self):forkey,cbinlist(self._reconnectCallbacks.items()):try:removeme=notcb()"
        "exceptExceptionase:removeme=Trueifremoveme:self._reconnectCallbacks.pop(key)",
    'StringIO.communicate':
        "defcommunicate(self,command,noreply=False):command=command.encode(self.encoding)self.check_connection()"
        "try:withself._lock:ifself.wait_beforeandself._eol_write:cmds=command.split(self._eol_write)"
        "else:cmds=[command]garbage=Nonetry:forcmdincmds:ifself.wait_before:time.sleep(self.wait_before)"
        "ifgarbageisNone:garbage=self._conn.flush_recv()ifgarbage:passself._conn.send(cmd+self._eol_write)"
        "ifnoreply:returnNonereply=self._conn.readline(self.timeout)exceptConnectionClosed:self.closeConnection()"
        "raiseCommunicationFailedError('disconnected')fromNonereply=reply.decode(self.encoding)returnreply"
        "exceptExceptionase:ifself._connisNone:raiseSilentError('disconnected')fromNone"
        "ifrepr(e)!=self._last_error:self._last_error=repr(e)raiseSilentError(repr(e))frome",
    'StringIO.writeline': "defwriteline(self,command):self.communicate(command,noreply=True)",
    'StringIO.multicomm':
        "defmulticomm(self,requests):replies=[]withself._lock:forrequestinrequests:ifisinstance(request,str):"
        "cmd,expect_reply,delay=(request,True,0)else:cmd,expect_reply,delay=requestifexpect_reply:"
        "replies.append(self.communicate(cmd))else:self.writeline(cmd)ifdelay:time.sleep(delay)returnreplies",
    'BytesIO.communicate':
        "defcommunicate(self,request,replylen):self.check_connection()try:withself._lock:try:ifself.wait_before:"
        "time.sleep(self.wait_before)garbage=self._conn.flush_recv()ifgarbage:passself._conn.send(request)"
        "reply=self._conn.readbytes(replylen,self.timeout)exceptConnectionClosed:self.closeConnection()"
        "raiseCommunicationFailedError('disconnected')fromNonereturnself.getFullReply(request,reply)"
        "exceptExceptionase:ifself._connisNone:raiseSilentError('disconnected')fromNone"
        "ifrepr(e)!=self._last_error:self._last_error=str(e)raiseSilentError(repr(e))frome",
    'BytesIO.multicomm':
        "defmulticomm(self,requests):replies=[]withself._lock:forcmd,replylen,delayinrequests:"
        "replies.append(self.communicate(cmd,replylen))ifdelay:time.sleep(delay)returnreplies",
    'BytesIO.getFullReply': "defgetFullReply(self,request,replyheader):returnreplyheader",
    'AsynConn.readline':
        "defreadline(self,timeout=None):iftimeout:end=time.time()+timeoutwhileTrue:"
        "splitted=self._rxbuffer.split(self.end_of_line,1)iflen(splitted)==2:line,self._rxbuffer=splittedreturnline"
        "data=self.recv()ifnotdata:iftimeout:iftime.time()<end:continue"
        "raiseTimeoutError(f'timeoutinreadline({timeout:g}sec)')returnNoneself._rxbuffer+=data",
    'AsynConn.readbytes':
        "defreadbytes(self,nbytes,timeout=None):iftimeout:end=time.time()+timeoutwhilelen(self._rxbuffer)<nbytes:"
        "data=self.recv()ifnotdata:iftimeout:iftime.time()<end:continue"
        "raiseTimeoutError(f'timeoutinreadbytes({timeout:g}sec)')returnNoneself._rxbuffer+=data"
        "line=self._rxbuffer[:nbytes]self._rxbuffer=self._rxbuffer[nbytes:]returnline",
    'AsynTcp.flush_recv':
        "defflush_recv(self):data=[self._rxbuffer]whileselect.select([self.connection],[],[],0)[0]:"
        "data.append(self.recv())self._rxbuffer=b''returnb''.join(data)",
    'AsynTcp.recv':
        "defrecv(self):try:data=self.connection.recv(8192)ifdata:returndataexcept(socket.timeout,TimeoutError):"
        "returnb''exceptConnectionResetError:passraiseConnectionClosed()",
    'AsynTcp.send': "defsend(self,data):self.connection.sendall(data)",
    'AsynTcp.disconnect':
        "defdisconnect(self):ifself.connection:closeSocket(self.connection)self.connection=None",
}

_WHERE = {'IOBase': FIO, 'StringIO': FIO, 'BytesIO': FIO, 'AsynConn': FAS, 'AsynTcp': FAS}


def _get(label):
    cls, fn = label.split('.')
    return find_func(_cls(_WHERE[cls], cls), fn)


def _shape_fact(label):
    def fact():
        got = norm(_get(label))
        if got != EXPECTED[label]:
            raise Shape(f'{label} differs from the modelled statement structure: {got[:400]}')
        return 'bool', 'true'
    fact.__name__ = 'shape_' + label.replace('.', '_')
    return fact


def lock_is_reentrant():
    """IOBase.earlyInit: self._lock = threading.RLock()"""
    f = find_func(_cls(FIO, 'IOBase'), 'earlyInit')
    ok = any(''.join(src(s).split()) == 'self._lock=threading.RLock()' for s in f.body)
    if not ok:
        raise Shape('self._lock = threading.RLock() not found in IOBase.earlyInit')
    return 'bool', 'true'


def _with_lock(func):
    ws = [w for w in walk_type(func, ast.With)
          if any(''.join(src(i.context_expr).split()) == 'self._lock' for i in w.items)]
    if len(ws) != 1:
        raise Shape(f'{func.name}: expected exactly one `with self._lock:`')
    return ws[0]


def _calls(node):
    return [''.join(src(c.func).split()) for c in sorted(walk_type(node, ast.Call), key=lambda c: (c.lineno, c.col_offset))]


def communicate_atomic():
    """both communicate methods: flush_recv, send and readline/readbytes (in this order) are inside `with self._lock`;
    check_connection is called before the lock is taken"""
    for cls, reader in (('StringIO', 'self._conn.readline'), ('BytesIO', 'self._conn.readbytes')):
        f = find_func(_cls(FIO, cls), 'communicate')
        w = _with_lock(f)
        inside = [c for c in _calls(w) if c in ('self._conn.flush_recv', 'self._conn.send', reader, 'self.closeConnection')]
        if inside != ['self._conn.flush_recv', 'self._conn.send', reader, 'self.closeConnection']:
            raise Shape(f'{cls}.communicate: locked region is {inside}')
        allc = _calls(f)
        if allc.count('self._conn.send') != 1 or allc.count('self._conn.flush_recv') != 1 or allc.count(reader) != 1:
            raise Shape(f'{cls}.communicate: connection used outside the locked region')
        cc = [c for c in walk_type(f, ast.Call) if ''.join(src(c.func).split()) == 'self.check_connection']
        if len(cc) != 1 or cc[0].lineno >= w.lineno:
            raise Shape(f'{cls}.communicate: check_connection is not called before the lock')
    return 'bool', 'true'


def multicomm_holds_lock():
    """both multicomm methods: the loop over the requests, with its communicate / writeline calls and its sleeps, is
    inside one `with self._lock:`"""
    for cls in ('StringIO', 'BytesIO'):
        f = find_func(_cls(FIO, cls), 'multicomm')
        w = _with_lock(f)
        loops = [s for s in w.body if isinstance(s, ast.For)]
        if len(loops) != 1 or len(walk_type(f, ast.For)) != 1:
            raise Shape(f'{cls}.multicomm: loop not directly inside the lock')
        inside = _calls(loops[0])
        if 'self.communicate' not in inside or 'time.sleep' not in inside:
            raise Shape(f'{cls}.multicomm: communicate / sleep not inside the loop')
        allc = _calls(f)
        for name in ('self.communicate', 'self.writeline', 'time.sleep'):
            if allc.count(name) != inside.count(name):
                raise Shape(f'{cls}.multicomm: {name} outside the locked loop')
    return 'bool', 'true'


def read_is_connected_is_wrapped():
    """HasAccessibles: the wrapper of read_<param> runs the read function inside `with self.accessLock:`"""
    tree = parse(FMB)
    cls = find_class(tree, 'HasAccessibles')
    f = find_func(cls, '__init_subclass__')
    for d in walk_type(f, ast.FunctionDef):
        if d.name == 'new_rfunc' and any(a.arg == 'rfunc' for a in d.args.args):
            w = d.body[0]
            if isinstance(w, ast.With) and ''.join(src(w.items[0].context_expr).split()) == 'self.accessLock' \
                    and 'rfunc' in _calls(w):
                return 'bool', 'true'
    raise Shape('read wrapper with accessLock not found')


def trigger_all_registered():
    """__pollThread: a communicator registers the reconnect callback 'trigger_polls' that resets last_main / last_slow
    of every polled module, sets the trigger event and returns True (so that callCallbacks keeps it registered)"""
    f = find_func(find_class(parse(FMB), 'Module'), '__pollThread')
    for d in walk_type(f, ast.FunctionDef):
        if d.name == 'trigger_all':
            body = ''.join(''.join(src(s).split()) for s in d.body)
            if body != 'forminpolled_modules:m.pollInfo.last_main=0m.pollInfo.last_slow=0trg.set()returnTrue':
                raise Shape(f'trigger_all body: {body}')
            reg = [c for c in walk_type(f, ast.Call) if ''.join(src(c.func).split()) == 'self.registerReconnectCallback']
            if len(reg) == 1 and ''.join(src(reg[0]).split()) == "self.registerReconnectCallback('trigger_polls',trigger_all)":
                return 'bool', 'true'
    raise Shape('trigger_all / registerReconnectCallback not found')


def _param_default(cls, name):
    v = find_assign(_cls(FIO, cls), name)
    if not isinstance(v, ast.Call):
        raise Shape(f'{name} is not a Parameter(...)')
    for kw in v.keywords:
        if kw.arg == 'default':
            return ast.literal_eval(kw.value)
    raise Shape(f'{name}: no default')


def recv_slice_s():
    """AsynConn.timeout (inter byte time-out, one receive slice) in seconds"""
    return 'nat', cnat(ast.literal_eval(find_assign(_cls(FAS, 'AsynConn'), 'timeout')))


def default_timeout_s():
    return 'nat', cnat(_param_default('IOBase', 'timeout'))


def default_interval_s():
    return 'nat', cnat(_param_default('IOBase', 'pollinterval'))


def initial_last_attempt():
    return 'nat', cnat(ast.literal_eval(find_assign(_cls(FIO, 'IOBase'), '_last_connect_attempt')))



# ------------------------------------------------------------------ receive layer (coq/theories/C16/RxModel.v)
def _flat(node):
    return ''.join(src(node).split())


def _rxbuffer_writes(func):
    """every statement that assigns to self._rxbuffer, flattened, in source order"""
    res = []
    for n in sorted(walk_type(func, (ast.Assign, ast.AugAssign, ast.AnnAssign)), key=lambda n: (n.lineno, n.col_offset)):
        targets = n.targets if isinstance(n, ast.Assign) else [n.target]
        flat = []
        for t in targets:
            flat.extend(t.elts if isinstance(t, (ast.Tuple, ast.List)) else [t])
        if any(is_self_attr(t, '_rxbuffer') for t in flat):
            res.append(_flat(n))
    return res


_SEARCH = ('split', 'rsplit', 'find', 'rfind', 'index', 'rindex', 'partition', 'rpartition', 'search', 'match',
           'startswith', 'endswith', 'splitlines', 'count')


def _single_loop(func, name):
    loops = [s for s in func.body if isinstance(s, ast.While)]
    if len(loops) != 1 or len(walk_type(func, (ast.While, ast.For))) != 1:
        raise Shape(f'{name}: expected exactly one while loop at the top level of the function')
    return loops[0]


def readline_splits_whole_buffer():
    """AsynConn.readline: every pass of `while True:` starts with `splitted = self._rxbuffer.split(self.end_of_line, 1)`
    (the WHOLE buffer is searched: no start offset, no other search of the buffer anywhere in the function), a hit is
    taken by `line, self._rxbuffer = splitted` + `return line`, received data is appended by `self._rxbuffer += data`,
    and these are the only writes to _rxbuffer (no slicing of the buffer)"""
    f = _get('AsynConn.readline')
    w = _single_loop(f, 'readline')
    if _flat(w.test) != 'True':
        raise Shape(f'readline: loop condition is {_flat(w.test)}')
    body = [s for s in w.body if not _is_noise(s)]
    if len(body) < 2 or _flat(body[0]) != 'splitted=self._rxbuffer.split(self.end_of_line,1)':
        raise Shape(f'readline: the loop does not start with the split of the whole buffer: {_flat(body[0])[:120]}')
    if _flat(body[1]) != 'iflen(splitted)==2:line,self._rxbuffer=splittedreturnline':
        raise Shape(f'readline: a hit is not taken by `line, self._rxbuffer = splitted; return line`: {_flat(body[1])[:160]}')
    searches = [_flat(c) for c in walk_type(f, ast.Call) if isinstance(c.func, ast.Attribute) and c.func.attr in _SEARCH]
    if searches != ['self._rxbuffer.split(self.end_of_line,1)']:
        raise Shape(f'readline: searches of the buffer: {searches}')
    if _rxbuffer_writes(f) != ['line,self._rxbuffer=splitted', 'self._rxbuffer+=data']:
        raise Shape(f'readline: writes to _rxbuffer: {_rxbuffer_writes(f)}')
    if any(is_self_attr(n.value, '_rxbuffer') for n in walk_type(f, ast.Subscript)):
        raise Shape('readline: the buffer is sliced')
    return 'bool', 'true'


def readbytes_slices_prefix():
    """AsynConn.readbytes: loops `while len(self._rxbuffer) < nbytes:` appending with `self._rxbuffer += data`, then
    `line = self._rxbuffer[:nbytes]`, `self._rxbuffer = self._rxbuffer[nbytes:]`, `return line`; no other write to
    _rxbuffer"""
    f = _get('AsynConn.readbytes')
    w = _single_loop(f, 'readbytes')
    if _flat(w.test) != 'len(self._rxbuffer)<nbytes':
        raise Shape(f'readbytes: loop condition is {_flat(w.test)}')
    k = f.body.index(w)
    tail = [_flat(s) for s in f.body[k + 1:] if not _is_noise(s)]
    if tail != ['line=self._rxbuffer[:nbytes]', 'self._rxbuffer=self._rxbuffer[nbytes:]', 'returnline']:
        raise Shape(f'readbytes: after the loop: {tail}')
    if _rxbuffer_writes(f) != ['self._rxbuffer+=data', 'self._rxbuffer=self._rxbuffer[nbytes:]']:
        raise Shape(f'readbytes: writes to _rxbuffer: {_rxbuffer_writes(f)}')
    return 'bool', 'true'


def flush_recv_clears_buffer():
    """AsynTcp.flush_recv: starts with `data = [self._rxbuffer]`, loops `while select.select([self.connection], [], [], 0)[0]:
    data.append(self.recv())`, and ends with `self._rxbuffer = b''` (after the loop, unconditionally) followed by
    `return b''.join(data)`; this is the only write to _rxbuffer"""
    f = _get('AsynTcp.flush_recv')
    body = [s for s in f.body if not _is_noise(s)]
    flat = [_flat(s) for s in body]
    want = ['data=[self._rxbuffer]', 'whileselect.select([self.connection],[],[],0)[0]:data.append(self.recv())',
            "self._rxbuffer=b''", "returnb''.join(data)"]
    if flat != want:
        raise Shape(f'flush_recv: statements are {flat}')
    if _rxbuffer_writes(f) != ["self._rxbuffer=b''"]:
        raise Shape(f'flush_recv: writes to _rxbuffer: {_rxbuffer_writes(f)}')
    return 'bool', 'true'


def recv_empty_is_closed():
    """AsynTcp.recv: non-empty data is returned, socket.timeout / TimeoutError gives b'', everything else (b'' from the
    socket, ConnectionResetError) ends in `raise ConnectionClosed()`; the socket is read with its own time-out
    (created by socket.create_connection(..., timeout=self.timeout))"""
    f = _get('AsynTcp.recv')
    body = [s for s in f.body if not _is_noise(s)]
    if len(body) != 2 or not isinstance(body[0], ast.Try) or _flat(body[1]) != 'raiseConnectionClosed()':
        raise Shape('recv: not `try: ... ; raise ConnectionClosed()`')
    t = body[0]
    if [_flat(s) for s in t.body] != ['data=self.connection.recv(8192)', 'ifdata:returndata']:
        raise Shape(f'recv: try body {[_flat(s) for s in t.body]}')
    hs = {_flat(h.type): [_flat(s) for s in h.body] for h in t.handlers}
    if hs != {'(socket.timeout,TimeoutError)': ["returnb''"], 'ConnectionResetError': ['pass']} or t.orelse or t.finalbody:
        raise Shape(f'recv: handlers {hs}')
    init = find_func(_cls(FAS, 'AsynTcp'), '__init__')
    cc = [_flat(c) for c in walk_type(init, ast.Call) if _flat(c.func) == 'socket.create_connection']
    if cc != ['socket.create_connection((host,port),timeout=self.timeout)']:
        raise Shape(f'AsynTcp.__init__: {cc}')
    return 'bool', 'true'


def flush_after_wait_before():
    """the flush comes after the (first) sleep of wait_before and immediately before the first send.
    StringIO.communicate: `garbage = None` in front of the loop `for cmd in cmds:`, whose body is exactly
    `if self.wait_before: time.sleep(self.wait_before)`, `if garbage is None: garbage = self._conn.flush_recv() ...`,
    `self._conn.send(cmd + self._eol_write)`; no other flush_recv / sleep / send in the function; the commands are split
    only when wait_before is set.  BytesIO.communicate: the inner try starts with the sleep, the flush and the send, in
    this order"""
    f = _get('StringIO.communicate')
    loops = walk_type(f, ast.For)
    if len(loops) != 1 or _flat(loops[0].target) != 'cmd' or _flat(loops[0].iter) != 'cmds' or loops[0].orelse:
        raise Shape('StringIO.communicate: expected exactly one loop `for cmd in cmds:`')
    body = [b for b in loops[0].body if not _is_noise(b)]
    if len(body) != 3:
        raise Shape(f'StringIO.communicate: loop body has {len(body)} statements')
    if _flat(body[0]) != 'ifself.wait_before:time.sleep(self.wait_before)':
        raise Shape(f'StringIO.communicate: the loop does not start with the wait_before sleep: {_flat(body[0])}')
    g = body[1]
    if not isinstance(g, ast.If) or _flat(g.test) != 'garbageisNone' or g.orelse or not g.body \
            or _flat(g.body[0]) != 'garbage=self._conn.flush_recv()':
        raise Shape(f'StringIO.communicate: the flush is not `if garbage is None: garbage = self._conn.flush_recv()` '
                    f'between the sleep and the send: {_flat(g)[:120]}')
    if _flat(body[2]) != 'self._conn.send(cmd+self._eol_write)':
        raise Shape(f'StringIO.communicate: send: {_flat(body[2])}')
    allc = _calls(f)
    for name in ('self._conn.flush_recv', 'time.sleep', 'self._conn.send'):
        if allc.count(name) != 1:
            raise Shape(f'StringIO.communicate: {name} is called {allc.count(name)} times')
    assigns = [_flat(a) for a in sorted(walk_type(f, ast.Assign), key=lambda n: (n.lineno, n.col_offset))
               if any(_flat(t) in ('garbage', 'cmds') for t in a.targets)]
    if assigns != ['cmds=command.split(self._eol_write)', 'cmds=[command]', 'garbage=None', 'garbage=self._conn.flush_recv()']:
        raise Shape(f'StringIO.communicate: assignments to cmds / garbage: {assigns}')
    init = [a for a in walk_type(f, ast.Assign) if _flat(a) == 'garbage=None']
    if init[0].lineno >= loops[0].lineno:
        raise Shape('StringIO.communicate: `garbage = None` is not in front of the loop')
    split = [i for i in walk_type(f, ast.If) if _flat(i.test) == 'self.wait_beforeandself._eol_write']
    if len(split) != 1 or [_flat(b) for b in split[0].body] != ['cmds=command.split(self._eol_write)'] \
            or [_flat(b) for b in split[0].orelse] != ['cmds=[command]']:
        raise Shape('StringIO.communicate: the command is not split on `self.wait_before and self._eol_write` only')
    fb = _get('BytesIO.communicate')
    w = _with_lock(fb)
    tries = [t for t in w.body if isinstance(t, ast.Try)]
    if len(tries) != 1:
        raise Shape('BytesIO.communicate: inner try not found')
    tb = [_flat(b) for b in tries[0].body if not _is_noise(b)]
    want = ['ifself.wait_before:time.sleep(self.wait_before)', 'garbage=self._conn.flush_recv()']
    if tb[:2] != want or 'self._conn.send(request)' not in tb or tb.index('self._conn.send(request)') > 3:
        raise Shape(f'BytesIO.communicate: not sleep, flush, send: {tb[:4]}')
    callsb = _calls(fb)
    for name in ('self._conn.flush_recv', 'time.sleep', 'self._conn.send'):
        if callsb.count(name) != 1:
            raise Shape(f'BytesIO.communicate: {name} is called {callsb.count(name)} times')
    return 'bool', 'true'


FACTS = [_shape_fact(k) for k in EXPECTED] + [lock_is_reentrant, communicate_atomic, multicomm_holds_lock,
                                              flush_after_wait_before,
                                              read_is_connected_is_wrapped, trigger_all_registered,
                                              readline_splits_whole_buffer, readbytes_slices_prefix,
                                              flush_recv_clears_buffer, recv_empty_is_closed, recv_slice_s,
                                              default_timeout_s, default_interval_s, initial_last_attempt]

FINGERPRINTS = {k: (lambda k=k: _get(k)) for k in EXPECTED}
FINGERPRINTS['Module.__pollThread'] = lambda: find_func(find_class(parse(FMB), 'Module'), '__pollThread')
