"""facts read off frappy/protocol/dispatcher.py, frappy/modulebase.py and frappy/protocol/interface/handler.py
for C08 (fail closed): lock structure, order of registration and snapshot, listener selection, what each
deactivating path removes"""
import ast
from translator import parse, find_class, find_func, find_assign, Shape, cbool, cstr, src, walk_type, \
    with_lock_bodies, is_self_attr

FD = 'frappy/protocol/dispatcher.py'
FM = 'frappy/modulebase.py'
FH = 'frappy/protocol/interface/handler.py'
FMSG = 'frappy/protocol/messages.py'


def _disp():
    return find_class(parse(FD), 'Dispatcher')


def _method(name):
    return find_func(_disp(), name)


def _norm(node):
    return src(node).replace(' ', '').replace('\n', '')


def _stmts(f):
    """statements of a function without the docstring"""
    return [s for s in f.body if not (isinstance(s, ast.Expr) and isinstance(s.value, ast.Constant))]


def _msg_const(name):
    tree = parse(FMSG)

    def ev(node):
        if isinstance(node, ast.Constant) and isinstance(node.value, str):
            return node.value
        if isinstance(node, ast.Name):
            return ev(find_assign(tree, node.id))
        if isinstance(node, ast.BinOp) and isinstance(node.op, ast.Add):
            return ev(node.left) + ev(node.right)
        raise Shape(f'not a string constant: {src(node)[:60]}')
    return ev(find_assign(tree, name))


def EVENTREPLY():
    return 'list N', cstr(_msg_const('EVENTREPLY'))


def ENABLEEVENTSREPLY():
    return 'list N', cstr(_msg_const('ENABLEEVENTSREPLY'))


def DISABLEEVENTSREPLY():
    return 'list N', cstr(_msg_const('DISABLEEVENTSREPLY'))


def IDENTREQUEST():
    return 'list N', cstr(_msg_const('IDENTREQUEST'))


def request_under_dispatcher_lock():
    """handle_request: everything after the debug line is inside `with self._lock:`; the handler is called there"""
    f = _method('handle_request')
    st = [s for s in _stmts(f) if not (isinstance(s, ast.Expr) and _norm(s).startswith('self.log.debug('))]
    ok = len(st) == 1 and isinstance(st[0], ast.With) and is_self_attr(st[0].items[0].context_expr, '_lock')
    if ok:
        body = [_norm(s) for s in st[0].body]
        ok = (any(b.startswith('ifhandler:returnhandler(conn,specifier,data)') for b in body)
              and any(b.replace('(', '').replace(')', '').startswith(
                  "ifaction==IDENTREQUEST:action,specifier,data='_ident',None,None"
                  "elifaction.startswith'_'oraction=='request':raiseProtocolError") for b in body)
              and any(b.replace('"', "'") == "handler=getattr(self,f'handle_{action}',None)" for b in body))
    init = find_func(_disp(), '__init__')
    rl = [n for n in walk_type(init, ast.Assign) if _norm(n) == 'self._lock=threading.RLock()']
    return 'bool', cbool(ok and len(rl) == 1)


def announce_under_update_lock():
    """Module.announceUpdate: the whole body is `with self.updateLock:`; the value is stored before the
    callback `self.updateCallback(self, pobj)`, which is guarded by `if pobj.export:` and is the last statement"""
    m = find_class(parse(FM), 'Module')
    f = find_func(m, 'announceUpdate')
    st = _stmts(f)
    ok = len(st) == 1 and isinstance(st[0], ast.With) and is_self_attr(st[0].items[0].context_expr, 'updateLock')
    if ok:
        body = st[0].body
        last = body[-1]
        ok = (isinstance(last, ast.If) and _norm(last.test) == 'pobj.export'
              and [_norm(s) for s in last.body] == ['self.updateCallback(self,pobj)'] and not last.orelse)
        stores = [n for n in walk_type(st[0], ast.Assign) if _norm(n) == 'pobj.value=value']
        ok = ok and len(stores) == 1 and stores[0].lineno < last.lineno
    init = find_func(m, '__init__')
    ok = ok and any(_norm(n) == 'self.updateCallback=srv.dispatcher.announce_update' for n in walk_type(init, ast.Assign))
    ok = ok and any(_norm(n) == 'self.updateLock=threading.RLock()' for n in walk_type(init, ast.Assign))
    return 'bool', cbool(ok)


def announce_update_shape():
    """announce_update: self.broadcast_event(make_update(moduleobj.name, pobj)); make_update reads the value
    through pobj.export_value() and names the event f'{modulename}:{pobj.export}'"""
    f = _method('announce_update')
    ok = [_norm(s) for s in _stmts(f)] == ['self.broadcast_event(make_update(moduleobj.name,pobj))']
    mu = find_func(parse(FD), 'make_update')
    rets = [r for r in walk_type(mu, ast.Return)]
    ok = ok and len(rets) == 2 and all(
        isinstance(r.value, ast.Tuple) and _norm(r.value.elts[1]).replace('"', "'") == "f'{modulename}:{pobj.export}'"
        for r in rets)
    rets.sort(key=lambda r: r.lineno)
    ok = ok and 'pobj.export_value()' in _norm(rets[1].value.elts[2]) and 'pobj.readerror' in _norm(rets[0].value.elts[2])
    return 'bool', cbool(ok)


def broadcast_listeners_shape():
    """broadcast_event (not reallyall): copy of the subscribers of msg[1], plus subscribers of the module, plus the
    generic subscribers; then one send_reply per listener"""
    f = _method('broadcast_event')
    st = _stmts(f)
    ok = len(st) == 2 and isinstance(st[0], ast.If) and _norm(st[0].test) == 'reallyall'
    if ok:
        el = [_norm(s) for s in st[0].orelse]
        ok = (el == ['listeners=self._subscriptions.get(msg[1],set()).copy()',
                     "module=msg[1].split(':',1)[0]",
                     'listeners.update(self._subscriptions.get(module,set()))',
                     'listeners.update(self._active_connections)']
              and _norm(st[1]) == 'forconninlisteners:conn.send_reply(msg)')
    return 'bool', cbool(ok)


def activate_registers_before_snapshot():
    """handle_activate: data -> ProtocolError first; specifier: module must be in secnode.export (NoSuchModuleError),
    a parameter must be an accessible (NoSuchParameterError), then self.subscribe(conn, specifier); no specifier:
    self._active_connections.add(conn); only then the loop that sends the snapshot, then the reply"""
    f = _method('handle_activate')
    st = _stmts(f)
    ok = (len(st) == 4 and isinstance(st[0], ast.If) and _norm(st[0].test) == 'data'
          and isinstance(st[0].body[0], ast.Raise) and _norm(st[0].body[0].exc).startswith('ProtocolError(')
          and isinstance(st[1], ast.If) and _norm(st[1].test) == 'specifier'
          and isinstance(st[2], ast.For) and isinstance(st[3], ast.Return))
    if ok:
        th = st[1].body
        ok = (_norm(th[-1]) == 'self.subscribe(conn,specifier)'
              and any(isinstance(s, ast.If) and _norm(s.test) == 'modulenamenotinself.secnode.export'
                      and _norm(s.body[0].exc).startswith('NoSuchModuleError(') for s in th)
              and any(_norm(r.exc).startswith('NoSuchParameterError(') for r in walk_type(st[1], ast.Raise))
              and [_norm(s) for s in st[1].orelse] ==
              ['self._active_connections.add(conn)', 'modules=[(m,None)forminself.secnode.export]'])
    if ok:
        loop = st[2]
        sends = [c for c in walk_type(loop, ast.Call) if _norm(c.func) == 'conn.send_reply']
        ok = (_norm(loop.target) in ('(modulename,pname)', 'modulename,pname') and _norm(loop.iter) == 'modules'
              and len(sends) == 2 and all(_norm(c.args[0]).startswith('make_update(modulename,') for c in sends)
              and any(isinstance(i, ast.If) and _norm(i.test) == 'isinstance(pobj,Parameter)andpobj.export'
                      for i in walk_type(loop, ast.If)))
        # registration and snapshot are the only table / connection operations
        regs = [c for c in walk_type(f, ast.Call) if _norm(c.func) in ('self.subscribe', 'self._active_connections.add')]
        ok = ok and len(regs) == 2 and all(c.lineno < loop.lineno for c in regs)
    return 'bool', cbool(ok)


def snapshot_under_module_lock():
    """handle_activate (repair c1c8ab8): the body of the snapshot loop is `moduleobj = ...` followed by ONE
    `with moduleobj.updateLock:` that contains every make_update / conn.send_reply of the function (the messages of
    one module are built and sent under the updateLock of that module); no other `with` in the function"""
    f = _method('handle_activate')
    loops = [s for s in _stmts(f) if isinstance(s, ast.For)]
    ok = len(loops) == 1 and len(loops[0].body) == 2
    if ok:
        a, w = loops[0].body
        ok = (_norm(a) == 'moduleobj=self.secnode.modules.get(modulename,None)' and isinstance(w, ast.With)
              and len(w.items) == 1 and _norm(w.items[0].context_expr) == 'moduleobj.updateLock'
              and len(walk_type(f, ast.With)) == 1)
        sends = [c for c in walk_type(f, ast.Call) if _norm(c.func) in ('conn.send_reply', 'make_update')]
        inside = [c for c in walk_type(w, ast.Call) if _norm(c.func) in ('conn.send_reply', 'make_update')] if ok else []
        ok = ok and len(sends) == 4 and len(inside) == 4
    return 'bool', cbool(ok)


def broadcast_takes_no_dispatcher_lock():
    """broadcast_event / announce_update contain no `with` statement (listener selection and sends run outside
    Dispatcher._lock)"""
    return 'bool', cbool(not walk_type(_method('broadcast_event'), ast.With)
                         and not walk_type(_method('announce_update'), ast.With))


def subscribe_shape():
    f = _method('subscribe')
    return 'bool', cbool([_norm(s) for s in _stmts(f)] ==
                         ['self._subscriptions.setdefault(eventname,set()).add(conn)'])


def subscription_entries_never_removed():
    """nothing in the Dispatcher class removes or rebinds an entry of self._subscriptions: no `del`, no pop / popitem /
    clear / update / __delitem__ / __setitem__ on it, no item assignment, the attribute is assigned once
    (`self._subscriptions = {}` in __init__); the only operation that binds a new entry is the setdefault of subscribe"""
    cls = _disp()

    def is_tbl(node):
        return is_self_attr(node, '_subscriptions')

    ok = True
    for d in walk_type(cls, ast.Delete):
        for tg in d.targets:
            if any(is_tbl(n) for n in ast.walk(tg)):
                ok = False
    for c in walk_type(cls, ast.Call):
        f = c.func
        if isinstance(f, ast.Attribute) and is_tbl(f.value) and f.attr not in ('get', 'items', 'setdefault', 'keys', 'values'):
            ok = False
    assigns = []
    for a in walk_type(cls, ast.Assign) + walk_type(cls, ast.AugAssign) + walk_type(cls, ast.AnnAssign):
        targets = a.targets if isinstance(a, ast.Assign) else [a.target]
        for tg in targets:
            for n in ast.walk(tg):
                if is_tbl(n):
                    assigns.append(a)
    ok = ok and len(assigns) == 1 and _norm(assigns[0]) == 'self._subscriptions={}' \
        and assigns[0] in walk_type(find_func(cls, '__init__'), ast.Assign)
    sd = [c for c in walk_type(cls, ast.Call)
          if isinstance(c.func, ast.Attribute) and is_tbl(c.func.value) and c.func.attr == 'setdefault']
    ok = ok and len(sd) == 1 and sd[0] in walk_type(_method('subscribe'), ast.Call)
    return 'bool', cbool(ok)


def unsubscribe_shape():
    """module event: discard below f'{eventname}:' too; then discard from the event itself"""
    f = _method('unsubscribe')
    st = _stmts(f)
    ok = (len(st) == 2 and isinstance(st[0], ast.If) and _norm(st[0].test).replace('"', "'") == "':'notineventname"
          and isinstance(st[0].body[0], ast.For) and _norm(st[0].body[0].iter) == 'self._subscriptions.items()'
          and _norm(st[0].body[0].body[0]).replace('"', "'") == "ifk.startswith(f'{eventname}:'):v.discard(conn)"
          and _norm(st[1]) == 'ifeventnameinself._subscriptions:self._subscriptions[eventname].discard(conn)')
    return 'bool', cbool(ok)


def unsubscribe_reaches_specific_loop():
    """a module-wide unsubscribe ALWAYS runs the loop over the 'more specific' events (`k.startswith(eventname + ':')`),
    whether or not the bare event has an entry in the table: the method contains no return / raise / break / continue /
    try / while, exactly one loop, over self._subscriptions.items(), which is either a top-level statement or the whole
    body of a top-level `if ':' not in eventname:` without else, and no earlier top-level statement can leave the method
    or rebind the table / the event name; the loop discards the connection from every set whose key starts with the
    event name and a colon (no further condition)"""
    f = _method('unsubscribe')
    st = _stmts(f)
    ok = not any(walk_type(f, t) for t in (ast.Return, ast.Raise, ast.Break, ast.Continue, ast.Try, ast.While,
                                           ast.Yield, ast.Assert, ast.With, ast.Delete))
    loops = walk_type(f, ast.For)
    ok = ok and len(loops) == 1 and _norm(loops[0].iter) == 'self._subscriptions.items()' and not loops[0].orelse \
        and _norm(loops[0].target) in ('k,v', '(k,v)')
    if ok:
        loop = loops[0]
        pos = None
        for i, x in enumerate(st):
            if x is loop or (isinstance(x, ast.If) and _norm(x.test).replace('"', "'") == "':'notineventname"
                             and not x.orelse and len(x.body) == 1 and x.body[0] is loop):
                pos = i
        ok = pos is not None
        # statements before the loop: only the (guarded) discard from the set of the event itself
        for x in st[:pos] if ok else []:
            ok = ok and _norm(x) in ('ifeventnameinself._subscriptions:self._subscriptions[eventname].discard(conn)',
                                     'self._subscriptions.get(eventname,set()).discard(conn)')
        ok = ok and [_norm(x).replace('"', "'") for x in loop.body] in (
            ["ifk.startswith(f'{eventname}:'):v.discard(conn)"], ["ifk.startswith(eventname+':'):v.discard(conn)"])
    return 'bool', cbool(ok)


def deactivate_shape():
    f = _method('handle_deactivate')
    st = _stmts(f)
    ok = (len(st) == 3 and isinstance(st[0], ast.If) and _norm(st[0].test) == 'data'
          and _norm(st[0].body[0].exc).startswith('ProtocolError(')
          and isinstance(st[1], ast.If) and _norm(st[1].test) == 'specifier'
          and [_norm(s) for s in st[1].body] == ['self.unsubscribe(conn,specifier)']
          and [_norm(s) for s in st[1].orelse] == ['self._active_connections.discard(conn)']
          and _norm(st[2]) == 'return(DISABLEEVENTSREPLY,None,None)')
    return 'bool', cbool(ok)


def reset_shape():
    """reset_connection discards the connection from every subscription set and from the generic subscribers;
    handle__ident and remove_connection call it; RequestHandler.finish calls remove_connection"""
    f = _method('reset_connection')
    st = [_norm(s) for s in _stmts(f)]
    ok = (st == ['for(_evt,conns)inlist(self._subscriptions.items()):conns.discard(conn)',
                 "self.set_all_log_levels(conn,'off')", 'self._active_connections.discard(conn)']
          or st == ['for_evt,connsinlist(self._subscriptions.items()):conns.discard(conn)',
                    "self.set_all_log_levels(conn,'off')", 'self._active_connections.discard(conn)'])
    ident = [_norm(s) for s in _stmts(_method('handle__ident'))]
    ok = ok and ident == ['self.reset_connection(conn)', 'return(IDENTREPLY,None,None)']
    rem = [_norm(s) for s in _stmts(_method('remove_connection'))]
    ok = ok and rem[-1] == 'self.reset_connection(conn)' and not walk_type(_method('remove_connection'), ast.With)
    h = find_class(parse(FH), 'RequestHandler')
    fin = [_norm(s) for s in _stmts(find_func(h, 'finish'))]
    ok = ok and fin[-1] == 'self.server.dispatcher.remove_connection(self)'
    ini = find_func(h, '__init__')
    tries = walk_type(ini, ast.Try)
    ok = ok and len(tries) == 1 and [_norm(s) for s in tries[0].finalbody] == ['self.finish()'] \
        and [_norm(s) for s in tries[0].body] == ['self.setup()', 'self.handle()']
    return 'bool', cbool(ok)


def handler_replies_after_dispatch():
    """RequestHandler.handle: result = dispatcher.handle_request(self, msg) ... self.send_reply(result) as the last
    statement of the message loop; a ConnectionClose from receive ends handle"""
    h = find_class(parse(FH), 'RequestHandler')
    f = find_func(h, 'handle')
    outer = [s for s in f.body if isinstance(s, ast.While)]
    ok = len(outer) == 1
    if ok:
        inner = [s for s in outer[0].body if isinstance(s, ast.While)]
        ok = len(inner) == 1 and _norm(inner[0].body[-1]) == 'self.send_reply(result)'
        calls = [c for c in walk_type(inner[0], ast.Call) if _norm(c.func) == 'serverobj.dispatcher.handle_request'] if ok else []
        ok = ok and len(calls) == 1 and _norm(calls[0]) == 'serverobj.dispatcher.handle_request(self,msg)'
        tr = outer[0].body[0]
        ok = ok and isinstance(tr, ast.Try) and _norm(tr.body[0]) == 'newdata=self.receive()' \
            and any(_norm(hd.type) == 'ConnectionClose' and isinstance(hd.body[-1], ast.Return) for hd in tr.handlers)
    return 'bool', cbool(ok)


FACTS = [EVENTREPLY, ENABLEEVENTSREPLY, DISABLEEVENTSREPLY, IDENTREQUEST, request_under_dispatcher_lock,
         announce_under_update_lock, announce_update_shape, broadcast_listeners_shape,
         activate_registers_before_snapshot, snapshot_under_module_lock, broadcast_takes_no_dispatcher_lock,
         subscribe_shape, subscription_entries_never_removed, unsubscribe_shape, unsubscribe_reaches_specific_loop,
         deactivate_shape, reset_shape, handler_replies_after_dispatch]

FINGERPRINTS = {
    'make_update': lambda: find_func(parse(FD), 'make_update'),
    'Dispatcher.broadcast_event': lambda: _method('broadcast_event'),
    'Dispatcher.announce_update': lambda: _method('announce_update'),
    'Dispatcher.subscribe': lambda: _method('subscribe'),
    'Dispatcher.unsubscribe': lambda: _method('unsubscribe'),
    'Dispatcher.reset_connection': lambda: _method('reset_connection'),
    'Dispatcher.remove_connection': lambda: _method('remove_connection'),
    'Dispatcher.handle_request': lambda: _method('handle_request'),
    'Dispatcher.handle__ident': lambda: _method('handle__ident'),
    'Dispatcher.handle_activate': lambda: _method('handle_activate'),
    'Dispatcher.handle_deactivate': lambda: _method('handle_deactivate'),
    'Module.announceUpdate': lambda: find_func(find_class(parse(FM), 'Module'), 'announceUpdate'),
    'RequestHandler.handle': lambda: find_func(find_class(parse(FH), 'RequestHandler'), 'handle'),
    'RequestHandler.finish': lambda: find_func(find_class(parse(FH), 'RequestHandler'), 'finish'),
}
