"""facts read off frappy/extparams.py, frappy/params.py, frappy/modulebase.py, frappy/mixins.py, frappy/datatypes.py for C18

Every fact is a syntactic shape the model in coq/theories/C18/Model.v relies on.  A missing shape raises Shape
(fail closed: the definition is omitted from Gen/C18.v and C18_source_facts no longer compiles)."""
import ast
from translator import parse, find_class, find_func, find_assign, Shape, const, cbool, cnat, src, walk_type

EXT = 'frappy/extparams.py'
PAR = 'frappy/params.py'
MOD = 'frappy/modulebase.py'
MIX = 'frappy/mixins.py'
DT = 'frappy/datatypes.py'


def _norm(node):
    return src(node).replace(' ', '').replace('\n', '').replace('"', "'")


def _inner_func(func, name):
    for n in ast.walk(func):
        if isinstance(n, ast.FunctionDef) and n.name == name and n is not func:
            return n
    raise Shape(f'inner function {name} not found in {func.name}')


def _struct():
    return find_class(parse(EXT), 'StructParam')


def _fe():
    return find_class(parse(EXT), 'FloatEnumParam')


# ------------------------------------------------------------------ StructParam
def struct_callbacks_shape():
    """finish(): combined layout -> ONE callback on the struct assigning every member from value[membername];
    otherwise one callback per member which (unless insideRW) copies the struct, replaces the member, assigns the struct"""
    fin = find_func(_struct(), 'finish')
    ifs = [n for n in walk_type(fin, ast.If) if _norm(n.test) == 'self.hasStructRW']
    if len(ifs) != 1:
        raise Shape('finish: expected exactly one `if self.hasStructRW`')
    node = ifs[0]
    rw, nr = ast.Module(body=node.body, type_ignores=[]), ast.Module(body=node.orelse, type_ignores=[])
    rw_s, nr_s = _norm(rw), _norm(nr)
    ok = ('setattr(modobj,param.name,value[membername])' in rw_s
          and 'modobj.addCallback(self.name,cb)' in rw_s
          and 'forparaminself.paramdict' not in rw_s.split('defcb')[0]       # the loop is inside the callback
          and 'ifnotstructparam.insideRW:' in nr_s
          and 'prev=dict(getattr(modobj,structparam.name))' in nr_s
          and 'prev[membername]=value' in nr_s
          and 'setattr(modobj,structparam.name,prev)' in nr_s
          and 'modobj.addCallback(param.name,cb)' in nr_s)
    if not ok:
        raise Shape('finish: callbacks do not have the modelled shape')
    return 'bool', 'true'


def struct_generated_methods_shape():
    """__set_name__: generated member read = read_<struct>()[member]; generated member write = copy of cached struct with
    the member replaced -> write_<struct>, returns read_<member>(); generated struct read/write call every member method
    between insideRW += 1 and (finally) insideRW -= 1"""
    sn = find_func(_struct(), '__set_name__')
    rfunc = _norm(_inner_func(sn, 'rfunc'))
    wfunc = _norm(_inner_func(sn, 'wfunc'))
    srf = _inner_func(sn, 'struct_read_func')
    swf = _inner_func(sn, 'struct_write_func')
    ok = ('returngetattr(self,struct_read_name)()[membername]' in rfunc
          and 'valuedict=dict(getattr(self,name))' in wfunc and 'valuedict[membername]=value' in wfunc
          and 'getattr(self,struct_write_name)(valuedict)' in wfunc and 'returngetattr(self,rname)()' in wfunc)
    for f, call in ((srf, 'return{m:getattr(self,f)()form,finflist}'),
                    (swf, 'return{m:getattr(self,f)(value[m])form,finfunclist}')):
        s = _norm(f)
        tries = walk_type(f, ast.Try)
        ok = ok and len(tries) == 1 and 'pobj.insideRW+=1' in s.split('try:')[0] \
            and call in _norm(ast.Module(body=tries[0].body, type_ignores=[])) \
            and 'pobj.insideRW-=1' in _norm(ast.Module(body=tries[0].finalbody, type_ignores=[]))
    has = _norm(sn)
    ok = ok and 'self.hasStructRW=hasattr(owner,struct_read_name)orhasattr(owner,struct_write_name)' in has
    if not ok:
        raise Shape('StructParam.__set_name__: generated methods do not have the modelled shape')
    return 'bool', 'true'


def struct_member_write_returns_readback():
    """__set_name__, combined layout: the generated write_<member> (inner function wfunc) consists of exactly
    valuedict = dict(getattr(self, name)); valuedict[membername] = value; getattr(self, struct_write_name)(valuedict) as a
    statement of its own (result not used); and ONE return, the last statement: `return getattr(self, rname)()` - the value
    READ BACK through read_<member> after the struct was written, not the requested one.  rname is the default argument
    bound to the rname = f'read_{pname}' of the same loop iteration, struct_write_name = f'write_{name}'"""
    sn = find_func(_struct(), '__set_name__')
    w = _inner_func(sn, 'wfunc')
    args = w.args
    if args.vararg or args.kwarg or args.kwonlyargs or args.posonlyargs:
        raise Shape('StructParam wfunc: unexpected signature')
    names = [a.arg for a in args.args]
    if names[:2] != ['self', 'value']:
        raise Shape('StructParam wfunc: expected (self, value, ...)')
    defaults = dict(zip(names[len(names) - len(args.defaults):], (_norm(d) for d in args.defaults)))

    def resolve(node):
        t = _norm(node)
        return defaults.get(t, t)

    returns = walk_type(w, ast.Return)
    body = w.body
    ok = (len(body) == 4 and len(returns) == 1 and returns[0] is body[-1]
          and not walk_type(w, (ast.Yield, ast.YieldFrom, ast.Try, ast.While, ast.For, ast.If, ast.IfExp)))
    if ok:
        # the return: getattr(self, <rname>)() without arguments
        v = body[-1].value
        ok = (isinstance(v, ast.Call) and not v.args and not v.keywords and isinstance(v.func, ast.Call)
              and _norm(v.func.func) == 'getattr' and len(v.func.args) == 2 and not v.func.keywords
              and _norm(v.func.args[0]) == 'self' and resolve(v.func.args[1]) == 'rname')
    if ok:
        # the struct write: an expression statement getattr(self, <struct_write_name>)(valuedict)
        st = body[2]
        c = st.value if isinstance(st, ast.Expr) else None
        ok = (isinstance(c, ast.Call) and len(c.args) == 1 and not c.keywords and _norm(c.args[0]) == 'valuedict'
              and isinstance(c.func, ast.Call) and _norm(c.func.func) == 'getattr' and len(c.func.args) == 2
              and _norm(c.func.args[0]) == 'self' and resolve(c.func.args[1]) == 'struct_write_name')
    if ok:
        a0, a1 = body[0], body[1]
        ok = (isinstance(a0, ast.Assign) and _norm(a0.targets[0]) == 'valuedict' and len(a0.targets) == 1
              and isinstance(a0.value, ast.Call) and _norm(a0.value.func) == 'dict' and len(a0.value.args) == 1
              and isinstance(a0.value.args[0], ast.Call) and _norm(a0.value.args[0].func) == 'getattr'
              and _norm(a0.value.args[0].args[0]) == 'self' and resolve(a0.value.args[0].args[1]) == 'name'
              and isinstance(a1, ast.Assign) and len(a1.targets) == 1 and isinstance(a1.targets[0], ast.Subscript)
              and _norm(a1.targets[0].value) == 'valuedict' and resolve(a1.targets[0].slice) == 'membername'
              and _norm(a1.value) == 'value')
    stores = [n.id for n in ast.walk(w) if isinstance(n, ast.Name) and not isinstance(n.ctx, ast.Load)]
    ok = ok and stores == ['valuedict']
    # the names bound by the defaults: rname = f'read_{pname}' assigned once in the member loop, before wfunc;
    # struct_write_name = f'write_{name}' assigned once
    snn = _norm(sn)
    ok = (ok and snn.count("rname=f'read_{pname}'") == 1 and snn.count("struct_write_name=f'write_{name}'") == 1
          and snn.count('pname=param.name') == 1
          and snn.index("rname=f'read_{pname}'") < snn.index('defwfunc('))
    # installed as write_<pname> unless the programmer wrote one
    guard = [n for n in walk_type(sn, ast.If) if _norm(n.test) == 'nothasattr(owner,wname)']
    ok = (ok and len(guard) == 1 and w in guard[0].body and 'setattr(owner,wname,wfunc)' in _norm(guard[0])
          and snn.count("wname=f'write_{pname}'") == 1)
    if not ok:
        raise Shape('StructParam generated write_<member> does not return the value read back by read_<member>()')
    return 'bool', 'true'


# ------------------------------------------------------------------ FloatEnumParam
def floatenum_value_derived_from_index():
    """__get__ returns valuedict[<index parameter>.value]; finish registers trigger_setter on the index parameter;
    trigger_setter announces the float parameter with getattr(modobj, name)"""
    cls = _fe()
    g = _norm(find_func(cls, '__get__'))
    t = _norm(find_func(cls, 'trigger_setter'))
    f = _norm(find_func(cls, 'finish'))
    ok = ('returnself.valuedict[instance.parameters[self.idx_name].value]' in g
          and 'modobj.announceUpdate(self.name,getattr(modobj,self.name))' in t
          and 'modobj.addCallback(self.idx_name,self.trigger_setter,modobj)' in f)
    if not ok:
        raise Shape('FloatEnumParam: value is not derived from the index in the modelled way')
    return 'bool', 'true'


def _fe_wfunc():
    """the generated write_<float> (inner function wfunc of FloatEnumParam.__set_name__), its default arguments as
    {name: normalised source}, and the one call of write_<idx> inside it: (function, defaults, call node, statement index)"""
    sn = find_func(_fe(), '__set_name__')
    w = _inner_func(sn, 'wfunc')
    args = w.args
    if args.vararg or args.kwarg or args.kwonlyargs or args.posonlyargs:
        raise Shape('FloatEnumParam wfunc: unexpected signature')
    names = [a.arg for a in args.args]
    if names[:2] != ['mobj', 'value']:
        raise Shape('FloatEnumParam wfunc: expected (mobj, value, ...)')
    defaults = dict(zip(names[len(names) - len(args.defaults):], (_norm(d) for d in args.defaults)))
    # installed as write_<name> unless the programmer wrote one
    guard = [n for n in walk_type(sn, ast.If) if _norm(n.test) == "nothasattr(owner,f'write_{name}')"]
    if len(guard) != 1 or w not in guard[0].body or "setattr(owner,f'write_{name}',wfunc)" not in _norm(guard[0]):
        raise Shape('FloatEnumParam.__set_name__: wfunc is not installed as write_<name> in the modelled way')
    if "iname=self.idx_name" not in _norm(sn):
        raise Shape('FloatEnumParam.__set_name__: iname is not the index parameter name')
    # write_<idx>: getattr(mobj, <name of write_<idx>>)(...) - exactly one call, a statement of its own at the top level
    calls = []
    for k, st in enumerate(w.body):
        for c in walk_type(st, ast.Call):
            f = c.func
            if (isinstance(f, ast.Call) and _norm(f.func) == 'getattr' and len(f.args) == 2 and not f.keywords
                    and _norm(f.args[0]) == 'mobj'):
                target = _norm(f.args[1])
                target = defaults.get(target, target)
                if target == "f'write_{iname}'":
                    calls.append((c, k, st))
    if len(calls) != 1:
        raise Shape('FloatEnumParam wfunc: expected exactly one call of write_<idx>')
    return w, defaults, calls[0]


def _single_assignment(func, name, before):
    """the value of the ONE assignment `name = <expr>` in func; it must be a top level statement before statement #before"""
    found = [(k, st) for k, st in enumerate(func.body)
             if isinstance(st, ast.Assign) and any(isinstance(t, ast.Name) and t.id == name for t in st.targets)]
    stores = [n for n in ast.walk(func) if isinstance(n, ast.Name) and n.id == name and not isinstance(n.ctx, ast.Load)]
    if len(found) != 1 or len(stores) != 1 or len(found[0][1].targets) != 1 or found[0][0] >= before:
        raise Shape(f'FloatEnumParam wfunc: {name} is not assigned exactly once before its use')
    return found[0][1].value


def floatenum_write_selects_closest():
    """generated write_<float>: the index handed to write_<idx> is min(vdict, key=lambda i: abs(vdict[i] - value)) with
    vdict = self.valuedict and value = the second argument (written inline or through one local variable)"""
    w, defaults, (call, k, _) = _fe_wfunc()
    if len(call.args) != 1 or call.keywords:
        raise Shape('FloatEnumParam wfunc: write_<idx> is not called with one argument')
    arg = call.args[0]
    if isinstance(arg, ast.Name):
        arg = _single_assignment(w, arg.id, k)
    stores = [n.id for n in ast.walk(w) if isinstance(n, ast.Name) and not isinstance(n.ctx, ast.Load)]
    ok = (_norm(arg) == 'min(vdict,key=lambdai:abs(vdict[i]-value))'
          and defaults.get('vdict') == 'self.valuedict'
          and 'vdict' not in stores and 'value' not in stores)
    if not ok:
        raise Shape('FloatEnumParam write function does not select min |vdict[i] - value|')
    return 'bool', 'true'


def floatenum_write_returns_current_value():
    """generated write_<float>: write_<idx>(...) is a statement of its own (its result is not used), and the ONLY return
    is the last statement, `return getattr(mobj, <float name>)` - the value looked up from the index that is current AFTER
    write_<idx> (FloatEnumParam.__get__), not the value of the index that was requested"""
    w, defaults, (call, k, st) = _fe_wfunc()
    returns = walk_type(w, ast.Return)
    last = w.body[-1]
    ok = (isinstance(st, ast.Expr) and st.value is call           # result of write_<idx> discarded
          and len(returns) == 1 and returns[0] is last and k < len(w.body) - 1
          and not walk_type(w, (ast.Yield, ast.YieldFrom, ast.Try, ast.While, ast.For)))
    if ok:
        v = last.value
        ok = (isinstance(v, ast.Call) and _norm(v.func) == 'getattr' and len(v.args) == 2 and not v.keywords
              and _norm(v.args[0]) == 'mobj')
        if ok:
            target = _norm(v.args[1])
            ok = defaults.get(target, target) == 'name'      # fname=name default argument, or the closure variable
    stores = [n.id for n in ast.walk(w) if isinstance(n, ast.Name) and not isinstance(n.ctx, ast.Load)]
    ok = ok and 'mobj' not in stores and 'name' not in stores and 'fname' not in stores
    # name must be the parameter's own name (argument of __set_name__), never reassigned there
    sn = find_func(_fe(), '__set_name__')
    ok = ok and [a.arg for a in sn.args.args][:3] == ['self', 'owner', 'name'] \
        and not [n for n in ast.walk(sn) if isinstance(n, ast.Name) and n.id == 'name' and not isinstance(n.ctx, ast.Load)]
    if not ok:
        raise Shape('FloatEnumParam write function does not return getattr(mobj, <name>) looked up after write_<idx>')
    return 'bool', 'true'


def floatenum_init_shape():
    """__init__: index auto-increment (nextidx = idx + 1), explicit values stored in the first loop, the datatype is
    FloatRange(min(values), max(values))"""
    i = _norm(find_func(_fe(), '__init__'))
    ok = ('nextidx=0' in i and 'nextidx=idx+1' in i and 'vdict[idx],=tail' in i
          and 'ifidxnotinvdict:' in i
          and 'datatype=FloatRange(min(vdict.values()),max(vdict.values()),unit=unit)' in i)
    if not ok:
        raise Shape('FloatEnumParam.__init__ does not have the modelled shape')
    return 'bool', 'true'


# ------------------------------------------------------------------ limits
def check_limits_shape():
    """Module.checkLimits: first <p>_limits (min_ <= value <= max_, NO return afterwards), AttributeError is passed; then in
    every case <p>_min / <p>_max with infinite defaults; min_ > max_ raises; value < min_ raises; value > max_ raises"""
    f = find_func(find_class(parse(MOD), 'Module'), 'checkLimits')
    s = _norm(f)
    tries = [n for n in f.body if isinstance(n, ast.Try)]
    if len(tries) != 1:
        raise Shape('checkLimits: expected one try statement')
    t = _norm(ast.Module(body=tries[0].body, type_ignores=[]))
    h = tries[0].handlers
    raises = [_norm(n.test) for n in f.body if isinstance(n, ast.If)
              and any(isinstance(x, ast.Raise) and 'RangeError' in _norm(x) for x in n.body)]
    ok = ("min_,max_=getattr(self,pname+'_limits')" in t and 'ifnotmin_<=value<=max_:raiseRangeError' in t.replace('\n', '')
          and 'return' not in t and not walk_type(f, ast.Return)
          and len(h) == 1 and _norm(h[0].type) == 'AttributeError'
          and "min_=getattr(self,pname+'_min',float('-inf'))" in s and "max_=getattr(self,pname+'_max',float('inf'))" in s
          and raises == ['min_>max_', 'value<min_', 'value>max_'])
    if not ok:
        raise Shape('checkLimits does not have the modelled shape')
    return 'bool', 'true'


def check_function_installed_for_limits():
    """__init_subclass__: for postfix in ('_limits', '_min', '_max'): a check_<p> calling self.checkLimits(value, pname) is
    installed when <p><postfix> is an accessible; the write wrapper calls every check function before the user method"""
    f = find_func(find_class(parse(MOD), 'HasAccessibles'), '__init_subclass__')
    s = _norm(f)
    fors = [n for n in walk_type(f, ast.For) if _norm(n.target) == 'postfix']
    if len(fors) != 1 or sorted(const(fors[0].iter)) != ['_limits', '_max', '_min']:
        raise Shape('postfix loop not found')
    w = _norm(_inner_func(f, 'new_wfunc'))
    ok = ('setattr(base,cname,lambdaself,value,pname=pname:self.checkLimits(value,pname))' in s
          and 'new_value=validate(value)' in w and 'forcincheck_funcs:ifc(self,value):break' in w.replace('\n', '')
          and w.index('forcincheck_funcs') < w.index('wfunc(self,new_value)'))
    if not ok:
        raise Shape('automatic check function is not installed / called as modelled')
    return 'bool', 'true'


def limit_check_installed_per_class_dict():
    """__init_subclass__, inside `for postfix in ('_limits', '_min', '_max')` with limname = pname + postfix and
    cname = 'check_' + pname: under `if limname in accessibles:` the class is
    base = next(b for b in reversed(cls.__mro__) if limname in b.__dict__) and the generated check is put there under the
    guard `if cname not in base.__dict__:` - membership in the __dict__ of THAT class, not attribute lookup (which would
    also find a check_<p> inherited from an ancestor).  The functions the write wrapper calls are
    cfuncs = tuple(filter(None, (b.__dict__.get(cname) for b in cls.__mro__)))"""
    f = find_func(find_class(parse(MOD), 'HasAccessibles'), '__init_subclass__')
    fors = [n for n in walk_type(f, ast.For) if _norm(n.target) == 'postfix']
    if len(fors) != 1:
        raise Shape('postfix loop not found')
    loop = fors[0]
    body = loop.body
    ok = (len(body) == 2 and not loop.orelse and isinstance(body[0], ast.Assign)
          and _norm(body[0]) == 'limname=pname+postfix' and isinstance(body[1], ast.If)
          and _norm(body[1].test) == 'limnameinaccessibles' and not body[1].orelse)
    if ok:
        inner = body[1].body
        ok = (len(inner) == 2 and isinstance(inner[0], ast.Assign)
              and _norm(inner[0]) == 'base=next((bforbinreversed(cls.__mro__)iflimnameinb.__dict__))'
              and isinstance(inner[1], ast.If) and not inner[1].orelse
              and _norm(inner[1].test) == 'cnamenotinbase.__dict__'
              and len(inner[1].body) == 1
              and _norm(inner[1].body[0]) == 'setattr(base,cname,lambdaself,value,pname=pname:self.checkLimits(value,pname))')
    s = _norm(f)
    # the generated check is installed nowhere else; cname / cfuncs as modelled; nothing removes a check_ function
    ok = (ok and s.count('self.checkLimits(') == 1 and s.count('setattr(base,') == 1
          and s.count("cname='check_'+pname") == 1 and 'delattr' not in s
          and s.count('cfuncs=tuple(filter(None,(b.__dict__.get(cname)forbincls.__mro__)))') == 1
          and s.count('cfuncs=') == 1 and s.count('check_funcs=cfuncs') == 1
          and s.index("cname='check_'+pname") < s.index('forpostfixin') < s.index('cfuncs=tuple('))
    if not ok:
        raise Shape('generated check_<p> is not installed under `cname not in base.__dict__` on the class defining the limit')
    return 'bool', 'true'


def limit_postfixes():
    """Limit.POSTFIXES"""
    v = const(find_assign(find_class(parse(PAR), 'Limit'), 'POSTFIXES'))
    return 'bool', cbool(set(v) == {'min', 'max', 'limits'})


def limit_datatype_from_base():
    """Limit.set_datatype: 'limits' -> TupleOf(datatype, datatype) with default (min, max); else the base datatype and
    default getattr(datatype, postfix)"""
    s = _norm(find_func(find_class(parse(PAR), 'Limit'), 'set_datatype'))
    ok = ("ifpostfix=='limits':" in s and 'self.datatype=TupleOf(datatype,datatype)' in s
          and 'self.default=(datatype.min,datatype.max)' in s
          and 'self.datatype=datatype' in s and 'self.default=getattr(datatype,postfix)' in s)
    h = _norm(find_func(find_class(parse(MOD), 'Module'), '_handle_writes'))
    ok = ok and 'ifisinstance(pobj,Limit):' in h and 'pobj.set_datatype(baseparam.datatype)' in h
    if not ok:
        raise Shape('Limit.set_datatype / _handle_writes do not have the modelled shape')
    return 'bool', 'true'


def limitstype_refuses_inverted():
    """LimitsType.validate: TupleOf.validate, then limits[1] < limits[0] raises RangeError"""
    f = find_func(find_class(parse(DT), 'LimitsType'), 'validate')
    s = _norm(f)
    ifs = [n for n in f.body if isinstance(n, ast.If)]
    ok = ('limits=TupleOf.validate(self,value,previous)' in s and len(ifs) == 1
          and _norm(ifs[0].test) == 'limits[1]<limits[0]'
          and any(isinstance(x, ast.Raise) and 'RangeError' in _norm(x) for x in ifs[0].body)
          and s.rstrip().endswith('returnlimits'))
    if not ok:
        raise Shape('LimitsType.validate does not refuse limits[1] < limits[0]')
    return 'bool', 'true'


# ------------------------------------------------------------------ control hand-over
def activate_control_shape():
    """activate_control: every other registered input is deactivated, then out.controlled_by = self.name, then
    self.set_control_active(True)"""
    f = find_func(find_class(parse(MIX), 'HasOutputModule'), 'activate_control')
    s = _norm(f)
    ok = ('forname,deactivate_controlinout.inputCallbacks.items():ifname!=self.name:deactivate_control(self.name)'
          in s.replace('\n', '')
          and 'out.controlled_by=self.name' in s and 'self.set_control_active(True)' in s
          and s.index('forname,deactivate_control') < s.index('out.controlled_by=self.name')
          < s.index('self.set_control_active(True)'))
    d = _norm(find_func(find_class(parse(MIX), 'HasOutputModule'), 'deactivate_control')).replace('\n', '')
    ok = ok and 'ifself.control_active:self.set_control_active(False)' in d
    sc = _norm(find_func(find_class(parse(MIX), 'HasOutputModule'), 'set_control_active'))
    ok = ok and 'self.control_active=active' in sc
    ini = _norm(find_func(find_class(parse(MIX), 'HasOutputModule'), 'initModule'))
    ok = ok and 'self.output_module.register_input(self.name,self.deactivate_control)' in ini
    if not ok:
        raise Shape('activate_control / deactivate_control do not have the modelled shape')
    return 'bool', 'true'


def self_controlled_shape():
    """self_controlled: if self.controlled_by: controlled_by = 0 and every registered input is deactivated"""
    f = find_func(find_class(parse(MIX), 'HasControlledBy'), 'self_controlled')
    s = _norm(f).replace('\n', '')
    ifs = [n for n in f.body if isinstance(n, ast.If)]
    ok = (len(ifs) == 1 and _norm(ifs[0].test) == 'self.controlled_by'
          and 'self.controlled_by=0' in s
          and 'fordeactivate_controlinself.inputCallbacks.values():deactivate_control(self.name)' in s)
    if not ok:
        raise Shape('self_controlled does not have the modelled shape')
    return 'bool', 'true'


def update_target_lookup_by_member():
    """update_target: the callback is looked up with the enum member self.controlled_by as key (registered keys are
    module names, so the lookup finds nothing); controlled_by is not assigned; self.target = value"""
    f = find_func(find_class(parse(MIX), 'HasControlledBy'), 'update_target')
    s = _norm(f)
    assigns = [_norm(t) for a in walk_type(f, ast.Assign) for t in a.targets]
    reg = _norm(find_func(find_class(parse(MIX), 'HasControlledBy'), 'register_input'))
    ok = ('deactivate_control=self.inputCallbacks.get(self.controlled_by)' in s
          and 'self.controlled_by' not in assigns and 'self.target' in assigns
          and 'self.inputCallbacks[name]=deactivate_control' in reg
          and "EnumType(Enum(prev_enum,**{name:None}))" in reg)
    if not ok:
        raise Shape('update_target / register_input do not have the modelled shape')
    return 'bool', 'true'


def callbacks_before_update_sent():
    """announceUpdate: value stored, then the callbacks run, then updateCallback (the update event)"""
    f = find_func(find_class(parse(MOD), 'Module'), 'announceUpdate')
    s = _norm(f)
    ok = ('pobj.value=value' in s and 'forcbfunc,cbargsinself.paramCallbacks[pname]:' in s
          and 'self.updateCallback(self,pobj)' in s
          and s.index('pobj.value=value') < s.index('forcbfunc,cbargs') < s.index('self.updateCallback(self,pobj)'))
    if not ok:
        raise Shape('announceUpdate: order store / callbacks / update not as modelled')
    return 'bool', 'true'


def input_callbacks_per_instance():
    """HasControlledBy: the class attribute inputCallbacks is immutable (an empty tuple / frozenset / None, never a dict or
    list shared by all output modules) and register_input creates the dict on the INSTANCE before the first entry is stored:
    first statement `if not self.inputCallbacks: self.inputCallbacks = {}`, then `self.inputCallbacks[name] = deactivate_control`"""
    tree = parse(MIX)
    cls = find_class(tree, 'HasControlledBy')
    assigns = [n for n in cls.body if isinstance(n, (ast.Assign, ast.AnnAssign))
               and any(isinstance(t, ast.Name) and t.id == 'inputCallbacks'
                       for t in (n.targets if isinstance(n, ast.Assign) else [n.target]))]
    if len(assigns) != 1 or assigns[0].value is None:
        raise Shape('HasControlledBy: expected exactly one class level assignment of inputCallbacks')
    if _norm(assigns[0].value) not in ('()', 'None', 'frozenset()', 'tuple()'):
        raise Shape('HasControlledBy.inputCallbacks: the class attribute is a mutable object shared by all output modules')
    reg = find_func(cls, 'register_input')
    body = [n for n in reg.body if not (isinstance(n, ast.Expr) and isinstance(n.value, ast.Constant))]
    if len(body) < 2:
        raise Shape('register_input: too short')
    first, second = body[0], body[1]
    ok = (isinstance(first, ast.If) and _norm(first.test) in ('notself.inputCallbacks', 'self.inputCallbacksisNone')
          and not first.orelse and len(first.body) == 1 and _norm(first.body[0]) in ('self.inputCallbacks={}', 'self.inputCallbacks=dict()')
          and _norm(second) == 'self.inputCallbacks[name]=deactivate_control')
    if not ok:
        raise Shape('register_input: the callback dict is not created per instance before the entry is stored')
    # no other statement anywhere in the mixins re-binds or copies the dict of another module
    others = [n for n in ast.walk(tree) if isinstance(n, (ast.Assign, ast.AugAssign))
              and any('inputCallbacks' in _norm(t) for t in (n.targets if isinstance(n, ast.Assign) else [n.target]))
              and n is not assigns[0] and n is not first.body[0] and n is not second]
    if others:
        raise Shape('mixins: unexpected assignment involving inputCallbacks')
    return 'bool', 'true'


def read_wrapper_announces_inside_access_lock():
    """generated read wrapper new_rfunc: ONE statement `with self.accessLock:`; every announceUpdate call of the wrapper
    (value and error) and the call of the user method are inside it; nothing follows the with statement"""
    init = find_func(find_class(parse(MOD), 'HasAccessibles'), '__init_subclass__')
    outs = {}
    for fname, user in (('new_rfunc', 'rfunc(self)'), ('new_wfunc', 'wfunc(self,')):
        f = _inner_func(init, fname)
        body = [n for n in f.body if not (isinstance(n, ast.Expr) and isinstance(n.value, ast.Constant))]
        withs = [n for n in body if isinstance(n, ast.With)]
        if len(withs) != 1 or len(withs[0].items) != 1 or _norm(withs[0].items[0].context_expr) != 'self.accessLock':
            raise Shape(f'{fname}: expected exactly one `with self.accessLock:`')
        w = withs[0]
        inside = {id(n) for n in ast.walk(w)}
        calls = [n for n in ast.walk(f) if isinstance(n, ast.Call) and _norm(n.func) == 'self.announceUpdate']
        if not calls or any(id(c) not in inside for c in calls):
            raise Shape(f'{fname}: an announceUpdate call is outside `with self.accessLock:`')
        if fname == 'new_rfunc':
            if body[-1] is not w:
                raise Shape('new_rfunc: statements after `with self.accessLock:`')
            vals = [c for c in calls if not any(k.arg == 'err' for k in c.keywords)]
            if len(vals) != 1 or _norm(vals[0]) != 'self.announceUpdate(pname,value,validate=False)':
                raise Shape('new_rfunc: value announcement not as modelled')
        if user not in _norm(w):
            raise Shape(f'{fname}: user method not called inside the lock')
    return 'bool', 'true'


FACTS = [struct_callbacks_shape, struct_generated_methods_shape, struct_member_write_returns_readback,
         floatenum_value_derived_from_index, floatenum_write_selects_closest, floatenum_write_returns_current_value,
         floatenum_init_shape,
         check_limits_shape, check_function_installed_for_limits, limit_check_installed_per_class_dict, limit_postfixes, limit_datatype_from_base,
         limitstype_refuses_inverted,
         activate_control_shape, self_controlled_shape, update_target_lookup_by_member,
         callbacks_before_update_sent, input_callbacks_per_instance, read_wrapper_announces_inside_access_lock]

FINGERPRINTS = {
    'StructParam.__set_name__': lambda: find_func(_struct(), '__set_name__'),
    'StructParam.finish': lambda: find_func(_struct(), 'finish'),
    'FloatEnumParam.__init__': lambda: find_func(_fe(), '__init__'),
    'FloatEnumParam.__set_name__': lambda: find_func(_fe(), '__set_name__'),
    'FloatEnumParam.__get__': lambda: find_func(_fe(), '__get__'),
    'FloatEnumParam.trigger_setter': lambda: find_func(_fe(), 'trigger_setter'),
    'Limit.set_datatype': lambda: find_func(find_class(parse(PAR), 'Limit'), 'set_datatype'),
    'Module.checkLimits': lambda: find_func(find_class(parse(MOD), 'Module'), 'checkLimits'),
    'Module.announceUpdate': lambda: find_func(find_class(parse(MOD), 'Module'), 'announceUpdate'),
    'HasAccessibles.__init_subclass__': lambda: find_func(find_class(parse(MOD), 'HasAccessibles'), '__init_subclass__'),
    'LimitsType.validate': lambda: find_func(find_class(parse(DT), 'LimitsType'), 'validate'),
    'HasControlledBy.register_input': lambda: find_func(find_class(parse(MIX), 'HasControlledBy'), 'register_input'),
    'HasControlledBy.self_controlled': lambda: find_func(find_class(parse(MIX), 'HasControlledBy'), 'self_controlled'),
    'HasControlledBy.update_target': lambda: find_func(find_class(parse(MIX), 'HasControlledBy'), 'update_target'),
    'HasOutputModule.activate_control': lambda: find_func(find_class(parse(MIX), 'HasOutputModule'), 'activate_control'),
    'HasOutputModule.deactivate_control': lambda: find_func(find_class(parse(MIX), 'HasOutputModule'), 'deactivate_control'),
}
