"""facts read off frappy/datatypes.py and frappy/lib/__init__.py for C01"""
import ast
from translator import parse, find_class, find_func, find_assign, Shape, const, cz, cbool, src, walk_type

F = 'frappy/datatypes.py'


def _cls(name):
    return find_class(parse(F), name)


def default_min_int():
    return 'Z', cz(const(find_assign(parse(F), 'DEFAULT_MIN_INT')))


def default_max_int():
    return 'Z', cz(const(find_assign(parse(F), 'DEFAULT_MAX_INT')))


def unlimited_is_2_64():
    v = find_assign(parse(F), 'UNLIMITED')
    return 'bool', cbool(src(v).replace(' ', '') == '1<<64')


def clamp_is_median_of_sorted():
    """frappy.lib.clamp returns sorted([_min, value, _max])[1]"""
    f = find_func(parse('frappy/lib/__init__.py'), 'clamp')
    rets = walk_type(f, ast.Return)
    ok = len(rets) == 1 and src(rets[0].value).replace(' ', '') == 'sorted([_min,value,_max])[1]'
    return 'bool', cbool(ok)


def _validate_src(clsname):
    return src(find_func(_cls(clsname), 'validate'))


def float_validate_shape():
    """FloatRange.validate: converts, computes prec = max(abs(value*rel), abs), two-sided test, clamp(min, value, max)"""
    s = _validate_src('FloatRange').replace(' ', '')
    ok = ('value=self(value)' in s and 'prec=max(abs(value*self.relative_resolution),self.absolute_resolution)' in s
          and 'ifself.min-prec<=value<=self.max+prec:' in s and 'returnclamp(self.min,value,self.max)' in s
          and 'raiseRangeError' in s)
    return 'bool', cbool(ok)


def int_validate_shape():
    s = _validate_src('IntRange').replace(' ', '')
    ok = 'value=self(value)' in s and 'ifself.min<=value<=self.max:' in s and 'raiseRangeError' in s
    return 'bool', cbool(ok)


def scaled_validate_shape():
    s = _validate_src('ScaledInteger').replace(' ', '')
    ok = ('result=self(value)' in s and 'ifself.min-self.scale<value<self.max+self.scale:' in s
          and 'returnclamp(self(self.min),result,self(self.max))' in s and 'raiseRangeError' in s)
    return 'bool', cbool(ok)


def generic_import_is_call():
    """DataType.import_value returns self(value); DataType.validate returns self(value)"""
    c = _cls('DataType')
    a = src(find_func(c, 'import_value').body[-1]).replace(' ', '') == 'returnself(value)'
    b = src(find_func(c, 'validate').body[-1]).replace(' ', '') == 'returnself(value)'
    return 'bool', cbool(a and b)


def containers_wrap_element_errors():
    """ArrayOf/TupleOf/StructOf __call__ and validate catch Exception and raise RangeError or WrongTypeError"""
    ok = True
    for cname in ('ArrayOf', 'TupleOf', 'StructOf'):
        for fn in ('__call__', 'validate'):
            f = find_func(_cls(cname), fn)
            hs = [h for t in walk_type(f, ast.Try) for h in t.handlers]
            ok = ok and len(hs) == 1 and isinstance(hs[0].type, ast.Name) and hs[0].type.id == 'Exception' \
                and 'RangeErrorifisinstance(e,RangeError)elseWrongTypeError' in src(hs[0]).replace(' ', '')
    return 'bool', cbool(ok)


FACTS = [default_min_int, default_max_int, unlimited_is_2_64, clamp_is_median_of_sorted, float_validate_shape,
         int_validate_shape, scaled_validate_shape, generic_import_is_call, containers_wrap_element_errors]

_FP = ['FloatRange', 'IntRange', 'ScaledInteger', 'EnumType', 'BLOBType', 'StringType', 'BoolType', 'ArrayOf', 'TupleOf',
       'StructOf']
FINGERPRINTS = {}
for _c in _FP:
    for _f in ('__call__', 'validate', 'import_value', 'check_type'):
        def _get(c=_c, f=_f):
            return find_func(_cls(c), f)
        try:
            _get()
            FINGERPRINTS[f'{_c}.{_f}'] = _get
        except Shape:
            pass
