"""facts read off frappy/datatypes.py and frappy/lib/__init__.py for C01"""
import ast
from translator import parse, find_class, find_func, find_assign, Shape, const, cz, cbool, src, walk_type

F = 'frappy/datatypes.py'


def _cls(name):
    return find_class(parse(F), name)


def default_min_int():
    return 'Z', cz(const(find_assign(parse(F), 'DEFAULT_MIN_INT')))


def default_max_int():
    return 'Z', cz(const(find_assign(parse(F), 'DEFAULT_MAX_INT')))


def unlimited_is_2_64():
    v = find_assign(parse(F), 'UNLIMITED')
    return 'bool', cbool(src(v).replace(' ', '') == '1<<64')


def clamp_is_median_of_sorted():
    """frappy.lib.clamp returns sorted([_min, value, _max])[1]"""
    f = find_func(parse('frappy/lib/__init__.py'), 'clamp')
    rets = walk_type(f, ast.Return)
    ok = len(rets) == 1 and src(rets[0].value).replace(' ', '') == 'sorted([_min,value,_max])[1]'
    return 'bool', cbool(ok)


def _validate_src(clsname):
    return src(find_func(_cls(clsname), 'validate'))


def float_validate_shape():
    """FloatRange.validate: converts, computes prec = max(abs(value*rel), abs), two-sided test, clamp(min, value, max)"""
    s = _validate_src('FloatRange').replace(' ', '')
    ok = ('value=self(value)' in s and 'prec=max(abs(value*self.relative_resolution),self.absolute_resolution)' in s
          and 'ifself.min-prec<=value<=self.max+prec:' in s and 'returnclamp(self.min,value,self.max)' in s
          and 'raiseRangeError' in s)
    return 'bool', cbool(ok)


def int_validate_shape():
    s = _validate_src('IntRange').replace(' ', '')
    ok = 'value=self(value)' in s and 'ifself.min<=value<=self.max:' in s and 'raiseRangeError' in s
    return 'bool', cbool(ok)


def scaled_validate_shape():
    s = _validate_src('ScaledInteger').replace(' ', '')
    ok = ('result=self(value)' in s and 'ifself.min-self.scale<value<self.max+self.scale:' in s
          and 'returnclamp(self(self.min),result,self(self.max))' in s and 'raiseRangeError' in s)
    return 'bool', cbool(ok)


def generic_import_is_call():
    """DataType.import_value returns self(value); DataType.validate returns self(value)"""
    c = _cls('DataType')
    a = src(find_func(c, 'import_value').body[-1]).replace(' ', '') == 'returnself(value)'
    b = src(find_func(c, 'validate').body[-1]).replace(' ', '') == 'returnself(value)'
    return 'bool', cbool(a and b)


def containers_wrap_element_errors():
    """ArrayOf/TupleOf/StructOf __call__ and validate catch Exception and raise RangeError or WrongTypeError"""
    ok = True
    for cname in ('ArrayOf', 'TupleOf', 'StructOf'):
        for fn in ('__call__', 'validate'):
            f = find_func(_cls(cname), fn)
            hs = [h for t in walk_type(f, ast.Try) for h in t.handlers]
            ok = ok and len(hs) == 1 and isinstance(hs[0].type, ast.Name) and hs[0].type.id == 'Exception' \
                and 'RangeErrorifisinstance(e,RangeError)elseWrongTypeError' in src(hs[0]).replace(' ', '')
    return 'bool', cbool(ok)


def _starts_with_check_type(clsname, fname):
    f = find_func(_cls(clsname), fname)
    body = [b for b in f.body if not (isinstance(b, ast.Expr) and isinstance(getattr(b, 'value', None), ast.Constant))]
    return src(body[0]).replace(' ', '') == 'self.check_type(value)'


def sequences_check_before_import():
    """ArrayOf/TupleOf.import_value call self.check_type(value) before iterating"""
    return 'bool', cbool(_starts_with_check_type('ArrayOf', 'import_value') and _starts_with_check_type('TupleOf', 'import_value'))


def sequences_reject_str_bytes_dict():
    """check_type of ArrayOf/TupleOf starts with the isinstance(value, (str, bytes, dict)) rejection"""
    ok = True
    for c in ('ArrayOf', 'TupleOf'):
        f = find_func(_cls(c), 'check_type')
        first = f.body[0]
        ok = ok and isinstance(first, ast.If) and src(first.test).replace(' ', '') == 'isinstance(value,(str,bytes,dict))' \
            and 'raiseWrongTypeError' in src(first.body[-1]).replace(' ', '')
    return 'bool', cbool(ok)


def struct_requires_dict():
    """StructOf.check_type starts with: if not isinstance(value, dict): raise WrongTypeError"""
    f = find_func(_cls('StructOf'), 'check_type')
    first = f.body[0]
    ok = isinstance(first, ast.If) and src(first.test).replace(' ', '') == 'notisinstance(value,dict)' \
        and 'raiseWrongTypeError' in src(first.body[-1]).replace(' ', '')
    return 'bool', cbool(ok)


def blob_import_strict():
    """BLOBType.import_value decodes with validate=True"""
    s = src(find_func(_cls('BLOBType'), 'import_value')).replace(' ', '')
    return 'bool', cbool('b64decode(value,validate=True)' in s)


def struct_checks_missing_after_merge():
    """StructOf.__call__/validate call self.check_missing(result, ...) before returning"""
    ok = True
    for fn, arg in (('__call__', 'self.client'), ('validate', 'True')):
        s = src(find_func(_cls('StructOf'), fn)).replace(' ', '')
        ok = ok and f'self.check_missing(result,{arg})' in s
    cm = src(find_func(_cls('StructOf'), 'check_missing')).replace(' ', '')
    ok = ok and 'missing=set(self.members)-set(result)' in cm and 'missing-=set(self.optional)' in cm \
        and 'raiseWrongTypeError' in cm
    return 'bool', cbool(ok)


def float_properties_pass_through_float_call():
    """FloatRange.min/max are properties validated by FloatRange() and relative_resolution by FloatRange(0): a limit
    is never the negative zero or infinite, the relative resolution is a finite number (idem_dt of C01/IdemDefs.v)"""
    c = _cls('FloatRange')
    ok = True
    for name, want in (('min', "Stub('FloatRange')"), ('max', "Stub('FloatRange')"),
                       ('relative_resolution', "Stub('FloatRange',0)")):
        v = find_assign(c, name)
        ok = ok and isinstance(v, ast.Call) and src(v.func) == 'Property' and len(v.args) >= 2 \
            and src(v.args[1]).replace(' ', '') == want
    call = src(find_func(c, '__call__')).replace(' ', '')
    ok = ok and 'value+=0.0' in call and 'returnclamp(-sys.float_info.max,value,sys.float_info.max)' in call
    return 'bool', cbool(ok)


def enum_refuses_duplicates():
    """frappy.lib.enum.Enum: adding a member whose value (or name) is already taken raises TypeError"""
    c = find_class(parse('frappy/lib/enum.py'), 'Enum')
    s = src(find_func(c, '__init__')).replace(' ', '')
    ok = 'ifself.get(k,v)!=v:' in s and 'ifself.get(v,k)!=k:' in s and s.count('raiseTypeError') >= 2
    return 'bool', cbool(ok)


def containers_validate_no_shortcut():
    """StructOf/ArrayOf/TupleOf.validate and __call__: the first statement is self.check_type(value[, True]), no return
    stands before the conversion loop (every return is the freshly built tuple / ImmutableDict(result)), and nothing
    inspects the class or identity of the candidate (no isinstance/type/is on `value`, no `return value`): a frozen
    mapping, a tuple or an already validated value takes the same path as any other candidate"""
    ok = True
    for cname, first, rets_ok in (
            ('StructOf', {'validate': 'self.check_type(value,True)', '__call__': 'self.check_type(value)'},
             ('ImmutableDict(result)',)),
            ('ArrayOf', {'validate': 'self.check_type(value)', '__call__': 'self.check_type(value)'}, None),
            ('TupleOf', {'validate': 'self.check_type(value)', '__call__': 'self.check_type(value)'}, None)):
        for fn in ('validate', '__call__'):
            f = find_func(_cls(cname), fn)
            body = [b for b in f.body if not (isinstance(b, ast.Expr) and isinstance(getattr(b, 'value', None), ast.Constant))]
            ok = ok and bool(body) and src(body[0]).replace(' ', '') == first[fn]
            rets = walk_type(f, ast.Return)
            ok = ok and bool(rets)
            for r in rets:
                rs = src(r.value).replace(' ', '') if r.value is not None else ''
                if rets_ok is not None:
                    ok = ok and rs in rets_ok
                else:
                    ok = ok and rs.startswith('tuple(') and (fn == '__call__' or '.validate(' in rs)
            # every return lies inside or after the try block that converts the members, none before it
            tries = [i for i, b in enumerate(body) if isinstance(b, ast.Try)]
            ok = ok and len(tries) == 1
            if tries:
                for b in body[:tries[0]]:
                    ok = ok and not walk_type(b, ast.Return)
            for n in ast.walk(f):
                if isinstance(n, ast.Call) and isinstance(n.func, ast.Name) and n.func.id in ('isinstance', 'type', 'id', 'issubclass'):
                    a0 = n.args[0] if n.args else None
                    if not (n.func.id == 'isinstance' and isinstance(a0, ast.Name) and a0.id == 'e'):
                        ok = False
                if isinstance(n, ast.Compare) and any(isinstance(o, (ast.Is, ast.IsNot)) for o in n.ops):
                    names = [x.id for x in [n.left] + n.comparators if isinstance(x, ast.Name)]
                    if 'value' in names:
                        ok = False
    return 'bool', cbool(ok)


FACTS = [default_min_int, default_max_int, unlimited_is_2_64, clamp_is_median_of_sorted, float_validate_shape,
         int_validate_shape, scaled_validate_shape, generic_import_is_call, containers_wrap_element_errors,
         sequences_check_before_import, sequences_reject_str_bytes_dict, struct_requires_dict, blob_import_strict,
         struct_checks_missing_after_merge, float_properties_pass_through_float_call, enum_refuses_duplicates,
         containers_validate_no_shortcut]

_FP = ['FloatRange', 'IntRange', 'ScaledInteger', 'EnumType', 'BLOBType', 'StringType', 'BoolType', 'ArrayOf', 'TupleOf',
       'StructOf']
FINGERPRINTS = {}
for _c in _FP:
    for _f in ('__call__', 'validate', 'import_value', 'check_type'):
        def _get(c=_c, f=_f):
            return find_func(_cls(c), f)
        try:
            _get()
            FINGERPRINTS[f'{_c}.{_f}'] = _get
        except Shape:
            pass
