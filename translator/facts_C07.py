"""facts read off frappy/protocol/{messages,dispatcher}.py, frappy/protocol/interface/{__init__,handler,tcp}.py and
frappy/errors.py for C07 (framing / codec / request loop / dispatch by handler name)"""
import ast
import json

from translator import parse, find_class, find_func, find_assign, Shape, const, cnat, cbool, cstr, src, \
    walk_type, is_self_attr, with_lock_bodies

F_MSG = 'frappy/protocol/messages.py'
F_DISP = 'frappy/protocol/dispatcher.py'
F_IF = 'frappy/protocol/interface/__init__.py'
F_HDL = 'frappy/protocol/interface/handler.py'
F_TCP = 'frappy/protocol/interface/tcp.py'
F_ERR = 'frappy/errors.py'


def nows(node):
    return src(node).replace(' ', '').replace('\n', '')


# ------------------------------------------------------------------ messages.py: constant evaluation
def _eval(node, env):
    if isinstance(node, ast.Constant) and isinstance(node.value, str):
        return node.value
    if isinstance(node, ast.Name):
        if node.id not in env:
            raise Shape(f'unknown name {node.id}')
        return env[node.id]
    if isinstance(node, ast.BinOp) and isinstance(node.op, ast.Add):
        return _eval(node.left, env) + _eval(node.right, env)
    if isinstance(node, ast.JoinedStr):
        out = ''
        for v in node.values:
            if isinstance(v, ast.Constant):
                out += v.value
            elif isinstance(v, ast.FormattedValue) and v.conversion == -1 and v.format_spec is None:
                out += _eval(v.value, env)
            else:
                raise Shape('unsupported f-string part')
        return out
    if isinstance(node, ast.Dict):
        return {_eval(k, env): _eval(v, env) for k, v in zip(node.keys, node.values)}
    raise Shape(f'cannot evaluate {ast.dump(node)[:60]}')


_msg_cache = {}


def messages():
    """all module level string / dict constants of messages.py"""
    if 'v' not in _msg_cache:
        env = {}
        for node in parse(F_MSG).body:
            if isinstance(node, ast.Assign) and len(node.targets) == 1 and isinstance(node.targets[0], ast.Name):
                env[node.targets[0].id] = _eval(node.value, env)
        _msg_cache['v'] = env
    return _msg_cache['v']


def _msgconst(name):
    m = messages()
    if name not in m or not isinstance(m[name], str):
        raise Shape(f'messages.{name} is not a string constant')
    return m[name]


def IDENTREQUEST():
    return 'list N', cstr(_msgconst('IDENTREQUEST'))


def IDENTREPLY():
    return 'list N', cstr(_msgconst('IDENTREPLY'))


def ERRORPREFIX():
    return 'list N', cstr(_msgconst('ERRORPREFIX'))


def HELPREQUEST():
    return 'list N', cstr(_msgconst('HELPREQUEST'))


def HELPREPLY():
    return 'list N', cstr(_msgconst('HELPREPLY'))


def request2reply():
    t = messages().get('REQUEST2REPLY')
    if not isinstance(t, dict) or not t:
        raise Shape('REQUEST2REPLY is not a dict of constants')
    return 'list (list N * list N)', '[' + '; '.join(f'({cstr(k)}, {cstr(v)})' for k, v in t.items()) + ']'


def help_msgs():
    """the triples RequestHandler.handle_help sends: ('_', str(idx+1), json.dumps(line))"""
    f = find_func(find_class(parse(F_HDL), 'RequestHandler'), 'handle_help')
    loops = [n for n in f.body if isinstance(n, ast.For)]
    if len(loops) != 1 or nows(loops[0].iter) != 'enumerate(HelpMessage.splitlines())' \
            or nows(loops[0].target) not in ('idx,line', '(idx,line)'):
        raise Shape('handle_help: expected `for idx, line in enumerate(HelpMessage.splitlines())`')
    calls = [c for c in walk_type(loops[0], ast.Call) if nows(c.func) == 'self.send_reply']
    if len(calls) != 1 or nows(calls[0].args[0]) != "('_',f'{idx+1}',line)":
        raise Shape("handle_help: expected self.send_reply(('_', f'{idx + 1}', line))")
    if [c for c in walk_type(f, ast.Call) if nows(c.func) == 'self.send_reply' and c is not calls[0]]:
        raise Shape('handle_help: more than one send_reply')
    lines = _msgconst('HelpMessage').splitlines()
    return 'list (list N * list N * list N)', \
        '[' + '; '.join(f"({cstr('_')}, {cstr(str(i + 1))}, {cstr(json.dumps(ln))})" for i, ln in enumerate(lines)) + ']'


# ------------------------------------------------------------------ dispatcher.py
def _disp():
    return find_class(parse(F_DISP), 'Dispatcher')


def _reply_shape(fn):
    """(reply action, spec rule) of a handle_<x>(self, conn, specifier, data):
    spec rule 0: None, 1: the request's specifier, 2: specifier or '.', 3: the function returns None (no return)"""
    rets = [r for r in walk_type(fn, ast.Return)]
    if not rets:
        return '', 3
    if len(rets) != 1 or rets[0] is not fn.body[-1]:
        raise Shape(f'{fn.name}: expected exactly one return, as last statement')
    v = rets[0].value

    def tup(t):
        if not (isinstance(t, ast.Tuple) and len(t.elts) == 3 and isinstance(t.elts[0], ast.Name)):
            raise Shape(f'{fn.name}: return value is not a (CONSTANT, spec, data) tuple')
        action = _msgconst(t.elts[0].id)
        s = nows(t.elts[1])
        if s == 'None':
            rule = 0
        elif s == 'specifier':
            rule = 1
        elif s in ("specifieror'.'", 'specifieror"."'):
            rule = 2
        else:
            raise Shape(f'{fn.name}: unknown specifier expression {s}')
        return action, rule, nows(t.elts[2])
    if isinstance(v, ast.IfExp):
        # (X, specifier, None) if specifier else (X, None, None)  ==  echo (a falsy specifier encodes like None)
        if nows(v.test) != 'specifier':
            raise Shape(f'{fn.name}: conditional return not on specifier')
        a1, r1, d1 = tup(v.body)
        a2, r2, d2 = tup(v.orelse)
        if a1 != a2 or r1 != 1 or r2 != 0 or d1 != d2:
            raise Shape(f'{fn.name}: unexpected conditional return')
        return a1, 1
    a, r, _ = tup(v)
    return a, r


def handler_table():
    """every Dispatcher.handle_<name>: (name, number of positional parameters after self, reply action, spec rule)"""
    rows = []
    for node in _disp().body:
        if isinstance(node, ast.FunctionDef) and node.name.startswith('handle_'):
            a = node.args
            if a.vararg or a.kwarg or a.defaults or a.kwonlyargs or a.posonlyargs:
                raise Shape(f'{node.name}: unexpected signature')
            arity = len(a.args) - 1
            if arity == 3:
                if [x.arg for x in a.args] != ['self', 'conn', 'specifier', 'data'] and \
                        [x.arg for x in a.args][:3] != ['self', 'conn', 'specifier']:
                    raise Shape(f'{node.name}: unexpected parameter names')
                reply, rule = _reply_shape(node)
            else:
                reply, rule = '', 9
            rows.append((node.name[len('handle_'):], arity, reply, rule))
    if not rows:
        raise Shape('no handlers')
    return 'list (list N * nat * list N * nat)', \
        '[' + '; '.join(f'({cstr(n)}, {cnat(ar)}, {cstr(rp)}, {cnat(ru)})' for n, ar, rp, ru in rows) + ']'


def _hr():
    return find_func(_disp(), 'handle_request')


def ident_alias():
    """handle_request: `if action == IDENTREQUEST: action, specifier, data = '_ident', None, None`"""
    for n in walk_type(_hr(), ast.If):
        if nows(n.test) == 'action==IDENTREQUEST' and len(n.body) == 1 and isinstance(n.body[0], ast.Assign):
            a = n.body[0]
            if nows(a.targets[0]) in ('action,specifier,data', '(action,specifier,data)') and \
                    isinstance(a.value, ast.Tuple) and len(a.value.elts) == 3 and \
                    nows(a.value.elts[1]) == 'None' and nows(a.value.elts[2]) == 'None':
                return 'list N', cstr(const(a.value.elts[0]))
    raise Shape('handle_request: ident alias not found')


def _internal_guard():
    """handle_request: if action == IDENTREQUEST: ... elif action.startswith(<prefix>) or action == <name> ...: raise <Err>(...)
    -> (prefix, [names], error class)"""
    for n in walk_type(_hr(), ast.If):
        if nows(n.test) == 'action==IDENTREQUEST':
            if len(n.orelse) != 1 or not isinstance(n.orelse[0], ast.If):
                raise Shape('handle_request: no elif guarding internal handler names after the *IDN? special case')
            g = n.orelse[0]
            if g.orelse or len(g.body) != 1 or not isinstance(g.body[0], ast.Raise) or \
                    not (isinstance(g.body[0].exc, ast.Call) and isinstance(g.body[0].exc.func, ast.Name)):
                raise Shape('handle_request: guard of internal names does not just raise an error')
            terms = g.test.values if isinstance(g.test, ast.BoolOp) and isinstance(g.test.op, ast.Or) else [g.test]
            prefixes, names = [], []
            for t in terms:
                if isinstance(t, ast.Call) and nows(t.func) == 'action.startswith' and len(t.args) == 1 and not t.keywords:
                    prefixes.append(const(t.args[0]))
                elif isinstance(t, ast.Compare) and nows(t.left) == 'action' and len(t.ops) == 1 and \
                        isinstance(t.ops[0], ast.Eq):
                    names.append(const(t.comparators[0]))
                else:
                    raise Shape('handle_request: unknown term in the guard of internal names: ' + nows(t))
            if len(prefixes) != 1 or not all(isinstance(x, str) for x in prefixes + names):
                raise Shape('handle_request: expected exactly one startswith prefix in the guard')
            return prefixes[0], names, g.body[0].exc.func.id
    raise Shape('handle_request: *IDN? special case not found')


def internal_prefix():
    """actions starting with this prefix never reach a handler (only *IDN? is mapped to _ident)"""
    return 'list N', cstr(_internal_guard()[0])


def internal_names():
    """further actions that never reach a handler (handle_request itself)"""
    return 'list (list N)', '[' + '; '.join(cstr(n) for n in _internal_guard()[1]) + ']'


def internal_error_class():
    return 'list N', cstr(_internal_guard()[2])


def dispatch_by_getattr():
    """handler = getattr(self, f'handle_{action}', None); if handler: return handler(conn, specifier, data); raise <Err>"""
    f = _hr()
    ok1 = any(nows(a) == "handler=getattr(self,f'handle_{action}',None)" for a in walk_type(f, ast.Assign))
    ok2 = any(nows(i.test) == 'handler' and len(i.body) == 1 and nows(i.body[0]) == 'returnhandler(conn,specifier,data)'
              and not i.orelse for i in walk_type(f, ast.If))
    ok3 = any(nows(a) in ('action,specifier,data=msg', '(action,specifier,data)=msg') for a in walk_type(f, ast.Assign))
    return 'bool', cbool(ok1 and ok2 and ok3)


def unhandled_error_class():
    """the exception class raised when no handler exists (last statement of the with block)"""
    ws = with_lock_bodies(_hr(), '_lock')
    if len(ws) != 1:
        raise Shape('handle_request: expected one `with self._lock`')
    last = ws[0].body[-1]
    if not (isinstance(last, ast.Raise) and isinstance(last.exc, ast.Call) and isinstance(last.exc.func, ast.Name)):
        raise Shape('handle_request: expected `raise <Error>(...)` at the end of the locked block')
    return 'list N', cstr(last.exc.func.id)


def handle_request_under_lock():
    """every statement of handle_request that touches msg/handler is inside `with self._lock`"""
    f = _hr()
    ws = with_lock_bodies(f, '_lock')
    if len(ws) != 1:
        return 'bool', 'false'
    outside = [s for s in f.body if s is not ws[0]]
    ok = all(isinstance(s, ast.Expr) for s in outside)   # docstring / log call only
    return 'bool', cbool(ok)


# ------------------------------------------------------------------ errors.py
def error_names():
    """(python class name, SECoP error name) for SECoPError and all its subclasses defined in errors.py"""
    tree = parse(F_ERR)
    table = {}
    for node in tree.body:
        if not isinstance(node, ast.ClassDef):
            continue
        bases = [b.id for b in node.bases if isinstance(b, ast.Name)]
        own = None
        for st in node.body:
            if isinstance(st, ast.Assign) and any(isinstance(t, ast.Name) and t.id == 'name' for t in st.targets):
                own = const(st.value)
        if node.name == 'SECoPError':
            if own is None:
                raise Shape('SECoPError.name missing')
            table[node.name] = own
        else:
            parents = [b for b in bases if b in table]
            if not parents:
                continue
            table[node.name] = own if own is not None else table[parents[0]]
    if 'SECoPError' not in table:
        raise Shape('SECoPError not found')
    for k, v in table.items():
        if not isinstance(v, str) or not v.isascii() or not v.isalnum():
            raise Shape(f'error name of {k} is not a plain word')
    return 'list (list N * list N)', '[' + '; '.join(f'({cstr(k)}, {cstr(v)})' for k, v in table.items()) + ']'


# ------------------------------------------------------------------ interface/__init__.py
def EOL():
    v = const(find_assign(parse(F_IF), 'EOL'))
    if not (isinstance(v, bytes) and len(v) == 1):
        raise Shape('EOL is not a single byte')
    return 'N', f'{v[0]}%N'


def get_msg_splits_first_eol():
    f = find_func(parse(F_IF), 'get_msg')
    body = [s for s in f.body if not (isinstance(s, ast.Expr) and isinstance(s.value, ast.Constant))]
    ok = (len(body) == 2 and isinstance(body[0], ast.If) and nows(body[0].test) == 'EOLnotin_bytes'
          and nows(body[0].body[0]) in ('returnNone,_bytes', 'return(None,_bytes)')
          and nows(body[1]) == 'return_bytes.split(EOL,1)')
    return 'bool', cbool(ok)


def _decode_stmt():
    f = find_func(parse(F_IF), 'decode_msg')
    body = [s for s in f.body if not (isinstance(s, ast.Expr) and isinstance(s.value, ast.Constant))]
    if len(body) != 3:
        raise Shape('decode_msg: expected three statements')
    return body


def decode_split_max():
    """res = msg.strip().decode('utf-8').split(' ', N) + ['', '']"""
    s = nows(_decode_stmt()[0])
    pre, post = "res=msg.strip().decode('utf-8').split('',", ")+['','']"
    if not (s.startswith(pre) and s.endswith(post)):
        raise Shape('decode_msg: first statement has unexpected shape: ' + s)
    return 'nat', cnat(int(s[len(pre):-len(post)]))


def decode_tail_ok():
    b = _decode_stmt()
    ok = nows(b[1]) in ('action,specifier,data=res[0:3]', '(action,specifier,data)=res[0:3]') and \
        nows(b[2]) in ("returnaction,specifierorNone,(Noneifdata==''elsejson.loads(data))",
                       "return(action,specifierorNone,Noneifdata==''elsejson.loads(data))")
    return 'bool', cbool(ok)


def encode_shape_ok():
    f = find_func(parse(F_IF), 'encode_msg_frame')
    body = [s for s in f.body if not (isinstance(s, ast.Expr) and isinstance(s.value, ast.Constant))]
    ok = (len(body) == 2
          and nows(body[0]) == "msg=(action,specifieror'',''ifdataisNoneelsejson.dumps(data))"
          and nows(body[1]) == "return''.join(msg).strip().encode('utf-8')+EOL")
    # nows removes the blank of ' '.join, so check the separator separately
    seps = [c for c in walk_type(f, ast.Call) if isinstance(c.func, ast.Attribute) and c.func.attr == 'join']
    ok = ok and len(seps) == 1 and isinstance(seps[0].func.value, ast.Constant) and seps[0].func.value.value == ' '
    return 'bool', cbool(ok)


def dumps_ascii_only():
    """the data text of a frame is printable ASCII: encode_msg_frame has exactly one json.dumps call, with the data as
    only argument - no ensure_ascii=False (nor any other keyword, nor **kw) that would hand non-ASCII characters, among
    them lone surrogates made by json.loads from an escape like \\ud800, through to str.encode, which raises on them;
    and the one str.encode call has the plain form .encode('utf-8') (no error handler argument)"""
    f = find_func(parse(F_IF), 'encode_msg_frame')
    dumps = [c for c in walk_type(f, ast.Call) if nows(c.func) in ('json.dumps', 'dumps')]
    encs = [c for c in walk_type(f, ast.Call) if isinstance(c.func, ast.Attribute) and c.func.attr == 'encode']
    ok = (len(dumps) == 1 and nows(dumps[0].func) == 'json.dumps' and len(dumps[0].args) == 1 and not dumps[0].keywords
          and not isinstance(dumps[0].args[0], ast.Starred)
          and len(encs) == 1 and len(encs[0].args) == 1 and not encs[0].keywords
          and isinstance(encs[0].args[0], ast.Constant) and encs[0].args[0].value == 'utf-8')
    # the name json is the standard library module, imported plainly
    imports = [a for n in parse(F_IF).body if isinstance(n, ast.Import) for a in n.names]
    ok = ok and any(a.name == 'json' and a.asname is None for a in imports)
    return 'bool', cbool(ok)


# ------------------------------------------------------------------ interface/tcp.py
def _tcp():
    return find_class(parse(F_TCP), 'TCPRequestHandler')


def MESSAGE_READ_SIZE():
    return 'nat', cnat(const(find_assign(parse(F_TCP), 'MESSAGE_READ_SIZE')))


def ingest_appends():
    f = find_func(_tcp(), 'ingest')
    return 'bool', cbool(len(f.body) == 1 and nows(f.body[0]) == 'self.data+=newdata')


def next_message_shape_ok():
    """try: message, self.data = get_msg(self.data); None -> None; blank -> (HELPREQUEST, None, None); decode_msg(message)
    except Exception as e: raise DecodeError(..., raw_msg=message)"""
    f = find_func(_tcp(), 'next_message')
    if not (len(f.body) == 1 and isinstance(f.body[0], ast.Try)):
        return 'bool', 'false'
    t = f.body[0]
    b = t.body
    ok = (len(b) == 4 and nows(b[0]) in ('message,self.data=get_msg(self.data)', '(message,self.data)=get_msg(self.data)')
          and nows(b[1]) == 'ifmessageisNone:returnNone'
          and nows(b[2]) in ("ifmessage.strip()==b'':return(HELPREQUEST,None,None)", "ifmessage.strip()==b'':returnHELPREQUEST,None,None")
          and nows(b[3]) == 'returndecode_msg(message)'
          and len(t.handlers) == 1 and nows(t.handlers[0].type) == 'Exception'
          and len(t.handlers[0].body) == 1 and isinstance(t.handlers[0].body[0], ast.Raise)
          and nows(t.handlers[0].body[0].exc.func) == 'DecodeError'
          and any(k.arg == 'raw_msg' and nows(k.value) == 'message' for k in t.handlers[0].body[0].exc.keywords))
    return 'bool', cbool(ok)


def sendall_in_send_lock():
    """send_reply: the only sendall is inside `with self.send_lock`, one frame per call, frame built by encode_msg_frame(*data)"""
    f = find_func(_tcp(), 'send_reply')
    sends = [c for c in walk_type(f, ast.Call) if isinstance(c.func, ast.Attribute) and c.func.attr in ('sendall', 'send')]
    ws = with_lock_bodies(f, 'send_lock')
    ok = (len(sends) == 1 and len(ws) == 1 and sends[0] in walk_type(ws[0], ast.Call)
          and nows(sends[0]) == 'self.request.sendall(outdata)'
          and any(nows(a) == 'outdata=encode_msg_frame(*data)' for a in walk_type(f, ast.Assign))
          and not walk_type(f, (ast.For, ast.While)))
    return 'bool', cbool(ok)



def _sr_parts():
    """send_reply: (function, the assignment outdata = encode_msg_frame(*data), the with statement, the sendall call)"""
    f = find_func(_tcp(), 'send_reply')
    assigns = [a for a in f.body if isinstance(a, ast.Assign) and nows(a) == 'outdata=encode_msg_frame(*data)']
    withs = [w for w in f.body if isinstance(w, ast.With) and len(w.items) == 1
             and is_self_attr(w.items[0].context_expr, 'send_lock') and w.items[0].optional_vars is None]
    sends = [c for c in walk_type(f, ast.Call) if nows(c) == 'self.request.sendall(outdata)']
    if len(assigns) != 1 or len(withs) != 1 or len(sends) != 1:
        raise Shape('send_reply: expected one assignment of the encoded frame to outdata, one top-level `with self.send_lock:` and one sendall')
    return f, assigns[0], withs[0], sends[0]


def encode_outside_lock():
    """send_reply computes the frame BEFORE entering `with self.send_lock` (top-level statement preceding the with, not
    inside it), nothing but the guard on empty data precedes it, outdata is assigned nowhere else and the with block is
    the last statement: encode errors are raised while the lock is not held, and no code runs after the lock is released"""
    f, asg, w, send = _sr_parts()
    body = [n for n in f.body if not (isinstance(n, ast.Expr) and isinstance(n.value, ast.Constant))]
    ok = (len(body) == 3 and isinstance(body[0], ast.If) and nows(body[0].test) == 'notdata'
          and isinstance(body[0].body[-1], ast.Return) and not body[0].orelse
          and body[1] is asg and body[2] is w
          and not [c for c in walk_type(w, ast.Call) if 'encode_msg_frame' in nows(c.func)]
          and len([n for n in walk_type(f, ast.Name) if n.id == 'outdata' and isinstance(n.ctx, ast.Store)]) == 1)
    return 'bool', cbool(ok)


def send_failure_caught():
    """inside the with block: `if self.running:` around a try whose only statement is the sendall; the handlers catch
    (BrokenPipeError, IOError) and Exception, every handler sets self.running = False and neither raises nor returns;
    no else/finally; so a failing sendall leaves the with block normally (lock released) and raises nothing"""
    f, asg, w, send = _sr_parts()
    ok = False
    if len(w.body) == 1 and isinstance(w.body[0], ast.If) and nows(w.body[0].test) == 'self.running' \
            and not w.body[0].orelse and len(w.body[0].body) == 1 and isinstance(w.body[0].body[0], ast.Try):
        t = w.body[0].body[0]
        types = [nows(h.type) if h.type is not None else None for h in t.handlers]
        ok = (len(t.body) == 1 and isinstance(t.body[0], ast.Expr) and t.body[0].value is send
              and not t.orelse and not t.finalbody
              and 'Exception' in types and types[-1] == 'Exception'
              and all(any(nows(a) == 'self.running=False' for a in walk_type(h, ast.Assign)) for h in t.handlers)
              and not any(walk_type(h, (ast.Raise, ast.Return)) for h in t.handlers)
              and not walk_type(f, (ast.For, ast.While)))
    return 'bool', cbool(ok)


def socket_written_only_by_send_reply():
    """in RequestHandler and TCPRequestHandler the socket object self.request is used only as
    self.request.<settimeout|recv|shutdown|close|sendall>(...), sendall only in send_reply; it is never passed on or
    aliased (the only other occurrence is the assignment in __init__)"""
    ok = True
    n_send = 0
    for cls in (find_class(parse(F_HDL), 'RequestHandler'), _tcp()):
        parents = {}
        for node in ast.walk(cls):
            for ch in ast.iter_child_nodes(node):
                parents[ch] = node
        for node in ast.walk(cls):
            if is_self_attr(node, 'request'):
                par = parents.get(node)
                if isinstance(node.ctx, ast.Store):
                    fn = par
                    while fn is not None and not isinstance(fn, ast.FunctionDef):
                        fn = parents.get(fn)
                    if fn is None or fn.name != '__init__':
                        ok = False
                    continue
                if not (isinstance(par, ast.Attribute) and par.value is node and isinstance(parents.get(par), ast.Call)
                        and parents[par].func is par
                        and par.attr in ('settimeout', 'recv', 'shutdown', 'close', 'sendall')):
                    ok = False
                    continue
                if par.attr == 'sendall':
                    n_send += 1
                    fn = par
                    while fn is not None and not isinstance(fn, ast.FunctionDef):
                        fn = parents.get(fn)
                    if fn is None or fn.name != 'send_reply':
                        ok = False
    return 'bool', cbool(ok and n_send == 1)


def send_lock_per_connection():
    """RequestHandler.setup creates one plain threading.Lock per connection object and sets running = True; send_lock is
    assigned nowhere else; running is assigned only in setup (True) and in send_reply (False, inside the with block)"""
    hdl = find_class(parse(F_HDL), 'RequestHandler')
    setup = find_func(hdl, 'setup')
    ok = (any(nows(a) == 'self.send_lock=threading.Lock()' for a in setup.body if isinstance(a, ast.Assign))
          and any(nows(a) == 'self.running=True' for a in setup.body if isinstance(a, ast.Assign)))
    f, asg, w, send = _sr_parts()
    in_with = set(id(a) for a in walk_type(w, ast.Assign))
    for cls in (hdl, _tcp()):
        for fn in [n for n in cls.body if isinstance(n, ast.FunctionDef)]:
            for a in walk_type(fn, (ast.Assign, ast.AugAssign, ast.AnnAssign)):
                targets = a.targets if isinstance(a, ast.Assign) else [a.target]
                for t in targets:
                    for x in ast.walk(t):
                        if is_self_attr(x, 'send_lock') and not (cls is hdl and fn.name == 'setup'):
                            ok = False
                        if is_self_attr(x, 'running'):
                            if cls is hdl and fn.name == 'setup' and nows(a) == 'self.running=True':
                                continue
                            if fn.name == 'send_reply' and id(a) in in_with and nows(a) == 'self.running=False':
                                continue
                            ok = False
    return 'bool', cbool(ok)


# ------------------------------------------------------------------ interface/handler.py: the request loop
def _handle():
    return find_func(find_class(parse(F_HDL), 'RequestHandler'), 'handle')


def _handlers():
    hs = {}
    for t in walk_type(_handle(), ast.Try):
        for h in t.handlers:
            if h.type is not None:
                hs.setdefault(nows(h.type), []).append(h)
    return hs


def _result_of(h):
    """the (action, spec, [name, text, {...}]) tuple assigned to result in an except block"""
    for a in walk_type(h, ast.Assign):
        if nows(a.targets[0]) == 'result' and isinstance(a.value, ast.Tuple) and len(a.value.elts) == 3 \
                and isinstance(a.value.elts[2], ast.List) and len(a.value.elts[2].elts) == 3:
            return a.value
    raise Shape('except block does not assign result = (action, spec, [name, text, dict])')


def _one(name):
    hs = _handlers().get(name, [])
    if len(hs) != 1:
        raise Shape(f'handle: expected exactly one `except {name}`')
    return hs[0]


def decode_error_name():
    return 'list N', cstr(const(_result_of(_one('DecodeError')).elts[2].elts[0]))


def generic_error_name():
    return 'list N', cstr(const(_result_of(_one('Exception')).elts[2].elts[0]))


def secop_error_uses_name():
    return 'bool', cbool(nows(_result_of(_one('SECoPError')).elts[2].elts[0]) == 'err.name')


def error_echo_fields():
    """all three error results are (ERRORPREFIX + msg[0], msg[1], ...)"""
    ok = True
    for n in ('DecodeError', 'SECoPError', 'Exception'):
        r = _result_of(_one(n))
        ok = ok and nows(r.elts[0]) == 'ERRORPREFIX+msg[0]' and nows(r.elts[1]) == 'msg[1]'
    return 'bool', cbool(ok)


def error_split_max():
    """msg = err.raw_msg.strip().decode('utf-8', errors='replace').split(' ', N) + [None]
    (the raw line is stripped like decode_msg does, since b6f37c1; read as utf-8 with replacement, since a2736c5)"""
    h = _one('DecodeError')
    for a in walk_type(h, ast.Assign):
        s = nows(a)
        pre, post = "msg=err.raw_msg.strip().decode('utf-8',errors='replace').split('',", ')+[None]'
        if s.startswith(pre) and s.endswith(post):
            return 'nat', cnat(int(s[len(pre):-len(post)]))
    raise Shape("handle: utf-8 (errors='replace') re-split of the stripped raw message not found")


def help_before_dispatch():
    """else-branch: if msg[0] == HELPREQUEST: self.handle_help(); result = (HELPREPLY, None, None) else: dispatcher.handle_request(self, msg)"""
    for i in walk_type(_handle(), ast.If):
        if nows(i.test) == 'msg[0]==HELPREQUEST':
            ok = (len(i.body) == 2 and nows(i.body[0]) == 'self.handle_help()'
                  and nows(i.body[1]) == 'result=(HELPREPLY,None,None)'
                  and len(i.orelse) == 1 and nows(i.orelse[0]) == 'result=serverobj.dispatcher.handle_request(self,msg)')
            return 'bool', cbool(ok)
    return 'bool', 'false'


def details_cleared_unless_detailed():
    for i in walk_type(_handle(), ast.If):
        if nows(i.test).replace('(notdetailed_errors)', 'notdetailed_errors') == 'result[0].startswith(ERRORPREFIX)andnotdetailed_errors':
            return 'bool', cbool(len(i.body) == 1 and nows(i.body[0]) == 'result[2][2].clear()')
    return 'bool', 'false'


def one_send_per_result():
    """exactly one self.send_reply(result) in handle, as last statement of the inner loop"""
    f = _handle()
    calls = [c for c in walk_type(f, ast.Call) if nows(c.func) == 'self.send_reply']
    inner = [w for w in walk_type(f, ast.While) if any(isinstance(x, ast.While) for x in ast.walk(w) if x is not w) is False]
    ok = len(calls) == 1 and nows(calls[0]) == 'self.send_reply(result)' and \
        any(nows(w.body[-1]) == 'self.send_reply(result)' for w in inner)
    return 'bool', cbool(ok)


FACTS = [IDENTREQUEST, IDENTREPLY, ERRORPREFIX, HELPREQUEST, HELPREPLY, request2reply, help_msgs,
         handler_table, ident_alias, internal_prefix, internal_names, internal_error_class, dispatch_by_getattr, unhandled_error_class, handle_request_under_lock,
         error_names, EOL, get_msg_splits_first_eol, decode_split_max, decode_tail_ok, encode_shape_ok, dumps_ascii_only,
         MESSAGE_READ_SIZE, ingest_appends, next_message_shape_ok, sendall_in_send_lock,
         encode_outside_lock, send_failure_caught, socket_written_only_by_send_reply, send_lock_per_connection,
         decode_error_name, generic_error_name, secop_error_uses_name, error_echo_fields, error_split_max,
         help_before_dispatch, details_cleared_unless_detailed, one_send_per_result]

FINGERPRINTS = {
    'interface.encode_msg_frame': lambda: find_func(parse(F_IF), 'encode_msg_frame'),
    'interface.get_msg': lambda: find_func(parse(F_IF), 'get_msg'),
    'interface.decode_msg': lambda: find_func(parse(F_IF), 'decode_msg'),
    'RequestHandler.handle': _handle,
    'RequestHandler.handle_help': lambda: find_func(find_class(parse(F_HDL), 'RequestHandler'), 'handle_help'),
    'TCPRequestHandler.next_message': lambda: find_func(_tcp(), 'next_message'),
    'TCPRequestHandler.send_reply': lambda: find_func(_tcp(), 'send_reply'),
    'TCPRequestHandler.ingest': lambda: find_func(_tcp(), 'ingest'),
    'Dispatcher.handle_request': _hr,
}
