"""facts read off frappy/protocol/messages.py and frappy/client/__init__.py for C11 (fail closed)"""
import ast
from translator import parse, find_class, find_func, find_assign, Shape, cnat, cbool, cstr, src, walk_type

FM = 'frappy/protocol/messages.py'
FC = 'frappy/client/__init__.py'


def _client():
    return find_class(parse(FC), 'SecopClient')


def _method(name):
    return find_func(_client(), name)


def _msg_const(name):
    """value of a module level string constant of messages.py (literal, or concatenation of constants/literals)"""
    tree = parse(FM)

    def ev(node):
        if isinstance(node, ast.Constant) and isinstance(node.value, str):
            return node.value
        if isinstance(node, ast.Name):
            return ev(find_assign(tree, node.id))
        if isinstance(node, ast.BinOp) and isinstance(node.op, ast.Add):
            return ev(node.left) + ev(node.right)
        raise Shape(f'not a string constant: {src(node)[:60]}')
    return ev(find_assign(tree, name))


def R2R():
    """REQUEST2REPLY = {NAME: NAME, ...} with all names string constants of the module"""
    tree = parse(FM)
    d = find_assign(tree, 'REQUEST2REPLY')
    if not isinstance(d, ast.Dict):
        raise Shape('REQUEST2REPLY is not a dict display')
    items = []
    for k, v in zip(d.keys, d.values):
        if not isinstance(k, ast.Name) or not isinstance(v, ast.Name):
            raise Shape('REQUEST2REPLY entry is not NAME: NAME')
        items.append((_msg_const(k.id), _msg_const(v.id)))
    if len({k for k, _ in items}) != len(items):
        raise Shape('duplicate request action')
    return 'list (list N * list N)', '[' + '; '.join(f'({cstr(k)}, {cstr(v)})' for k, v in items) + ']'


def ERR():
    return 'list N', cstr(_msg_const('ERRORPREFIX'))


def EVENTREPLY():
    return 'list N', cstr(_msg_const('EVENTREPLY'))


def _norm(node):
    return src(node).replace(' ', '').replace('\n', '')


def _queue_size(attr):
    init = find_func(_client(), '__init__')
    vals = [n.value for n in walk_type(init, ast.Assign)
            if any(_norm(t) == f'self.{attr}' for t in n.targets)]
    if len(vals) != 1 or not _norm(vals[0]).startswith('queue.Queue('):
        raise Shape(f'self.{attr} = queue.Queue(n) not found')
    return ast.literal_eval(vals[0].args[0])


def txq_size():
    return 'nat', cnat(_queue_size('txq'))


def pending_size():
    return 'nat', cnat(_queue_size('pending'))


def reply_timeout():
    """get_reply: `if not entry[1].wait(<n>):`"""
    f = _method('get_reply')
    for c in walk_type(f, ast.Call):
        if _norm(c.func) == 'entry[1].wait' and len(c.args) == 1:
            return 'nat', cnat(ast.literal_eval(c.args[0]))
    raise Shape('entry[1].wait(n) not found')


def get_reply_shape():
    """time-out -> cleanup.append + TimeoutError; no reply -> ConnectionError; error prefix -> make_secop_error (marked from_reply)"""
    f = _method('get_reply')
    body = [s for s in f.body if not (isinstance(s, ast.Expr) and isinstance(s.value, ast.Constant))]
    ok = len(body) == 5
    if ok:
        s0, s1, s2, s3, s4 = body
        ok = (isinstance(s0, ast.If) and _norm(s0.test).startswith('notentry[1].wait(')
              and _norm(s0.body[0]) == 'self.cleanup.append(entry)'
              and isinstance(s0.body[1], ast.Raise) and _norm(s0.body[1].exc).startswith('TimeoutError(')
              and isinstance(s1, ast.If) and _norm(s1.test) == 'notentry[2]'
              and all(isinstance(r, ast.Raise) and _norm(r.exc).startswith('ConnectionError(')
                      for r in walk_type(s1, ast.Raise)) and isinstance(s1.body[-1], ast.Raise)
              and _norm(s2) in ('(action,_,data)=entry[2]', 'action,_,data=entry[2]')
              and isinstance(s3, ast.If) and _norm(s3.test) == 'action.startswith(ERRORPREFIX)'
              # since 276f60f the error is built, marked as coming from a reply, and raised
              and len(s3.body) == 3 and _norm(s3.body[0]) == 'error=make_secop_error(*data[0:2])'
              and _norm(s3.body[1]) == 'error.from_reply=True'
              and isinstance(s3.body[2], ast.Raise) and _norm(s3.body[2].exc) == 'error'
              and _norm(s4) == 'returnentry[2]')
    return 'bool', cbool(ok)


def queue_request_shape():
    """connect(); entry = [request, Event(), None]; self.txq.put(entry, timeout=..);
    if not self._running: entry[1].set()  (repair 14a9701); return entry"""
    f = _method('queue_request')
    stm = [_norm(s) for s in f.body if not (isinstance(s, ast.Expr) and isinstance(s.value, ast.Constant))]
    ok = (len(stm) == 6 and stm[0] == 'request=(action,ident,data)' and stm[1] == 'self.connect()'
          and stm[2] == 'entry=[request,Event(),None]' and stm[3].startswith('self.txq.put(entry,timeout=')
          and stm[4] == 'ifnotself._running:entry[1].set()'
          and stm[5] == 'returnentry')
    return 'bool', cbool(ok)


def tx_shape():
    """__txthread: get; None -> break; key from the table; `key in active` -> pending.put else register + send;
    afterwards self._txthread = None; self.disconnect(False)"""
    f = _method('__txthread')
    if len(f.body) != 3 or not isinstance(f.body[0], ast.While):
        raise Shape('__txthread: expected while + 2 statements')
    w = f.body[0]
    stm = w.body
    ok = (_norm(w.test) == 'self._running' and len(stm) == 6
          and _norm(stm[0]) == 'entry=self.txq.get()'
          and isinstance(stm[1], ast.If) and _norm(stm[1].test) == 'entryisNone' and isinstance(stm[1].body[0], ast.Break)
          and _norm(stm[2]) == 'request=entry[0]'
          and _norm(stm[3]) == 'reply_action=REQUEST2REPLY.get(request[0],None)'
          and isinstance(stm[4], ast.If) and _norm(stm[4].test) == 'reply_action'
          and _norm(stm[4].body[0]) == 'key=(reply_action,request[1])' and _norm(stm[4].orelse[0]) == 'key=None'
          and isinstance(stm[5], ast.If) and _norm(stm[5].test) == 'keyinself.active_requests'
          and [_norm(s) for s in stm[5].body] == ['self.pending.put(entry)']
          and [_norm(s) for s in stm[5].orelse if 'log.debug' not in _norm(s)] ==
          ['self.active_requests[key]=entry', 'line=encode_msg_frame(*request)', 'self.io.send(line)']
          and _norm(f.body[1]) == 'self._txthread=None' and _norm(f.body[2]) == 'self.disconnect(False)')
    return 'bool', cbool(ok)


def _rx_loop():
    f = _method('__rxthread')
    tries = [s for s in f.body if isinstance(s, ast.Try)]
    if len(tries) != 1 or not isinstance(tries[0].body[0], ast.While):
        raise Shape('__rxthread: expected try: while self._running')
    return tries[0], tries[0].body[0]


def rx_match_shape():
    """try: key = action, ident; entry = active.pop(key)  except KeyError: error prefix -> table lookup of the
    stripped action (KeyError -> None) else None; entry = active.pop(key, None)"""
    _, loop = _rx_loop()
    cand = [s for s in loop.body if isinstance(s, ast.Try) and _norm(s.body[0]) == 'key=(action,ident)']
    if len(cand) != 1:
        raise Shape('matching try not found')
    t = cand[0]
    ok = (len(t.body) == 2 and _norm(t.body[1]) == 'entry=self.active_requests.pop(key)'
          and len(t.handlers) == 1 and _norm(t.handlers[0].type) == 'KeyError')
    if ok:
        h = t.handlers[0].body
        ok = len(h) == 1 and isinstance(h[0], ast.If) and _norm(h[0].test) == 'action.startswith(ERRORPREFIX)'
    if ok:
        th, el = h[0].body, h[0].orelse
        ok = (len(th) == 2 and isinstance(th[0], ast.Try)
              and _norm(th[0].body[0]) == 'key=(REQUEST2REPLY[action[len(ERRORPREFIX):]],ident)'
              and _norm(th[0].handlers[0].type) == 'KeyError' and _norm(th[0].handlers[0].body[0]) == 'key=None'
              and _norm(th[1]) == 'entry=self.active_requests.pop(key,None)'
              and [_norm(s) for s in el] == ['key=None', 'entry=self.active_requests.pop(key,None)'])
    return 'bool', cbool(ok)


def rx_deliver_shape():
    """if entry is None: unhandled, continue; entry[2] = action, ident, data; entry[1].set(); drain pending into txq"""
    _, loop = _rx_loop()
    stm = [_norm(s) for s in loop.body]
    try:
        i = stm.index('entry[2]=(action,ident,data)')
    except ValueError:
        raise Shape('entry[2] = action, ident, data not found') from None
    ok = (i + 2 == len(stm) - 1 and stm[i + 1] == 'entry[1].set()'
          and stm[i - 1].startswith('ifentryisNone:') and stm[i - 1].endswith('continue')
          and isinstance(loop.body[i + 2], ast.While) and _norm(loop.body[i + 2].test) == 'notself.pending.empty()'
          and [_norm(s) for s in loop.body[i + 2].body] == ['self.txq.put(self.pending.get())'])
    return 'bool', cbool(ok)


def rx_cleanup_shape():
    """first statement of the loop: while self.cleanup: entry = pop(); remove the item whose value IS the entry;
    second: the parked requests are re-queued on every turn (repair 2fda835); third: readline"""
    _, loop = _rx_loop()
    w = loop.body[0]
    ok = (_norm(loop.test) == 'self._running' and isinstance(w, ast.While) and _norm(w.test) == 'self.cleanup'
          and _norm(w.body[0]) == 'entry=self.cleanup.pop()' and isinstance(w.body[1], ast.For)
          and _norm(w.body[1].iter) == 'self.active_requests.items()'
          and _norm(w.body[1].body[0]).replace('\n', '') == 'ifprevisentry:self.active_requests.pop(key)break'
          and isinstance(loop.body[1], ast.While) and _norm(loop.body[1].test) == 'notself.pending.empty()'
          and [_norm(s) for s in loop.body[1].body] == ['self.txq.put(self.pending.get())']
          and _norm(loop.body[2]) == 'reply=self.io.readline()')
    return 'bool', cbool(ok)


def rx_finally_shape():
    """finally: self._rxthread = None; self.disconnect(shutdown); ConnectionClosed is swallowed"""
    t, _ = _rx_loop()
    ok = (len(t.finalbody) >= 2 and _norm(t.finalbody[0]) == 'self._rxthread=None'
          and _norm(t.finalbody[1]) == 'self.disconnect(shutdown)'
          and _norm(t.handlers[0].type) == 'ConnectionClosed' and isinstance(t.handlers[0].body[0], ast.Pass))
    return 'bool', cbool(ok)


DISCONNECT_CALLS = ['self._shutdown.set', 'self.txq.get', 'entry[1].set', 'self.io.shutdown', 'self.txq.put',
                    'txthread.join', 'rxthread.join', 'self.io.disconnect',
                    'self.active_requests.popitem', 'event.set', 'self.pending.get', 'event.set']


def disconnect_order():
    """the synchronisation-relevant calls of disconnect() in source order; the drain of txq sets the event of every
    dropped entry (repair 14a9701); the thread handles are read into locals before put/join (repair a58ac30)"""
    f = _method('disconnect')
    calls = sorted((c for c in walk_type(f, ast.Call)), key=lambda c: (c.lineno, c.col_offset))
    names = [_norm(c.func) for c in calls]
    names = [n for n in names if n in set(DISCONNECT_CALLS)]
    first = _norm(f.body[0]) == 'self._running=False'
    guards = [_norm(s.test) for s in f.body if isinstance(s, ast.If)]
    stm = [_norm(s) for s in f.body]
    drains = [s for s in f.body if isinstance(s, ast.Try) and 'self.txq.get' in _norm(s)]
    drain_ok = (len(drains) == 1 and len(drains[0].body) == 1 and isinstance(drains[0].body[0], ast.While)
                and _norm(drains[0].body[0].test) == 'True'
                and [_norm(s) for s in drains[0].body[0].body] ==
                ['entry=self.txq.get(False)', 'ifentryisnotNone:entry[1].set()']
                and len(drains[0].handlers) == 1 and _norm(drains[0].handlers[0].type) == 'queue.Empty')
    locals_ok = ('txthread=self._txthread' in stm and 'rxthread=self._rxthread' in stm
                 and stm.index('txthread=self._txthread') + 1 < len(stm)
                 and stm[stm.index('txthread=self._txthread') + 1].startswith('iftxthread:self.txq.put(None)txthread.join()')
                 and stm[stm.index('rxthread=self._rxthread') + 1].startswith('ifrxthread:rxthread.join()'))
    ok = (names == DISCONNECT_CALLS and first and drain_ok and locals_ok
          and guards == ['shutdown', 'self.io', 'txthread', 'rxthread', 'self.io'])
    return 'bool', cbool(ok)


FACTS = [R2R, ERR, EVENTREPLY, txq_size, pending_size, reply_timeout, get_reply_shape, queue_request_shape,
         tx_shape, rx_match_shape, rx_deliver_shape, rx_cleanup_shape, rx_finally_shape, disconnect_order]

FINGERPRINTS = {
    'SecopClient.__txthread': lambda: _method('__txthread'),
    'SecopClient.__rxthread': lambda: _method('__rxthread'),
    'SecopClient.disconnect': lambda: _method('disconnect'),
    'SecopClient.queue_request': lambda: _method('queue_request'),
    'SecopClient.get_reply': lambda: _method('get_reply'),
    'messages.REQUEST2REPLY': lambda: find_assign(parse(FM), 'REQUEST2REPLY'),
}
