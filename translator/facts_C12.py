"""facts read off frappy/client/__init__.py, frappy/errors.py, frappy/params.py, frappy/protocol/messages.py for C12"""
import ast
from translator import parse, find_class, find_func, find_assign, Shape, const, cbool, cstr, src, walk_type

CLIENT = 'frappy/client/__init__.py'
ERRORS = 'frappy/errors.py'
PARAMS = 'frappy/params.py'
MESSAGES = 'frappy/protocol/messages.py'


def _nospace(node):
    return src(node).replace(' ', '').replace('\n', '')


def _lst(strings):
    return '[' + '; '.join(cstr(s) for s in strings) + ']'


# ---------------------------------------------------------------- tables
def predefined_names():
    """keys of PREDEFINED_ACCESSIBLES (frappy/params.py); SecopClient.PREDEFINED_NAMES is the set of them"""
    d = find_assign(parse(PARAMS), 'PREDEFINED_ACCESSIBLES')
    if not isinstance(d, ast.Dict):
        raise Shape('PREDEFINED_ACCESSIBLES is not a dict display')
    keys = [const(k) for k in d.keys]
    if not all(isinstance(k, str) for k in keys):
        raise Shape('non-string key')
    cl = find_class(parse(CLIENT), 'SecopClient')
    v = find_assign(cl, 'PREDEFINED_NAMES')
    if _nospace(v) != 'set(frappy.params.PREDEFINED_ACCESSIBLES)':
        raise Shape('PREDEFINED_NAMES is not set(frappy.params.PREDEFINED_ACCESSIBLES)')
    return 'list (list N)', _lst(keys)


def _error_classes():
    """[(class name, own name attribute or None)] of all SECoPError subclasses in definition order"""
    tree = parse(ERRORS)
    known = {'SECoPError'}
    res = []
    for node in tree.body:
        if isinstance(node, ast.ClassDef):
            bases = [b.id for b in node.bases if isinstance(b, ast.Name)]
            if node.name != 'SECoPError' and any(b in known for b in bases):
                known.add(node.name)
                own = None
                for st in node.body:
                    if isinstance(st, ast.Assign) and any(isinstance(t, ast.Name) and t.id == 'name' for t in st.targets):
                        own = const(st.value)
                res.append((node.name, own))
    if not res:
        raise Shape('no SECoPError subclasses found')
    base = find_class(tree, 'SECoPError')
    isub = find_func(base, '__init_subclass__')
    body = ''.join(_nospace(s) for s in isub.body)
    if body != "cls.clsname2class[cls.__name__]=clsif'name'incls.__dict__:cls.name2class[cls.name]=cls":
        raise Shape('__init_subclass__ has an unexpected body: ' + body[:80])
    return res


def error_classes():
    """SECoPError.clsname2class keys (classes defined in frappy/errors.py)"""
    return 'list (list N)', _lst([c for c, _ in _error_classes()])


def error_names():
    """SECoPError.name2class as built by __init_subclass__ plus the trailing name2class.update(...)"""
    pairs = [(own, c) for c, own in _error_classes() if own is not None]
    tree = parse(ERRORS)
    found = False
    for node in tree.body:
        if isinstance(node, ast.Expr) and isinstance(node.value, ast.Call) and \
                _nospace(node.value.func) == 'SECoPError.name2class.update':
            found = True
            if node.value.args:
                raise Shape('name2class.update with positional arguments')
            for kw in node.value.keywords:
                if not isinstance(kw.value, ast.Name):
                    raise Shape('name2class.update value is not a class name')
                pairs.append((kw.arg, kw.value.id))
    if not found:
        raise Shape('SECoPError.name2class.update(...) not found')
    return 'list (list N * list N)', '[' + '; '.join(f'({cstr(n)}, {cstr(c)})' for n, c in pairs) + ']'


def error_default_is_InternalError():
    """make_secop_error: FRAPPY_ERROR.match(text) first, class by prefix, else name2class.get(name, InternalError)(text)"""
    tree = parse(ERRORS)
    pat = find_assign(tree, 'FRAPPY_ERROR')
    if _nospace(pat) != "re.compile('(\\\\w*):(.*)$')" and src(pat) != "re.compile('(\\\\w*): (.*)$')":
        raise Shape('FRAPPY_ERROR pattern changed: ' + src(pat))
    f = find_func(tree, 'make_secop_error')
    body = [s for s in f.body if not (isinstance(s, ast.Expr) and isinstance(s.value, ast.Constant))]
    got = '|'.join(_nospace(s) for s in body)
    want = ('match=FRAPPY_ERROR.match(text)|'
            'ifmatch:clsname,errtext=match.groups()errcls=SECoPError.clsname2class.get(clsname)iferrcls:returnerrcls(errtext)|'
            'returnSECoPError.name2class.get(name,InternalError)(text)')
    want2 = want.replace('clsname,errtext=', '(clsname,errtext)=')
    return 'bool', cbool(got in (want, want2))


# ---------------------------------------------------------------- message constants
def _msgconst(name):
    return const(find_assign(parse(MESSAGES), name))


def update_messages_ok():
    """UPDATE_MESSAGES == {update, reply, changed, error_read, error_update}"""
    v = find_assign(parse(CLIENT), 'UPDATE_MESSAGES')
    if not isinstance(v, ast.Set):
        raise Shape('UPDATE_MESSAGES is not a set display')
    got = sorted(_nospace(e) for e in v.elts)
    want = sorted(['EVENTREPLY', 'READREPLY', 'WRITEREPLY', 'ERRORPREFIX+READREQUEST', 'ERRORPREFIX+EVENTREPLY'])
    names = (_msgconst('EVENTREPLY'), _msgconst('READREPLY'), _msgconst('WRITEREPLY'), _msgconst('READREQUEST'),
             _msgconst('ERRORPREFIX'))
    return 'bool', cbool(got == want and names == ('update', 'reply', 'changed', 'read', 'error_'))


# ---------------------------------------------------------------- structure of the receive loop
def _rx():
    return find_func(find_class(parse(CLIENT), 'SecopClient'), '_SecopClient__rxthread'.replace('_SecopClient', ''))


def _update_block():
    """the body of `if action in UPDATE_MESSAGES:` in __rxthread"""
    for n in walk_type(_rx(), ast.If):
        if _nospace(n.test) == 'actioninUPDATE_MESSAGES':
            return n
    raise Shape('`if action in UPDATE_MESSAGES` not found in __rxthread')


def timestamp_clamped_before_update():
    """`timestamp = min(now, timestamp)` directly precedes self.updateValue(module, param, value, timestamp, readerror)"""
    blk = _update_block()
    for n in walk_type(blk, ast.If):
        if _nospace(n.test) == 'module_paramisnotNone':
            stmts = [_nospace(s) for s in n.body]
            try:
                i = stmts.index('timestamp=min(now,timestamp)')
            except ValueError:
                return 'bool', 'false'
            ok = i + 1 < len(stmts) and stmts[i + 1] == 'self.updateValue(module,param,value,timestamp,readerror)' \
                and stmts[0] == 'now=time.time()'
            return 'bool', cbool(ok)
    raise Shape('`if module_param is not None` not found')


def reply_update_precedes_release():
    """program order of one pass of the receive loop: the ONLY call of self.updateValue in __rxthread is a plain
    statement inside the try block that decodes the line (in `if action in UPDATE_MESSAGES: .. if module_param is not
    None:`), and the ONLY `entry[1].set()` of the function is a plain statement of the loop body AFTER that try block
    and after `entry[2] = action, ident, data`; the handler of that try block ends with `continue` (a line whose
    cache update raised releases nobody).  So for reply / changed / error_read lines the cache is updated and the
    callbacks have run before the waiting caller is released."""
    rx = _rx()
    loops = [n for n in walk_type(rx, ast.While) if _nospace(n.test) == 'self._running']
    if len(loops) != 1:
        raise Shape('__rxthread: expected one `while self._running` loop')
    body = loops[0].body

    def is_update_call(n):
        return isinstance(n, ast.Call) and _nospace(n.func) == 'self.updateValue'

    def is_set_call(n):
        return isinstance(n, ast.Call) and isinstance(n.func, ast.Attribute) and n.func.attr == 'set'
    upd_calls = [n for n in ast.walk(rx) if is_update_call(n)]
    set_calls = [n for n in ast.walk(rx) if is_set_call(n)]
    if len(upd_calls) != 1 or len(set_calls) != 1:
        return 'bool', 'false'
    # position of the try block holding the update, and of the release, among the statements of the loop body
    i_try = i_set = i_fill = None
    for i, st in enumerate(body):
        if isinstance(st, ast.Try) and any(is_update_call(n) for n in ast.walk(st)):
            i_try = i
        if isinstance(st, ast.Expr) and is_set_call(st.value):
            i_set = i
        if _nospace(st) in ('entry[2]=(action,ident,data)', 'entry[2]=action,ident,data'):
            i_fill = i
    if i_try is None or i_set is None or i_fill is None:
        return 'bool', 'false'
    tr = body[i_try]
    ok = i_try < i_fill < i_set and _nospace(body[i_set]) == 'entry[1].set()'
    # the update is a plain statement of `if module_param is not None:` inside `if action in UPDATE_MESSAGES:` in the
    # try body (not in a handler, not in finally, not deferred into a nested function)
    blk = _update_block()
    inner = [n for n in walk_type(blk, ast.If) if _nospace(n.test) == 'module_paramisnotNone']
    ok = ok and len(inner) == 1 and any(isinstance(st, ast.Expr) and st.value is upd_calls[0] for st in inner[0].body)
    ok = ok and any(blk is n for st in tr.body for n in ast.walk(st))
    ok = ok and not [n for n in walk_type(rx, (ast.FunctionDef, ast.Lambda)) if n is not rx]
    # a failing update goes to the next line without releasing anybody
    ok = ok and len(tr.handlers) == 1 and _nospace(tr.handlers[0].type) == 'Exception' \
        and isinstance(tr.handlers[0].body[-1], ast.Continue) and not tr.finalbody
    return 'bool', cbool(ok)


def reply_error_not_stored_again():
    """repaired shape of repository commit 276f60f: get_reply marks the error it raises for an error reply
    (`error = make_secop_error(*data[0:2]); error.from_reply = True; raise error`), and readParameter tests the mark
    BEFORE comparing with the cached readerror and returns the cache item without a second updateValue
    (`if getattr(e, 'from_reply', False) or e == result.readerror: return result`); the fallback
    `self.updateValue(module, parameter, None, time.time(), e)` follows that test"""
    cl = find_class(parse(CLIENT), 'SecopClient')
    g = find_func(cl, 'get_reply')
    ok1 = False
    for n in walk_type(g, ast.If):
        if _nospace(n.test) == 'action.startswith(ERRORPREFIX)':
            ok1 = [_nospace(x) for x in n.body] == ['error=make_secop_error(*data[0:2])', 'error.from_reply=True',
                                                    'raiseerror'] and not n.orelse
    r = find_func(cl, 'readParameter')
    body = [x for x in r.body if not (isinstance(x, ast.Expr) and isinstance(x.value, ast.Constant))]
    ok2 = False
    if len(body) == 2 and isinstance(body[0], ast.Try) and len(body[0].handlers) == 1:
        tr = body[0]
        h = tr.handlers[0]
        hb = [_nospace(x) for x in h.body]
        ok2 = [_nospace(x) for x in tr.body] == ['self.request(READREQUEST,self.identifier[module,parameter])'] \
            and _nospace(h.type) == 'SECoPError' and h.name == 'e' \
            and hb == ['result=self.cache[module,parameter]',
                       "ifgetattr(e,'from_reply',False)ore==result.readerror:returnresult",
                       'self.updateValue(module,parameter,None,time.time(),e)'] \
            and not tr.orelse and not tr.finalbody \
            and _nospace(body[1]) == 'returnself.cache.get((module,parameter),None)'
    return 'bool', cbool(ok1 and ok2)


def shorthand_lookup_shape():
    """missing ':value'/':target': only for a non-empty identifier without colon (repaired shape of commit 0fe05ab);
    target exactly for WRITEREPLY"""
    blk = _update_block()
    for n in walk_type(blk, ast.If):
        if _nospace(n.test).replace('(', '').replace(')', '') == "module_paramisNoneandidentand':'notinident":
            inner = n.body
            if len(inner) == 1 and isinstance(inner[0], ast.If):
                s = _nospace(inner[0])
                want = ("ifaction==WRITEREPLY:module_param=self.internal.get(f'{ident}:target',None)"
                        "else:module_param=self.internal.get(f'{ident}:value',None)")
                return 'bool', cbool(s == want)
            return 'bool', 'false'
    return 'bool', 'false'


def update_value_order():
    """SecopClient.updateValue: import, cache write, updateItem node/module/parameter, then super().updateValue;
    ProxyClient.updateValue: updateEvent node/module/parameter"""
    tree = parse(CLIENT)
    f = find_func(find_class(tree, 'SecopClient'), 'updateValue')
    stmts = [_nospace(s) for s in f.body]
    want_tail = [
        'entry=CacheItem(value,timestamp,readerror,datatype)',
        'self.cache[module,param]=entry',
        "self.callback(None,'updateItem',module,param,entry)",
        "self.callback(module,'updateItem',module,param,entry)",
        "self.callback((module,param),'updateItem',module,param,entry)",
        'super().updateValue(module,param,value,timestamp,readerror)',
    ]
    stmts = [s.replace('self.cache[(module,param)]', 'self.cache[module,param]') for s in stmts]
    ok = stmts[-6:] == want_tail and stmts[0] == "datatype=self.modules[module]['parameters'][param]['datatype']" \
        and 'value=datatype.import_value(value)' in stmts[1]
    g = find_func(find_class(tree, 'ProxyClient'), 'updateValue')
    gst = [_nospace(s) for s in g.body]
    ok2 = gst == [
        "self.callback(None,'updateEvent',module,param,value,timestamp,readerror)",
        "self.callback(module,'updateEvent',module,param,value,timestamp,readerror)",
        "self.callback((module,param),'updateEvent',module,param,value,timestamp,readerror)",
    ]
    return 'bool', cbool(ok and ok2)


def _callback_try():
    f = find_func(find_class(parse(CLIENT), 'ProxyClient'), 'callback')
    loops = [n for n in f.body if isinstance(n, ast.For)]
    if len(loops) != 1:
        raise Shape('callback: expected one for loop')
    lp = loops[0]
    if len(lp.body) != 1 or not isinstance(lp.body[0], ast.Try):
        raise Shape('callback: loop body is not a single try statement')
    return lp, lp.body[0]


def unregister_handler_checks_membership():
    """ProxyClient.callback (since 4741ef2): the handler of UnregisterCallback is exactly
    `if cbfunc in cblist: cblist.remove(cbfunc)` -- a callback that is not in the held list any more (unregistered by
    another callback during the dispatch) is not removed and no exception leaves the handler; no else branch, no
    finally / else clause on the try"""
    _lp, tr = _callback_try()
    ok = len(tr.handlers) == 2 and not tr.orelse and not tr.finalbody \
        and _nospace(tr.handlers[0].type) == 'UnregisterCallback' and len(tr.handlers[0].body) == 1
    if ok:
        st = tr.handlers[0].body[0]
        ok = isinstance(st, ast.If) and _nospace(st.test) == 'cbfuncincblist' and not st.orelse \
            and [_nospace(x) for x in st.body] == ['cblist.remove(cbfunc)']
    return 'bool', cbool(ok)


def callback_iterates_copy():
    """ProxyClient.callback: `for cbfunc in list(cblist)` with try/except UnregisterCallback -> (guarded) cblist.remove(cbfunc)"""
    f = find_func(find_class(parse(CLIENT), 'ProxyClient'), 'callback')
    loops = [n for n in f.body if isinstance(n, ast.For)]
    if len(loops) != 1:
        raise Shape('callback: expected one for loop')
    lp = loops[0]
    ok = _nospace(lp.iter) == 'list(cblist)' and len(lp.body) == 1 and isinstance(lp.body[0], ast.Try)
    if ok:
        tr = lp.body[0]
        ok = _nospace(tr.body[0]) == 'cbfunc(*args)' and len(tr.handlers) == 2 \
            and _nospace(tr.handlers[0].type) == 'UnregisterCallback' \
            and [_nospace(s) for s in ast.walk(tr.handlers[0]) if isinstance(s, ast.Expr)] == ['cblist.remove(cbfunc)'] \
            and _nospace(tr.handlers[1].type) == 'Exception'
    return 'bool', cbool(ok)


def _body(f):
    return [s for s in f.body if not (isinstance(s, ast.Expr) and isinstance(s.value, ast.Constant))]


def register_appends_in_place():
    """ProxyClient.register_callback: the loop over the keyword callbacks ends with
    `if do_append: self.callbacks[cbname][key].append(cbfunc)` -- an append on the list object stored in the dict; the
    function stores nothing into a subscript (no `cbdict[key] = ...`), and unregister_callback removes from the stored
    object and pops an empty list"""
    pc = find_class(parse(CLIENT), 'ProxyClient')
    f = find_func(pc, 'register_callback')
    loops = [n for n in _body(f) if isinstance(n, ast.For)]
    if len(loops) != 2:
        raise Shape('register_callback: expected two top level for loops')
    last = loops[1].body[-1]
    ok = isinstance(last, ast.If) and _nospace(last.test) == 'do_append' and not last.orelse \
        and [_nospace(x) for x in last.body] == ['self.callbacks[cbname][key].append(cbfunc)']
    for n in ast.walk(f):
        targets = n.targets if isinstance(n, ast.Assign) else [n.target] if isinstance(n, (ast.AugAssign, ast.AnnAssign)) else []
        for t in targets:
            for sub in ast.walk(t):
                if isinstance(sub, ast.Subscript) and not (isinstance(n, ast.Assign) and _nospace(t) == 'kwds[cbfunc.__name__]'):
                    ok = False
        if isinstance(n, ast.Call) and isinstance(n.func, ast.Attribute) and n.func.attr in (
                'update', 'setdefault', 'pop', 'clear', 'insert', 'extend', 'copy', '__setitem__'):
            ok = False
    u = find_func(pc, 'unregister_callback')
    loops = [n for n in _body(u) if isinstance(n, ast.For)]
    if len(loops) != 2:
        raise Shape('unregister_callback: expected two top level for loops')
    st = [_nospace(x) for x in loops[1].body]
    ok = ok and st == ['cblist=self.callbacks[cbname][key]', 'iffuncincblist:cblist.remove(func)',
                       'ifnotcblist:self.callbacks[cbname].pop(key)']
    return 'bool', cbool(ok)


def dispatch_removes_from_fetched_list():
    """ProxyClient.callback: `cblist = self.callbacks[cbname].get(key, [])` is the first statement and the only
    assignment to cblist: the list iterated (as a copy) and the list `cblist.remove(cbfunc)` works on are the object
    stored in the dict at the start of the dispatch; the function ends with `return bool(cblist)`"""
    f = find_func(find_class(parse(CLIENT), 'ProxyClient'), 'callback')
    body = _body(f)
    ok = len(body) == 3 and _nospace(body[0]) == 'cblist=self.callbacks[cbname].get(key,[])' \
        and isinstance(body[1], ast.For) and _nospace(body[2]) == 'returnbool(cblist)'
    n_assign = 0
    for n in ast.walk(f):
        if isinstance(n, ast.Name) and n.id == 'cblist' and isinstance(n.ctx, (ast.Store, ast.Del)):
            n_assign += 1
    return 'bool', cbool(ok and n_assign == 1)


def internalize_shape():
    """internalize_name strips one leading underscore unless the rest is a predefined name"""
    f = find_func(find_class(parse(CLIENT), 'SecopClient'), 'internalize_name')
    body = [s for s in f.body if not (isinstance(s, ast.Expr) and isinstance(s.value, ast.Constant))]
    s = '|'.join(_nospace(x) for x in body)
    return 'bool', cbool(s == "ifname.startswith('_')andname[1:]notinself.PREDEFINED_NAMES:returnname[1:]|returnname")


def array_validate_pads_previous():
    """ArrayOf.validate: previous is padded with None to the length of the value before zip(value, previous)"""
    f = find_func(find_class(parse('frappy/datatypes.py'), 'ArrayOf'), 'validate')
    for n in walk_type(f, ast.If):
        if _nospace(n.test) == 'previous':
            st = [_nospace(x) for x in n.body]
            ok = len(st) == 2 and st[0] == 'previous=tuple(previous)+(None,)*(len(value)-len(previous))' and \
                st[1].replace('(', '').replace(')', '') == 'returntupleself.members.validatev,pforv,pinzipvalue,previous'
            return 'bool', cbool(ok)
    return 'bool', 'false'


def struct_missing_optional_means_all_optional():
    """description -> datatypes for structs: StructOf.export_datatype leaves the key 'optional' out exactly when ALL
    members are optional, StructOf.__init__ reads optional=None as "all members", and DATATYPES['struct'] (used by
    get_datatype, i.e. by the client) hands a missing key on as None: `lambda members, optional=None, pname='', **kwds:
    StructOf(optional, **dict(..))`.  The three sites only work together (seed C12-7 changes the default to () and the
    client rebuilds an all-optional struct as all-mandatory)."""
    tree = parse('frappy/datatypes.py')
    cls = find_class(tree, 'StructOf')
    init = [_nospace(x) for x in find_func(cls, '__init__').body]
    ok = 'self.optional=list(membersifoptionalisNoneelseoptional)' in init
    a = find_func(cls, '__init__').args
    ok = ok and [x.arg for x in a.args] == ['self', 'optional'] and len(a.defaults) == 1 and const(a.defaults[0]) is None
    exp = [_nospace(x) for x in find_func(cls, 'export_datatype').body]
    ok = ok and "ifset(self.optional)!=set(self.members):res['optional']=self.optional" in exp
    d = find_assign(tree, 'DATATYPES')
    if not isinstance(d, ast.Dict):
        raise Shape('DATATYPES is not a dict display')
    lam = None
    for k, v in zip(d.keys, d.values):
        if const(k) == 'struct':
            lam = v
    if not isinstance(lam, ast.Lambda):
        raise Shape("DATATYPES['struct'] is not a lambda")
    names = [x.arg for x in lam.args.args]
    if 'optional' not in names:
        return 'bool', 'false'
    i = names.index('optional') - (len(names) - len(lam.args.defaults))
    ok = ok and i >= 0 and isinstance(lam.args.defaults[i], ast.Constant) and lam.args.defaults[i].value is None
    call = lam.body
    ok = ok and isinstance(call, ast.Call) and _nospace(call.func) == 'StructOf' and len(call.args) == 1 \
        and _nospace(call.args[0]) == 'optional'
    return 'bool', cbool(ok)


def struct_validate_merges_previous():
    """StructOf.validate(value, previous): `result = dict(previous or {})`, then for every member given (and not None)
    `result[key] = self.members[key].validate(val)`, `self.check_missing(result, True)`, `return ImmutableDict(result)`"""
    f = find_func(find_class(parse('frappy/datatypes.py'), 'StructOf'), 'validate')
    if [a.arg for a in f.args.args] != ['self', 'value', 'previous']:
        return 'bool', 'false'
    body = [st for st in f.body if not (isinstance(st, ast.Expr) and isinstance(st.value, ast.Constant))]
    tries = [st for st in body if isinstance(st, ast.Try)]
    if len(tries) != 1:
        return 'bool', 'false'
    tb = tries[0].body
    ok = len(tb) == 2 and _nospace(tb[0]) == 'result=dict(previousor{})' and isinstance(tb[1], ast.For) \
        and _nospace(tb[1].target) in ('key,val', '(key,val)') and _nospace(tb[1].iter) == 'value.items()' \
        and [_nospace(x) for x in tb[1].body] == ['ifvalisnotNone:result[key]=self.members[key].validate(val)']
    ok = ok and _nospace(body[-1]) == 'returnImmutableDict(result)' and _nospace(body[-2]) == 'self.check_missing(result,True)'
    return 'bool', cbool(ok)


FACTS = [array_validate_pads_previous, struct_validate_merges_previous, struct_missing_optional_means_all_optional, predefined_names, error_classes, error_names, error_default_is_InternalError, update_messages_ok,
         timestamp_clamped_before_update, reply_update_precedes_release, reply_error_not_stored_again,
         shorthand_lookup_shape, update_value_order, callback_iterates_copy, unregister_handler_checks_membership,
         register_appends_in_place, dispatch_removes_from_fetched_list, internalize_shape]

_cl = lambda: find_class(parse(CLIENT), 'SecopClient')
_pc = lambda: find_class(parse(CLIENT), 'ProxyClient')
FINGERPRINTS = {
    'SecopClient.__rxthread': _rx,
    'SecopClient.updateValue': lambda: find_func(_cl(), 'updateValue'),
    'SecopClient._init_descriptive_data': lambda: find_func(_cl(), '_init_descriptive_data'),
    'SecopClient.internalize_name': lambda: find_func(_cl(), 'internalize_name'),
    'SecopClient.setParameter': lambda: find_func(_cl(), 'setParameter'),
    'SecopClient.readParameter': lambda: find_func(_cl(), 'readParameter'),
    'SecopClient.get_reply': lambda: find_func(_cl(), 'get_reply'),
    'ProxyClient.callback': lambda: find_func(_pc(), 'callback'),
    'ProxyClient.register_callback': lambda: find_func(_pc(), 'register_callback'),
    'ProxyClient.unregister_callback': lambda: find_func(_pc(), 'unregister_callback'),
    'ProxyClient.updateValue': lambda: find_func(_pc(), 'updateValue'),
    'datatypes.ArrayOf.validate': lambda: find_func(find_class(parse('frappy/datatypes.py'), 'ArrayOf'), 'validate'),
    'errors.make_secop_error': lambda: find_func(parse(ERRORS), 'make_secop_error'),
}
