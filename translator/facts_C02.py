"""facts read off frappy/datatypes.py, frappy/client/__init__.py and frappy/protocol/interface/__init__.py for C02"""
import ast
from translator import parse, find_class, find_func, find_assign, Shape, const, cbool, cstr, src, walk_type

F = 'frappy/datatypes.py'
FC = 'frappy/client/__init__.py'
FI = 'frappy/protocol/interface/__init__.py'


def _cls(name):
    return find_class(parse(F), name)


def _ret(clsname, fn):
    """source (blanks removed) of the single return statement of a method"""
    f = find_func(_cls(clsname), fn)
    rets = walk_type(f, ast.Return)
    if len(rets) != 1:
        raise Shape(f'{clsname}.{fn}: expected exactly one return')
    return src(rets[0].value).replace(' ', '')


def _body(clsname, fn):
    f = find_func(_cls(clsname), fn)
    stmts = [s for s in f.body if not (isinstance(s, ast.Expr) and isinstance(s.value, ast.Constant))]
    return [src(s).replace(' ', '') for s in stmts]


def leaf_exports():
    """export_value of the leaf types is the conversion the model uses"""
    ok = (_ret('FloatRange', 'export_value') == 'float(value)'
          and _ret('IntRange', 'export_value') == 'int(value)'
          and _ret('ScaledInteger', 'export_value') == 'int(round(value/self.scale))'
          and _ret('EnumType', 'export_value') == 'int(self(value))'
          and _ret('BLOBType', 'export_value') == "b64encode(value).decode('ascii')"
          and _ret('StringType', 'export_value') == "f'{value}'"
          and _ret('BoolType', 'export_value') == 'self(value)'
          and _ret('DataType', 'export_value') == 'value')
    return 'bool', cbool(ok)


def container_exports():
    """ArrayOf/TupleOf.export_value: check_type(value); StructOf.export_value: check_type(value, True) (optional members
    may be missing, 45926fd); then the members' export_value element by element"""
    a = _body('ArrayOf', 'export_value')
    t = _body('TupleOf', 'export_value')
    s = _body('StructOf', 'export_value')
    ok = (a == ['self.check_type(value)', 'return[self.members.export_value(elem)foreleminvalue]']
          and t == ['self.check_type(value)', 'return[sub.export_value(elem)forsub,eleminzip(self.members,value)]']
          and s == ['self.check_type(value,True)',
                    'returndict(((str(k),self.members[k].export_value(v))fork,vinlist(value.items())))'])
    return 'bool', cbool(ok)


def leaf_imports():
    """ScaledInteger.import_value: integers (or whole-number floats) only, scale*value; BLOBType.import_value:
    strict b64decode; any exception -> WrongTypeError"""
    ok = True
    for cname, expr, needs in (('ScaledInteger', 'self.scale*value',
                                ['ifisinstance(value,float)andvalue.is_integer():\nvalue=int(value)',
                                 'ifnotisinstance(value,int):']),
                               ('BLOBType', 'b64decode(value,validate=True)', [])):
        f = find_func(_cls(cname), 'import_value')
        tries = walk_type(f, ast.Try)
        ok = ok and len(tries) == 1 and len(tries[0].handlers) == 1 \
            and src(tries[0].handlers[0].type) == 'Exception' \
            and src(tries[0].body[-1]).replace(' ', '') == 'return' + expr \
            and len(tries[0].body) == len(needs) + 1 \
            and all(src(st).replace(' ', '').startswith(n) for st, n in zip(tries[0].body, needs)) \
            and 'raiseWrongTypeError' in src(tries[0].handlers[0]).replace(' ', '')
    return 'bool', cbool(ok)


def container_imports():
    """ArrayOf/TupleOf.import_value: check_type(value), then element by element; StructOf: check_type(value, True)"""
    a = _body('ArrayOf', 'import_value')
    t = _body('TupleOf', 'import_value')
    s = _body('StructOf', 'import_value')
    ok = (a == ['self.check_type(value)', 'returntuple((self.members.import_value(elem)foreleminvalue))']
          and t == ['self.check_type(value)',
                    'returntuple((sub.import_value(elem)forsub,eleminzip(self.members,value)))']
          and s == ['self.check_type(value,True)',
                    'return{str(k):self.members[k].import_value(v)fork,vinvalue.items()}'])
    return 'bool', cbool(ok)


def generic_text_forms():
    """DataType.to_string = format_value(value, False); DataType.from_string = self(ast.literal_eval(text)),
    a failing literal_eval -> WrongTypeError"""
    c = _cls('DataType')
    ts = _ret('DataType', 'to_string') == 'self.format_value(value,False)'
    f = find_func(c, 'from_string')
    tries = walk_type(f, ast.Try)
    fs = (len(tries) == 1 and [src(s).replace(' ', '') for s in tries[0].body] == ['value=ast.literal_eval(text)']
          and src(tries[0].handlers[0].type) == 'Exception'
          and 'raiseWrongTypeError' in src(tries[0].handlers[0]).replace(' ', '')
          and src(f.body[-1]).replace(' ', '') == 'returnself(value)')
    return 'bool', cbool(ts and fs)


def leaf_text_forms():
    """format_value of the leaves: fmtstr % value, f'{value}', repr(value), repr(value.name) when unit is False;
    to_string/from_string overrides of StringType and EnumType"""
    fl = find_func(_cls('FloatRange'), 'format_value')
    sc = find_func(_cls('ScaledInteger'), 'format_value')
    en = find_func(_cls('EnumType'), 'format_value')
    ok = (src(fl.body[-1]).replace(' ', '') == 'returnself.fmtstr%value'
          and src(sc.body[-1]).replace(' ', '') == 'returnself.fmtstr%value'
          and _ret('IntRange', 'format_value') == "f'{value}'"
          and _ret('BLOBType', 'format_value') == 'repr(value)'
          and _ret('StringType', 'format_value') == 'repr(value)'
          and _ret('BoolType', 'format_value') == 'repr(value)'
          and src(en.body[0]).replace(' ', '') == 'ifunitisFalse:\nreturnrepr(value.name)'
          and _ret('StringType', 'to_string') == 'value'
          and _ret('StringType', 'from_string') == 'self(text)'
          and _ret('EnumType', 'to_string') == 'value.name')
    fs = find_func(_cls('EnumType'), 'from_string')
    tries = walk_type(fs, ast.Try)
    ok = ok and len(tries) == 1 \
        and [src(s).replace(' ', '') for s in tries[0].body] == ['returnself._enum(text.strip())'] \
        and src(tries[0].handlers[0].type) == 'KeyError' \
        and [src(s).replace(' ', '') for s in tries[0].handlers[0].body] == ['returnsuper().from_string(text)']
    return 'bool', cbool(ok)


def _q(node):
    return src(node).replace(' ', '').replace('"', "'")


def container_text_forms():
    """[a, b] / (a, b) / {'k': a} composed with ', '.join (no trailing comma); unit=False is handed down"""
    a = find_func(_cls('ArrayOf'), 'format_value')
    t = find_func(_cls('TupleOf'), 'format_value')
    s = find_func(_cls('StructOf'), 'format_value')
    first = _q(s.body[0])
    ok = ("res=f'[{','.join([self.members.format_value(elem,innerunit)foreleminvalue])}]'" in _q(a)
          and 'innerunit=False' in _q(a)
          and [_q(st) for st in t.body] == [
              'items=[sub.format_value(elem,unit)forsub,eleminzip(self.members,value)]',
              "iflen(items)==1:\nreturnf'({items[0]},)'",          # the python syntax of a tuple with one element (5f8afed)
              "returnf'({','.join(items)})'"]
          and first.startswith('ifunitisFalse:')
          and "'{%s}'%','.join(['%r:%s'%(k,self.members[k].format_value(v,False))fork,vinvalue.items()])" in first)
    # the separators themselves (blanks matter in the text)
    for f in (a, t, s):
        for c in walk_type(f, ast.Call):
            if isinstance(c.func, ast.Attribute) and c.func.attr == 'join':
                ok = ok and isinstance(c.func.value, ast.Constant) and c.func.value.value == ', '
    ok = ok and any(isinstance(c, ast.Constant) and c.value == '%r: %s' for c in ast.walk(s.body[0]))
    return 'bool', cbool(ok)


def _words(which):
    f = find_func(_cls('BoolType'), 'from_string')
    ifs = [n for n in f.body if isinstance(n, ast.If)]
    if len(ifs) != 2:
        raise Shape('BoolType.from_string: expected two ifs')
    node = ifs[which]
    t = node.test
    if not (isinstance(t, ast.Compare) and len(t.ops) == 1 and isinstance(t.ops[0], ast.In) and src(t.left) == 'value'):
        raise Shape('BoolType.from_string: expected `value in [...]`')
    want = 'return False' if which == 0 else 'return True'
    if [src(s) for s in node.body] != [want]:
        raise Shape('BoolType.from_string: unexpected branch body')
    if src(f.body[0] if not isinstance(f.body[0], ast.Expr) else f.body[1]).replace(' ', '') != 'value=text.strip()':
        raise Shape('BoolType.from_string: expected value = text.strip()')
    words = const(t.comparators[0])
    return 'list (list N)', '[' + '; '.join(cstr(w) for w in words) + ']'


def bool_false_words():
    return _words(0)


def bool_true_words():
    return _words(1)


def rebuild_rows():
    """the DATATYPES rows the client side type of the model depends on"""
    table = find_assign(parse(F), 'DATATYPES')
    if not isinstance(table, ast.Dict):
        raise Shape('DATATYPES is not a dict display')
    rows = {const(k): src(v).replace(' ', '') for k, v in zip(table.keys, table.values)}
    ok = (rows.get('scaled') == 'lambdascale,min,max,**kwds:ScaledInteger(scale=scale,min=min*scale,max=max*scale,'
                                '**floatargs(kwds))'
          and rows.get('string') == 'lambdaminchars=0,maxchars=None,isUTF8=False,**kwds:StringType(minchars=minchars,'
                                    'maxchars=UNLIMITEDifmaxcharsisNoneelsemaxchars,isUTF8=isUTF8)'   # 414a5ee
          and rows.get('struct') == "lambdamembers,optional=None,pname='',**kwds:StructOf(optional,**dict(((n,"
                                    "get_datatype(t,pname))forn,tinlist(members.items()))))"
          and rows.get('enum') == "lambdamembers,pname='',**kwds:EnumType(pname,members=members)"
          and rows.get('int') == 'lambdamin,max,**kwds:IntRange(min=min,max=max)'
          and rows.get('double') == 'lambdamin=None,max=None,**kwds:FloatRange(min=min,max=max,**floatargs(kwds))'
          and rows.get('blob') == 'lambdamaxbytes,minbytes=0,**kwds:BLOBType(minbytes=minbytes,maxbytes=maxbytes)'
          and rows.get('array') == "lambdamaxlen,members,minlen=0,pname='',**kwds:ArrayOf(get_datatype(members,pname),"
                                   "minlen=minlen,maxlen=maxlen)"
          and rows.get('tuple') == "lambdamembers,pname='',**kwds:TupleOf(*tuple((get_datatype(t,pname)fortinmembers)))")
    return 'bool', cbool(ok)


def string_maxchars_default():
    """StringType.__init__: maxchars=None means `minchars or UNLIMITED`"""
    f = find_func(_cls('StringType'), '__init__')
    s = src(f).replace(' ', '')
    return 'bool', cbool('ifmaxcharsisNone:\nmaxchars=mincharsorUNLIMITED' in s)


def rebuilt_type_is_client():
    f = find_func(parse(F), 'get_datatype')
    s = src(f).replace(' ', '')
    return 'bool', cbool('datatype=DATATYPES[base](pname=pname,**kwargs)\ndatatype.client=True\nreturndatatype' in s)


def _client():
    return find_class(parse(FC), 'SecopClient')


def set_parameter_exports():
    """SecopClient.setParameter sends datatype.export_value(value)"""
    s = src(find_func(_client(), 'setParameter')).replace(' ', '')
    return 'bool', cbool('value=datatype.export_value(value)\nself.request(WRITEREQUEST,self.identifier[module,parameter],value)' in s)


def set_parameter_from_string_exports():
    """SecopClient.setParameterFromString sends datatype.export_value(datatype.from_string(formatted))
    (repaired by 7a693b7; before, the internal value was sent)"""
    f = find_func(_client(), 'setParameterFromString')
    stmts = [src(st).replace(' ', '') for st in f.body
             if not (isinstance(st, ast.Expr) and isinstance(st.value, ast.Constant))]
    ok = stmts == ['self.connect()',
                   "datatype=self.modules[module]['parameters'][parameter]['datatype']",
                   'value=datatype.export_value(datatype.from_string(formatted))',
                   'self.request(WRITEREQUEST,self.identifier[module,parameter],value)',
                   'returnself.cache[module,parameter]']
    return 'bool', cbool(ok)


def client_update_imports():
    """SecopClient.updateValue stores datatype.import_value(value)"""
    s = src(find_func(_client(), 'updateValue')).replace(' ', '')
    return 'bool', cbool('value=datatype.import_value(value)' in s)


def cache_item_str_is_to_string():
    c = find_class(parse(FC), 'CacheItem')
    s = src(find_func(c, '__str__')).replace(' ', '')
    n = src(find_func(c, '__new__')).replace(' ', '')
    return 'bool', cbool('returnself.to_string(self[0])' in s and 'obj.to_string=datatype.to_string' in n)


def frames_are_plain_json():
    """encode_msg_frame uses json.dumps(data), decode_msg json.loads(data)"""
    t = parse(FI)
    e = src(find_func(t, 'encode_msg_frame')).replace(' ', '')
    dd = src(find_func(t, 'decode_msg')).replace(' ', '')
    return 'bool', cbool('json.dumps(data)' in e and 'json.loads(data)' in dd)


FACTS = [leaf_exports, container_exports, leaf_imports, container_imports, generic_text_forms, leaf_text_forms,
         container_text_forms, bool_false_words, bool_true_words, rebuild_rows,
         string_maxchars_default, rebuilt_type_is_client, set_parameter_exports, set_parameter_from_string_exports,
         client_update_imports, cache_item_str_is_to_string, frames_are_plain_json]

_FP = ['DataType', 'FloatRange', 'IntRange', 'ScaledInteger', 'EnumType', 'BLOBType', 'StringType', 'BoolType', 'ArrayOf',
       'TupleOf', 'StructOf']
FINGERPRINTS = {}
for _c in _FP:
    for _f in ('export_value', 'import_value', 'format_value', 'to_string', 'from_string'):
        def _get(c=_c, f=_f):
            return find_func(_cls(c), f)
        try:
            _get()
            FINGERPRINTS[f'{_c}.{_f}'] = _get
        except Shape:
            pass
FINGERPRINTS['get_datatype'] = lambda: find_func(parse(F), 'get_datatype')
FINGERPRINTS['SecopClient.setParameterFromString'] = lambda: find_func(_client(), 'setParameterFromString')
FINGERPRINTS['SecopClient.setParameter'] = lambda: find_func(_client(), 'setParameter')
