"""facts read off frappy/secnode.py, server.py, modulebase.py, modules.py, io.py, lib/multievent.py for C15:
the statement orders the model of the lifecycle relies on"""
import ast
from translator import parse, find_class, find_func, Shape, const, cnat, cbool, src, walk_type, is_self_attr


def _calls(node, attr):
    """all calls `<anything>.<attr>(...)` or `<attr>(...)` inside node"""
    res = []
    for c in walk_type(node, ast.Call):
        f = c.func
        if (isinstance(f, ast.Attribute) and f.attr == attr) or (isinstance(f, ast.Name) and f.id == attr):
            res.append(c)
    return res


def _index_of(body, pred, what):
    idx = [i for i, stmt in enumerate(body) if pred(stmt)]
    if len(idx) != 1:
        raise Shape(f'expected exactly one top-level statement with {what}, found {len(idx)}')
    return idx[0]


def _secnode():
    return find_class(parse('frappy/secnode.py'), 'SecNode')


def get_module_early_then_init_then_flag():
    """get_module: one try block calling earlyInit() before initModule(); `modobj._isinitialized = True`
    follows the try statement (so it is reached on success and after the handler), and the handler catches
    Exception and appends to self.errors; an initialised module is returned without a second initialisation"""
    f = find_func(_secnode(), 'get_module')
    itry = _index_of(f.body, lambda s: isinstance(s, ast.Try), 'try')
    t = f.body[itry]
    early = _calls(t, 'earlyInit')
    init = _calls(t, 'initModule')
    if len(early) != 1 or len(init) != 1:
        raise Shape('get_module: expected one earlyInit() and one initModule() call in the try block')
    ok = (early[0].lineno, early[0].col_offset) < (init[0].lineno, init[0].col_offset)
    ok = ok and all(c in walk_type(ast.Module(body=t.body, type_ignores=[]), ast.Call) for c in early + init)
    iflag = _index_of(f.body, lambda s: isinstance(s, ast.Assign) and src(s).replace(' ', '') ==
                      'modobj._isinitialized=True', '_isinitialized = True')
    ok = ok and iflag > itry
    h = t.handlers
    ok = ok and len(h) == 1 and isinstance(h[0].type, ast.Name) and h[0].type.id == 'Exception' \
        and bool(_calls(h[0], 'append')) and not walk_type(h[0], ast.Raise) and not t.finalbody
    iguard = _index_of(f.body, lambda s: isinstance(s, ast.If) and src(s.test) == 'modobj._isinitialized'
                       and len(s.body) == 1 and isinstance(s.body[0], ast.Return), 'if modobj._isinitialized: return')
    ok = ok and iguard < itry
    return 'bool', cbool(ok)


def processcfg_order():
    """_processCfg: create_modules(), then get_descriptive_data(''), then the loop calling startModule, then the
    `if errors:` block with sys.exit, then start_events.wait()"""
    f = find_func(find_class(parse('frappy/server.py'), 'Server'), '_processCfg')
    body = f.body
    i1 = _index_of(body, lambda s: isinstance(s, ast.Expr) and bool(_calls(s, 'create_modules')), 'create_modules()')
    i2 = _index_of(body, lambda s: isinstance(s, ast.Expr) and bool(_calls(s, 'get_descriptive_data')),
                   'get_descriptive_data()')
    i3 = _index_of(body, lambda s: bool(_calls(s, 'startModule')), 'startModule()')
    i4 = _index_of(body, lambda s: isinstance(s, ast.If) and src(s.test) == 'errors' and bool(_calls(s, 'exit')),
                   'if errors: ... sys.exit')
    i5 = _index_of(body, lambda s: any(src(c.func) == 'start_events.wait' for c in walk_type(s, ast.Call)),
                   'start_events.wait()')
    start = body[i3]
    loops = [n for n in walk_type(start, ast.For) if _calls(n, 'startModule')]
    ok = i1 < i2 < i3 < i4 < i5 and len(loops) == 1 and src(loops[0].iter) == 'self.secnode.modules.items()'
    return 'bool', cbool(ok)


def processcfg_initialises_every_module():
    """_processCfg: between get_descriptive_data('') and the start loop:
    `for modname in list(self.secnode.modules): self.secnode.get_module(modname)` (a snapshot of all module names,
    so that modules which are neither exported nor attached are initialised as well)"""
    f = find_func(find_class(parse('frappy/server.py'), 'Server'), '_processCfg')
    body = f.body
    i2 = _index_of(body, lambda s: isinstance(s, ast.Expr) and bool(_calls(s, 'get_descriptive_data')),
                   'get_descriptive_data()')
    i3 = _index_of(body, lambda s: bool(_calls(s, 'startModule')), 'startModule()')
    idx = [i for i, s in enumerate(body) if isinstance(s, ast.For) and src(s.iter) == 'list(self.secnode.modules)']
    if len(idx) != 1:
        return 'bool', 'false'
    loop = body[idx[0]]
    ok = i2 < idx[0] < i3 and len(loop.body) == 1 and isinstance(loop.target, ast.Name) and \
        src(loop.body[0]) == f'self.secnode.get_module({loop.target.id})' and not loop.orelse
    return 'bool', cbool(ok)


def descriptive_data_initialises_exported():
    """get_descriptive_data: `for modulename in self.export: module = self.get_module(modulename)`"""
    f = find_func(_secnode(), 'get_descriptive_data')
    loops = [n for n in f.body if isinstance(n, ast.For) and src(n.iter) == 'self.export']
    if len(loops) != 1:
        raise Shape('get_descriptive_data: expected one loop over self.export')
    first = loops[0].body[0]
    ok = isinstance(first, ast.Assign) and src(first.value) == 'self.get_module(modulename)'
    return 'bool', cbool(ok)


def shutdown_stops_pollers_first():
    """shutdown_modules: three loops in this order: stopPollThread, joinPollThread, shutdownModule over
    self._getSortedModules()"""
    f = find_func(_secnode(), 'shutdown_modules')
    loops = [n for n in f.body if isinstance(n, ast.For)]
    if len(loops) != 3:
        raise Shape('shutdown_modules: expected three loops')
    ok = bool(_calls(loops[0], 'stopPollThread')) and not _calls(loops[0], 'shutdownModule') \
        and bool(_calls(loops[1], 'joinPollThread')) and not _calls(loops[1], 'shutdownModule') \
        and bool(_calls(loops[2], 'shutdownModule')) and src(loops[2].iter) == 'self._getSortedModules()' \
        and src(loops[0].iter) == 'self.modules.values()' and src(loops[1].iter) == 'self.modules.values()'
    return 'bool', cbool(ok)


def sorted_modules_reversed_postorder():
    """_getSortedModules: go() appends the name after the loop over attachedModules; the function returns l[::-1]"""
    f = find_func(_secnode(), '_getSortedModules')
    go = find_func(f, 'go')
    iloop = _index_of(go.body, lambda s: isinstance(s, ast.For) and 'attachedModules' in src(s.iter), 'attached loop')
    iapp = _index_of(go.body, lambda s: isinstance(s, ast.Expr) and src(s) == 'l.append(name)', 'l.append(name)')
    last = f.body[-1]
    ok = iloop < iapp and isinstance(last, ast.Return) and src(last.value) == 'l[::-1]'
    return 'bool', cbool(ok)


def _module():
    return find_class(parse('frappy/modulebase.py'), 'Module')


def pollthread_writes_then_reads_then_started():
    """__pollThread: inside the start-up try block the loop with writeInitParams()/initialReads() precedes the loop
    with callPollFunc(); the unconditional `if started_callback: started_callback()` follows the start-up loop"""
    cls = _module()
    f = None
    for n in cls.body:
        if isinstance(n, ast.FunctionDef) and n.name == '__pollThread':
            f = n
    if f is None:
        raise Shape('__pollThread not found')
    iwhile = [i for i, s in enumerate(f.body) if isinstance(s, ast.While) and _calls(s, 'writeInitParams')]
    if len(iwhile) != 1:
        raise Shape('__pollThread: start-up loop not found')
    w = f.body[iwhile[0]]
    tries = [s for s in w.body if isinstance(s, ast.Try)]
    if len(tries) != 1:
        raise Shape('__pollThread: start-up try not found')
    tb = tries[0].body
    i1 = _index_of(tb, lambda s: isinstance(s, ast.For) and bool(_calls(s, 'writeInitParams')), 'writeInitParams loop')
    i2 = _index_of(tb, lambda s: isinstance(s, ast.For) and bool(_calls(s, 'callPollFunc')), 'callPollFunc loop')
    l1 = tb[i1]
    cw = _calls(l1, 'writeInitParams')[0]
    ci = _calls(l1, 'initialReads')
    ok = i1 < i2 and len(ci) == 1 and cw.lineno < ci[0].lineno and src(l1.iter) == 'modules'
    icb = [i for i, s in enumerate(f.body) if isinstance(s, ast.If) and src(s.test) == 'started_callback'
           and src(s.body[0]) == 'started_callback()']
    ok = ok and len(icb) == 1 and icb[0] > iwhile[0]
    # the regular polling loop comes after the callback
    ipoll = [i for i, s in enumerate(f.body) if isinstance(s, ast.While) and 'doPoll' in src(s)]
    ok = ok and len(ipoll) == 1 and ipoll[0] > icb[0]
    return 'bool', cbool(ok)


def writeinitparams_absorbs_write_errors():
    """writeInitParams: one loop over list(self.writeDict); the call wfunc(value) stands in a try statement whose
    handlers (SECoPError, then Exception) only log: no handler raises, returns, breaks or continues, so that a failing
    write never keeps the remaining configured values from being written"""
    f = _m('writeInitParams')
    loops = [s for s in f.body if isinstance(s, ast.For)]
    if len(loops) != 1 or src(loops[0].iter) != 'list(self.writeDict)':
        raise Shape('writeInitParams: loop over list(self.writeDict) not found')
    tries = [t for t in walk_type(loops[0], ast.Try)
             if any(src(c.func) == 'wfunc' for c in walk_type(ast.Module(body=t.body, type_ignores=[]), ast.Call))]
    if len(tries) != 1:
        raise Shape('writeInitParams: try around wfunc(value) not found')
    t = tries[0]
    types = [src(h.type) if h.type is not None else None for h in t.handlers]
    ok = types == ['SECoPError', 'Exception'] and not t.finalbody and not t.orelse
    for h in t.handlers:
        ok = ok and not any(walk_type(h, typ) for typ in (ast.Raise, ast.Return, ast.Break, ast.Continue))
    # nothing of the loop body leaves the loop early
    ok = ok and not any(walk_type(loops[0], typ) for typ in (ast.Raise, ast.Return, ast.Break))
    return 'bool', cbool(ok)


def _pollthread():
    for n in _module().body:
        if isinstance(n, ast.FunctionDef) and n.name == '__pollThread':
            return n
    raise Shape('__pollThread not found')


def _leaves(node):
    return any(walk_type(node, typ) for typ in (ast.Raise, ast.Return, ast.Break, ast.Continue))


def pollthread_comm_failure_abandons_startup():
    """__pollThread, start-up loop `while True:` = [try, self.triggerPoll.wait(0.1), break]: the try body ends with
    `break`; its only handler catches CommunicationFailedError, calls started_callback() once (guarded by
    `if started_callback:`, then `started_callback = None`) and does not leave the loop itself; so after a failure the
    thread waits once and goes on WITHOUT a second attempt.  initialReads() stands in an inner try that re-raises
    CommunicationFailedError and absorbs every other Exception; the first reads are
    callPollFunc(rfunc, raise_com_failed=True); `if not polled_modules: return` stands between the callback and the
    regular loop"""
    f = _pollthread()
    iwhile = [i for i, s in enumerate(f.body) if isinstance(s, ast.While) and _calls(s, 'writeInitParams')]
    if len(iwhile) != 1:
        raise Shape('__pollThread: start-up loop not found')
    w = f.body[iwhile[0]]
    ok = isinstance(w.test, ast.Constant) and w.test.value is True and not w.orelse and len(w.body) == 3
    if not ok or not isinstance(w.body[0], ast.Try):
        raise Shape('__pollThread: start-up loop is not [try, wait, break]')
    t, wait, brk = w.body
    ok = ok and isinstance(brk, ast.Break) and isinstance(wait, ast.Expr) and \
        src(wait.value).replace(' ', '') == 'self.triggerPoll.wait(0.1)'
    ok = ok and isinstance(t.body[-1], ast.Break) and not t.orelse and not t.finalbody
    ok = ok and len(t.handlers) == 1 and src(t.handlers[0].type) == 'CommunicationFailedError'
    h = t.handlers[0]
    ok = ok and not _leaves(h) and len(h.body) == 1 and isinstance(h.body[0], ast.If) and \
        src(h.body[0].test) == 'started_callback' and not h.body[0].orelse
    if ok:
        stmts = [src(x).replace(' ', '') for x in h.body[0].body]
        ok = stmts.count('started_callback()') == 1 and stmts[-1] == 'started_callback=None' and \
            stmts.index('started_callback()') < len(stmts) - 1 and len(_calls(h, 'started_callback')) == 1
    # inner try around initialReads
    inner = [x for x in walk_type(ast.Module(body=t.body, type_ignores=[]), ast.Try) if _calls(ast.Module(body=x.body, type_ignores=[]), 'initialReads')]
    ok = ok and len(inner) == 1
    if ok:
        hs = inner[0].handlers
        ok = [src(x.type) for x in hs] == ['CommunicationFailedError', 'Exception'] and \
            len(hs[0].body) == 1 and isinstance(hs[0].body[0], ast.Raise) and hs[0].body[0].exc is None and \
            not _leaves(hs[1]) and not inner[0].finalbody and not inner[0].orelse
    cp = [c for c in _calls(ast.Module(body=t.body, type_ignores=[]), 'callPollFunc')]
    ok = ok and len(cp) == 1 and [(k.arg, const(k.value)) for k in cp[0].keywords] == [('raise_com_failed', True)]
    # between the callback and the regular loop
    icb = [i for i, s in enumerate(f.body) if isinstance(s, ast.If) and src(s.test) == 'started_callback']
    iret = [i for i, s in enumerate(f.body) if isinstance(s, ast.If) and src(s.test).replace(' ', '') == 'notpolled_modules'
            and len(s.body) == 1 and isinstance(s.body[0], ast.Return)]
    ipoll = [i for i, s in enumerate(f.body) if isinstance(s, ast.While) and 'doPoll' in src(s)]
    ok = ok and len(icb) == 1 and len(iret) == 1 and len(ipoll) == 1 and iwhile[0] < icb[0] < iret[0] < ipoll[0]
    return 'bool', cbool(ok)


def callpollfunc_reraises_only_comm_failure():
    """callPollFunc: rfunc() stands in a try with the single handler `except Exception`; the only raise of the
    function is the bare `raise` under `if raise_com_failed and isinstance(e, CommunicationFailedError)`; the default of
    raise_com_failed is False (the regular loop absorbs everything)"""
    f = _m('callPollFunc')
    tries = [x for x in f.body if isinstance(x, ast.Try)]
    if len(tries) != 1:
        raise Shape('callPollFunc: try not found')
    t = tries[0]
    ok = len(t.handlers) == 1 and src(t.handlers[0].type) == 'Exception' and not t.finalbody and not t.orelse
    raises = walk_type(f, ast.Raise)
    ok = ok and len(raises) == 1 and raises[0].exc is None
    guards = [x for x in walk_type(t.handlers[0], ast.If)
              if src(x.test).replace(' ', '') == 'raise_com_failedandisinstance(e,CommunicationFailedError)']
    ok = ok and len(guards) == 1 and len(guards[0].body) == 1 and guards[0].body[0] is raises[0]
    ok = ok and not any(walk_type(f, typ) for typ in (ast.Return,))
    defaults = f.args.defaults
    ok = ok and [a.arg for a in f.args.args] == ['self', 'rfunc', 'raise_com_failed'] and len(defaults) == 1 \
        and const(defaults[0]) is False
    return 'bool', cbool(ok)


def regular_loop_first_pass_polls_every_module():
    """PollInfo.__init__ sets last_main = 0, and the regular loop calls callPollFunc(mobj.doPoll) for every mobj of
    `modules` with `pinfo and now > pinfo.last_main + pinfo.interval`: the first pass calls doPoll of every polled module"""
    pi = find_func(find_class(parse('frappy/modulebase.py'), 'PollInfo'), '__init__')
    ok = any(src(x).replace(' ', '') == 'self.last_main=0' for x in pi.body)
    f = _pollthread()
    loops = [s for s in f.body if isinstance(s, ast.While) and 'doPoll' in src(s)]
    if len(loops) != 1:
        raise Shape('__pollThread: regular loop not found')
    ok = ok and src(loops[0].test) == 'modules'
    fors = [x for x in loops[0].body if isinstance(x, ast.For) and 'doPoll' in src(x)]
    ok = ok and len(fors) == 1 and src(fors[0].iter) == 'modules' and src(fors[0].target) == 'mobj'
    if ok:
        ifs = [x for x in fors[0].body if isinstance(x, ast.If) and 'doPoll' in src(x)]
        ok = len(ifs) == 1 and src(ifs[0].test).replace(' ', '') == 'pinfoandnow>pinfo.last_main+pinfo.interval' and \
            any(src(x).replace(' ', '') == 'mobj.callPollFunc(mobj.doPoll)' for x in ifs[0].body)
    return 'bool', cbool(ok)


def startmodule_starts_thread_iff_polled():
    """startModule: `if self.polledModules: self.__poller = mkthread(self.__pollThread, self.polledModules,
    start_events.get_trigger())`"""
    f = find_func(_module(), 'startModule')
    ifs = [s for s in f.body if isinstance(s, ast.If) and src(s.test) == 'self.polledModules']
    if len(ifs) != 1:
        raise Shape('startModule: if self.polledModules not found')
    c = _calls(ifs[0], 'mkthread')
    ok = len(c) == 1 and [src(a) for a in c[0].args] == ['self.__pollThread', 'self.polledModules',
                                                         'start_events.get_trigger()']
    return 'bool', cbool(ok)


def initmodule_registers_at_io():
    """Module.initModule: if self.enablePoll or self.writeDict: register at self.io.polledModules when the class
    has an io attribute, else at self.polledModules"""
    f = find_func(_module(), 'initModule')
    ifs = [s for s in f.body if isinstance(s, ast.If)]
    if len(ifs) != 1:
        raise Shape('initModule: expected one if')
    top = ifs[0]
    ok = src(top.test) == 'self.enablePoll or self.writeDict'
    inner = [s for s in top.body if isinstance(s, ast.If)]
    ok = ok and len(inner) == 1 and src(inner[0].test) == "hasattr(self, 'io')"
    if ok:
        ok = any(src(s) == 'self.io.polledModules.append(self)' for s in inner[0].body) and \
            any(src(s) == 'self.polledModules.append(self)' for s in inner[0].orelse)
    return 'bool', cbool(ok)


def attached_get_checks():
    """Attached.__get__: cached in obj.attachedModules; secNode.get_module(modulename); `if not modobj: raise
    ConfigError`; `if not isinstance(modobj, self.basecls): raise ConfigError`; only then stored"""
    f = find_func(find_class(parse('frappy/modules.py'), 'Attached'), '__get__')
    outer = [s for s in f.body if isinstance(s, ast.If) and src(s.test) == 'not modobj']
    if len(outer) != 1:
        raise Shape('Attached.__get__: `if not modobj:` not found')
    b = outer[0].body
    iget = _index_of(b, lambda s: isinstance(s, ast.Assign) and src(s.value) == 'obj.secNode.get_module(modulename)',
                     'get_module')
    inone = _index_of(b, lambda s: isinstance(s, ast.If) and src(s.test) == 'not modobj'
                      and isinstance(s.body[0], ast.Raise) and 'ConfigError' in src(s.body[0]), 'missing check')
    ityp = _index_of(b, lambda s: isinstance(s, ast.If) and src(s.test) == 'not isinstance(modobj, self.basecls)'
                     and isinstance(s.body[0], ast.Raise) and 'ConfigError' in src(s.body[0]), 'type check')
    iset = _index_of(b, lambda s: isinstance(s, ast.Assign) and src(s.targets[0]) == 'obj.attachedModules[self.name]',
                     'store')
    return 'bool', cbool(iget < inone < ityp < iset)


def hasio_creates_io_once_per_uri():
    """HasIO.__init__: after super().__init__, `if self.uri:` looks the uri up in ioDict, creates and add_module()s the
    communicator only when it is new, and assigns self.io = ioname; HasIO.initModule raises ConfigError without io"""
    cls = find_class(parse('frappy/io.py'), 'HasIO')
    f = find_func(cls, '__init__')
    ifs = [s for s in f.body if isinstance(s, ast.If) and src(s.test) == 'self.uri']
    if len(ifs) != 1 or not (isinstance(f.body[0], ast.Expr) and 'super().__init__' in src(f.body[0])):
        raise Shape('HasIO.__init__: unexpected shape')
    b = ifs[0].body
    inner = [s for s in b if isinstance(s, ast.If) and src(s.test) == 'not ioname']
    ok = len(inner) == 1 and bool(_calls(inner[0], 'add_module')) and \
        any(src(s) == 'self.ioDict[self.uri] = ioname' for s in inner[0].body) and src(b[-1]) == 'self.io = ioname'
    g = find_func(cls, 'initModule')
    first = g.body[0]
    ok = ok and isinstance(first, ast.If) and src(first.test) == 'not self.io' and isinstance(first.body[0], ast.Raise) \
        and 'super().initModule()' in src(g.body[1])
    return 'bool', cbool(ok)


def multievent_set_only_when_all_triggered():
    """MultiEvent.set_: the underlying event is set only after `if self.events: return`; wait() returns True at once
    only when no event is outstanding"""
    cls = find_class(parse('frappy/lib/multievent.py'), 'MultiEvent')
    f = find_func(cls, 'set_')
    ws = [s for s in f.body if isinstance(s, ast.With)]
    if len(ws) != 1:
        raise Shape('set_: with block not found')
    b = ws[0].body
    iret = _index_of(b, lambda s: isinstance(s, ast.If) and src(s.test) == 'self.events'
                     and isinstance(s.body[0], ast.Return), 'if self.events: return')
    iset = _index_of(b, lambda s: src(s) == 'super().set()', 'super().set()')
    idisc = _index_of(b, lambda s: src(s) == 'self.events.discard(event)', 'discard')
    w = find_func(cls, 'wait')
    first = w.body[1] if isinstance(w.body[0], ast.Expr) and isinstance(w.body[0].value, ast.Constant) else w.body[0]
    ok = idisc < iret < iset and isinstance(first, ast.If) and src(first.test) == 'not self.events'
    return 'bool', cbool(ok)


def start_timeout():
    """start_events = MultiEvent(default_timeout=<int>)"""
    f = find_func(find_class(parse('frappy/server.py'), 'Server'), '_processCfg')
    vals = [kw.value for c in _calls(f, 'MultiEvent') for kw in c.keywords if kw.arg == 'default_timeout']
    if len(vals) != 1:
        raise Shape('MultiEvent(default_timeout=...) not found in _processCfg')
    return 'nat', cnat(const(vals[0]))


FACTS = [get_module_early_then_init_then_flag, processcfg_order, processcfg_initialises_every_module,
         descriptive_data_initialises_exported,
         shutdown_stops_pollers_first, sorted_modules_reversed_postorder, pollthread_writes_then_reads_then_started,
         writeinitparams_absorbs_write_errors, pollthread_comm_failure_abandons_startup,
         callpollfunc_reraises_only_comm_failure, regular_loop_first_pass_polls_every_module,
         startmodule_starts_thread_iff_polled, initmodule_registers_at_io, attached_get_checks,
         hasio_creates_io_once_per_uri, multievent_set_only_when_all_triggered, start_timeout]


def _m(name):
    for n in _module().body:
        if isinstance(n, ast.FunctionDef) and n.name == name:
            return n
    raise Shape(name)


FINGERPRINTS = {
    'SecNode.get_module': lambda: find_func(_secnode(), 'get_module'),
    'SecNode.get_module_instance': lambda: find_func(_secnode(), 'get_module_instance'),
    'SecNode.create_modules': lambda: find_func(_secnode(), 'create_modules'),
    'SecNode.get_descriptive_data': lambda: find_func(_secnode(), 'get_descriptive_data'),
    'SecNode.add_module': lambda: find_func(_secnode(), 'add_module'),
    'SecNode.shutdown_modules': lambda: find_func(_secnode(), 'shutdown_modules'),
    'SecNode._getSortedModules': lambda: find_func(_secnode(), '_getSortedModules'),
    'Server._processCfg': lambda: find_func(find_class(parse('frappy/server.py'), 'Server'), '_processCfg'),
    'Attached.__get__': lambda: find_func(find_class(parse('frappy/modules.py'), 'Attached'), '__get__'),
    'HasIO.__init__': lambda: find_func(find_class(parse('frappy/io.py'), 'HasIO'), '__init__'),
    'HasIO.initModule': lambda: find_func(find_class(parse('frappy/io.py'), 'HasIO'), 'initModule'),
    'Module.initModule': lambda: _m('initModule'),
    'Module.startModule': lambda: _m('startModule'),
    'Module.__pollThread': lambda: _m('__pollThread'),
    'Module.stopPollThread': lambda: _m('stopPollThread'),
    'Module.joinPollThread': lambda: _m('joinPollThread'),
    'Module.writeInitParams': lambda: _m('writeInitParams'),
    'MultiEvent.set_': lambda: find_func(find_class(parse('frappy/lib/multievent.py'), 'MultiEvent'), 'set_'),
    'MultiEvent.wait': lambda: find_func(find_class(parse('frappy/lib/multievent.py'), 'MultiEvent'), 'wait'),
}
